(* Determinism engine (C04): every HashMap iteration of the encode path is order-free.

   1. resolve_on_end's inner map (keys Before / After): [ron_modes_commute], [ron_entries_permutation],
      [ron_any_order]  -- Lowering.resolve_pend2 (order Before, After) equals the loop run in any order.
   2. every inner map of resolve_on_else_or_end (keyed by block id) has one key: [roe_single_key].
   3. the id maps are only looked up: [mapping_lookup_order_free].
   4. types_map.  Since the repair of D11 ModuleTypes::new sorts the keys before inserting: [sort_ids_canonical]
      (every visiting order sorts to the ascending list) and [types_map_order] (hence the same dedup map, the same ids
      and the same emitted types under any two visiting orders -- unconditionally).  History: for the unsorted
      insertion of the pre-repair code, [types_map_order_at] / [types_map_order_seq] (a requested type that the input
      has at most once gets the same id under every order) and [types_map_order_history] (it did not for a type the
      input has twice -- D11 -- and does now).
   5. the inventory obligation: the hand-written classification of Model/HashIterSites.v lists exactly the
      iteration sites / hash-typed declarations / other sources regenerated from /repo/src; none is order-dependent.
   6. checker soundness. *)
From Coq Require Import List Arith NArith Bool Lia Permutation Sorted.
Import ListNotations.
From Orca Require Import Util Flat Lowering Types CheckTypes TypesProofs HashOrder CheckDeterm.
From Orca Require Reindex ReidxProofs.
From Orca Require Import Gen.GenHashIter Model.HashIterSites.

(* ------------------------------------------------------------------------------------------ *)
(* 1. the inner map of resolve_on_end *)

Lemma ron_modes_commute a b f : w_after a (w_before b f) = w_before b (w_after a f).
Proof. reflexivity. Qed.

Lemma resolve_entry_comm e1 e2 w :
  fst e1 <> fst e2 -> resolve_entry e1 (resolve_entry e2 w) = resolve_entry e2 (resolve_entry e1 w).
Proof.
  destruct e1 as [m1 p1], e2 as [m2 p2]. unfold resolve_entry. cbn [fst snd].
  destruct m1, m2; intros H; try (exfalso; apply H; reflexivity); reflexivity.
Qed.

(* entries with the same mode do NOT commute (they append to the same list) -- the keys of a map are distinct *)
Theorem ron_entries_permutation es es' :
  Permutation es es' -> NoDup (map fst es) -> forall w, resolve_entries es w = resolve_entries es' w.
Proof.
  unfold resolve_entries. induction 1 as [|x l l' HP IH|x y l|l l' l'' HP1 IH1 HP2 IH2]; intros ND w.
  - reflexivity.
  - cbn [fold_left]. apply IH. cbn [map] in ND. inversion ND; assumption.
  - cbn [fold_left]. f_equal. apply resolve_entry_comm.
    cbn [map] in ND. inversion ND as [|? ? Hnin _]; subst. intros E. apply Hnin. left. exact E.
  - rewrite IH1 by exact ND. apply IH2.
    apply (Permutation_NoDup (l := map fst l)); [apply Permutation_map; exact HP1|exact ND].
Qed.

Lemma entries_in_keys ord p : map fst (entries_in ord p) = ord.
Proof. unfold entries_in. rewrite map_map. cbn [fst]. apply map_id. Qed.

Lemma resolve_pend2_is_before_after p w : resolve_pend2 p w = resolve_pend2_ord [IBefore; IAfter] p w.
Proof. reflexivity. Qed.

(* whatever order the HashMap iteration visits the two modes in, the flags are those of Lowering.resolve_pend2 *)
Theorem ron_any_order ord p w :
  Permutation ord [IBefore; IAfter] -> resolve_pend2_ord ord p w = resolve_pend2 p w.
Proof.
  intros HP. rewrite resolve_pend2_is_before_after. unfold resolve_pend2_ord.
  apply ron_entries_permutation.
  - unfold entries_in. apply Permutation_map. exact HP.
  - rewrite entries_in_keys. apply (Permutation_NoDup (l := [IBefore; IAfter])); [symmetry; exact HP|].
    repeat constructor; cbn; intuition discriminate.
Qed.

Corollary ron_two_orders p w :
  resolve_pend2_ord [IAfter; IBefore] p w = resolve_pend2_ord [IBefore; IAfter] p w.
Proof. rewrite !ron_any_order; [reflexivity|apply Permutation_refl|apply perm_swap]. Qed.

(* a mode that is absent from the map: Lowering models it as the empty pend, which adds nothing *)
Lemma absent_mode_adds_nothing m w : resolve_entry (m, pend0) w = w.
Proof.
  destruct w. destruct m; unfold resolve_entry, w_before, w_after, bodies; cbn; rewrite app_nil_r; reflexivity.
Qed.
Corollary ron_one_key_before p w : pa p = pend0 -> resolve_pend2_ord [IBefore] p w = resolve_pend2 p w.
Proof.
  intros H. rewrite resolve_pend2_is_before_after. unfold resolve_pend2_ord, entries_in, resolve_entries.
  cbn [map fold_left sel]. rewrite H, absent_mode_adds_nothing. reflexivity.
Qed.
Corollary ron_one_key_after p w : pb p = pend0 -> resolve_pend2_ord [IAfter] p w = resolve_pend2 p w.
Proof.
  intros H. rewrite resolve_pend2_is_before_after. unfold resolve_pend2_ord, entries_in, resolve_entries.
  cbn [map fold_left sel]. rewrite H, absent_mode_adds_nothing. reflexivity.
Qed.

(* ------------------------------------------------------------------------------------------ *)
(* 2. resolve_on_else_or_end *)

Lemma roe_fold bs : forall acc,
  fold_left (fun l b => inner_insert IBefore b l) bs [(IBefore, mkPend [] acc)] = [(IBefore, mkPend [] (acc ++ bs))].
Proof.
  induction bs as [|b bs IH]; intros acc; cbn [fold_left].
  - rewrite app_nil_r. reflexivity.
  - cbn [inner_insert imode_eqb]. unfold add_not. cbn [p_flagged p_not]. rewrite IH, <- app_assoc. reflexivity.
Qed.
Lemma roe_map_shape bs : roe_map bs = match bs with [] => [] | _ => [(IBefore, mkPend [] bs)] end.
Proof.
  unfold roe_map. destruct bs as [|b bs]; [reflexivity|].
  cbn [fold_left inner_insert]. rewrite roe_fold. reflexivity.
Qed.

Theorem roe_single_key bs :
  (forall e, In e (roe_map bs) -> fst e = IBefore)
  /\ (length (roe_map bs) <= 1)%nat
  /\ (forall es, Permutation (roe_map bs) es -> es = roe_map bs)
  /\ (forall k st w, bs <> [] -> ron_get k (r_roe st) = Some (mkPend2 (mkPend [] bs) pend0) ->
        resolve_entries (roe_map bs) w = snd (resolve_roe k st w)).
Proof.
  rewrite roe_map_shape. destruct bs as [|b bs].
  - repeat split.
    + intros e [].
    + cbn. lia.
    + intros es H. apply Permutation_nil in H. exact H.
    + intros k st w H. congruence.
  - repeat split.
    + intros e [<-|[]]. reflexivity.
    + cbn. lia.
    + intros es H. apply Permutation_length_1_inv in H. exact H.
    + intros k st w _ H. unfold resolve_roe. rewrite H. cbn [snd].
      rewrite <- (ron_one_key_before (mkPend2 (mkPend [] (b :: bs)) pend0) w eq_refl). reflexivity.
Qed.

(* ------------------------------------------------------------------------------------------ *)
(* 3. the id maps (func / global / memory mapping): looked up, never iterated *)

Lemma lookup_perm : forall m m', Permutation m m' -> NoDup (map fst m) ->
  forall k, Reindex.lookup m k = Reindex.lookup m' k.
Proof.
  induction 1 as [|[a v] l l' HP IH|[a v] [b u] l|l l' l'' HP1 IH1 HP2 IH2]; intros ND k.
  - reflexivity.
  - cbn [Reindex.lookup]. destruct (N.eqb k a); [reflexivity|]. apply IH. cbn [map] in ND. inversion ND; assumption.
  - cbn [Reindex.lookup]. destruct (N.eqb k b) eqn:Eb, (N.eqb k a) eqn:Ea; try reflexivity.
    exfalso. apply N.eqb_eq in Eb. apply N.eqb_eq in Ea. subst a b.
    cbn [map fst] in ND. inversion ND as [|? ? Hnin _]; subst. apply Hnin. left. reflexivity.
  - rewrite IH1 by exact ND. apply IH2.
    apply (Permutation_NoDup (l := map fst l)); [apply Permutation_map; exact HP1|exact ND].
Qed.

Lemma filter_keys_sub (p : N * N -> bool) : forall acc k, In k (map fst (filter p acc)) -> In k (map fst acc).
Proof.
  induction acc as [|x acc IH]; intros k H; [exact H|].
  cbn [filter] in H. destruct (p x); cbn [map] in *; [destruct H as [H|H]; [left; exact H|right; apply IH; exact H]|right; apply IH; exact H].
Qed.
Lemma filter_keys_nodup (p : N * N -> bool) : forall acc, NoDup (map fst acc) -> NoDup (map fst (filter p acc)).
Proof.
  induction acc as [|x acc IH]; intros H; [exact H|].
  cbn [map] in H. inversion H as [|? ? Hnin Hnd]; subst. cbn [filter]. destruct (p x); [|apply IH; exact Hnd].
  cbn [map]. constructor; [|apply IH; exact Hnd]. intros Hin. apply Hnin. apply (filter_keys_sub p). exact Hin.
Qed.
Lemma mapping_from_nodup : forall l pos acc, NoDup (map fst acc) -> NoDup (map fst (Reindex.mapping_from pos l acc)).
Proof.
  induction l as [|i l IH]; intros pos acc H; [exact H|].
  cbn [Reindex.mapping_from]. apply IH. cbn [map fst]. constructor; [|apply filter_keys_nodup; exact H].
  intros Hin. apply in_map_iff in Hin. destruct Hin as ([k v] & Hk & Hf). cbn [fst] in Hk. subst k.
  apply filter_In in Hf. destruct Hf as [_ Hf]. cbn [fst] in Hf. rewrite N.eqb_refl in Hf. discriminate.
Qed.
Lemma mapping_keys_nodup l : NoDup (map fst (Reindex.mapping l)).
Proof. apply mapping_from_nodup. constructor. Qed.

(* `mapping.get(&id)` is a function of the item vector alone: whatever internal arrangement [m'] the HashMap
   built by get_mapping_generic has (any permutation of the association list), every lookup answers the same *)
Theorem mapping_lookup_order_free l m' :
  Permutation (Reindex.mapping l) m' -> forall k, Reindex.lookup m' k = Reindex.lookup (Reindex.mapping l) k.
Proof. intros HP k. symmetry. apply lookup_perm; [exact HP|apply mapping_keys_nodup]. Qed.

(* ------------------------------------------------------------------------------------------ *)
(* 4. types_map -- first the facts about an arbitrary (unsorted) insertion order, which is what the code did before the
   repair of D11; the repaired code is 4b *)

(* every entry of the dedup map names an id that was visited and holds that type *)
Definition map_from (types : list ctype) (ids : list N) (m : list (ctype * N)) : Prop :=
  forall t i, In (t, i) m -> In i ids /\ nth_error types (N.to_nat i) = Some t.

Lemma build_fold_from types : forall order seen m,
  map_from types seen m -> map_from types (seen ++ order) (fold_left (build_step types) order m).
Proof.
  induction order as [|id order IH]; intros seen m H.
  - rewrite app_nil_r. exact H.
  - cbn [fold_left]. replace (seen ++ id :: order) with ((seen ++ [id]) ++ order) by (rewrite <- app_assoc; reflexivity).
    apply IH. unfold build_step. destruct (nth_error types (N.to_nat id)) as [ty|] eqn:E.
    + intros t i Hin. destruct (insert_map_In _ _ _ _ _ Hin) as [H1|[-> ->]].
      * destruct (H t i H1) as [Ha Hb]. split; [apply in_or_app; left; exact Ha|exact Hb].
      * split; [apply in_or_app; right; left; reflexivity|exact E].
    + intros t i Hin. destruct (H t i Hin) as [Ha Hb]. split; [apply in_or_app; left; exact Ha|exact Hb].
Qed.
Lemma build_map_from types order : map_from types order (build_map types order).
Proof. rewrite build_map_fold. apply (build_fold_from types order [] []). intros t i []. Qed.

(* [t] occurs at most once in the type section *)
Definition at_most_once (t : ctype) (types : list ctype) : Prop :=
  forall i j, nth_error types i = Some t -> nth_error types j = Some t -> i = j.
(* no two structurally equal types *)
Definition no_equal_types (types : list ctype) : Prop := forall t, at_most_once t types.
Definition same_visits (o1 o2 : list N) : Prop := forall id, In id o1 <-> In id o2.

Lemma nodup_no_equal_types types : NoDup types -> no_equal_types types.
Proof.
  intros ND t i j Hi Hj. apply (proj1 (NoDup_nth_error types) ND).
  - apply nth_error_Some. rewrite Hi. discriminate.
  - rewrite Hi, Hj. reflexivity.
Qed.

Lemma lookup_build_some types order t i :
  lookup_map t (build_map types order) = Some i -> In i order /\ nth_error types (N.to_nat i) = Some t.
Proof. intros H. apply (build_map_from types order). apply lookup_In. exact H. Qed.
Lemma lookup_build_covers types order t i :
  In i order -> nth_error types (N.to_nat i) = Some t -> lookup_map t (build_map types order) <> None.
Proof. intros Hin Hn. rewrite build_map_fold. apply (build_fold_covers types t i Hn). exact Hin. Qed.

(* the exact boundary: a type the input has at most once is answered identically under any two iteration orders
   that visit the same ids (every HashMap iteration visits every key once) *)
Theorem types_map_order_at types o1 o2 t :
  same_visits o1 o2 -> at_most_once t types ->
  lookup_map t (build_map types o1) = lookup_map t (build_map types o2).
Proof.
  intros HS HU.
  destruct (lookup_map t (build_map types o1)) as [i|] eqn:E1, (lookup_map t (build_map types o2)) as [j|] eqn:E2.
  - destruct (lookup_build_some _ _ _ _ E1) as [_ Hi], (lookup_build_some _ _ _ _ E2) as [_ Hj].
    f_equal. apply N2Nat.inj. apply HU; assumption.
  - exfalso. destruct (lookup_build_some _ _ _ _ E1) as [Hin Hi].
    apply (lookup_build_covers types o2 t i); [apply HS; exact Hin|exact Hi|exact E2].
  - exfalso. destruct (lookup_build_some _ _ _ _ E2) as [Hin Hj].
    apply (lookup_build_covers types o1 t j); [apply HS; exact Hin|exact Hj|exact E1].
  - reflexivity.
Qed.

(* states that differ only in the arrangement of the dedup map, and agree on the types in [P] *)
Definition st_equiv_on (P : ctype -> Prop) (s1 s2 : tstate) : Prop :=
  ts_groups s1 = ts_groups s2 /\ ts_types s1 = ts_types s2
  /\ forall t, P t -> lookup_map t (ts_map s1) = lookup_map t (ts_map s2).

Lemma add_type_equiv P ty s1 s2 :
  st_equiv_on P s1 s2 -> P ty ->
  fst (add_type ty s1) = fst (add_type ty s2) /\ st_equiv_on P (snd (add_type ty s1)) (snd (add_type ty s2)).
Proof.
  intros (Hg & Ht & Hm) HP. unfold add_type. rewrite <- (Hm ty HP).
  destruct (lookup_map ty (ts_map s1)) as [id|] eqn:E.
  - cbn [fst snd]. split; [reflexivity|]. split; [exact Hg|]. split; [exact Ht|exact Hm].
  - cbn [fst snd]. rewrite Ht, Hg. split; [reflexivity|].
    split; [reflexivity|]. split; [reflexivity|]. cbn [ts_map]. intros t HPt.
    specialize (Hm t HPt).
    destruct (lookup_map t (ts_map s1)) as [k|] eqn:E1.
    + rewrite (lookup_app_some _ _ _ _ E1). symmetry in Hm. rewrite (lookup_app_some _ _ _ _ Hm). reflexivity.
    + rewrite (lookup_app_none _ _ _ E1). symmetry in Hm. rewrite (lookup_app_none _ _ _ Hm). reflexivity.
Qed.

Lemma api_run_equiv P : forall ops s1 s2 acc,
  st_equiv_on P s1 s2 -> (forall op, In op ops -> P (api_type (fst op) (snd op))) ->
  fst (fold_left api_step ops (acc, s1)) = fst (fold_left api_step ops (acc, s2))
  /\ st_equiv_on P (snd (fold_left api_step ops (acc, s1))) (snd (fold_left api_step ops (acc, s2))).
Proof.
  induction ops as [|op ops IH]; intros s1 s2 acc He HP.
  - cbn [fold_left fst snd]. split; [reflexivity|exact He].
  - cbn [fold_left].
    destruct (add_type_equiv P (api_type (fst op) (snd op)) s1 s2 He (HP op (or_introl eq_refl))) as [Hid Hst].
    assert (E : forall s, api_step (acc, s) op
                          = (acc ++ [fst (add_type (api_type (fst op) (snd op)) s)], snd (add_type (api_type (fst op) (snd op)) s))).
    { intros s. unfold api_step. cbn [fst snd]. destruct (add_type (api_type (fst op) (snd op)) s). reflexivity. }
    rewrite (E s1), (E s2), Hid.
    apply IH; [exact Hst|]. intros op' Hin. apply HP. right. exact Hin.
Qed.

(* any sequence of type additions none of which asks for a type the input has twice: same returned ids, same
   emitted type section, under any two iteration orders *)
Theorem types_map_order_seq (base : tgroups) o1 o2 ops :
  same_visits o1 o2 ->
  (forall op, In op ops -> at_most_once (api_type (fst op) (snd op)) (flat base)) ->
  fst (api_run ops (parse_types base o1)) = fst (api_run ops (parse_types base o2))
  /\ emit_types (snd (api_run ops (parse_types base o1))) = emit_types (snd (api_run ops (parse_types base o2))).
Proof.
  intros HS HU. unfold api_run.
  assert (He : st_equiv_on (fun t => at_most_once t (flat base)) (parse_types base o1) (parse_types base o2)).
  { unfold parse_types. rewrite parse_groups_spec. cbn [app length]. split; [reflexivity|]. split; [reflexivity|].
    cbn [ts_map]. intros t Ht. apply types_map_order_at; assumption. }
  destruct (api_run_equiv _ ops _ _ [] He HU) as [Hids (Hg & Ht & _)].
  split; [exact Hids|]. unfold emit_types. rewrite Hg, Ht. reflexivity.
Qed.

(* before the repair: no two structurally equal types in the input -> the two dedup maps are extensionally the same
   lookup function (superseded by [types_map_order] below, kept as the general fact about unsorted insertion) *)
Theorem types_map_unsorted_order types o1 o2 :
  same_visits o1 o2 -> no_equal_types types ->
  forall t, lookup_map t (build_map types o1) = lookup_map t (build_map types o2).
Proof. intros HS HN t. apply types_map_order_at; [exact HS|apply HN]. Qed.

(* ------------------------------------------------------------------------------------------ *)
(* 4b. the repaired ModuleTypes::new: keys collected in hash order [o], sorted, inserted in ascending order *)

Lemma ins_id_perm x : forall l, Permutation (x :: l) (ins_id x l).
Proof.
  induction l as [|y l IH]; cbn [ins_id]; [apply Permutation_refl|].
  destruct (N.leb x y); [apply Permutation_refl|].
  apply (perm_trans (perm_swap y x l)). apply perm_skip. exact IH.
Qed.
Lemma sort_ids_perm : forall l, Permutation l (sort_ids l).
Proof.
  induction l as [|x l IH]; [apply perm_nil|]. unfold sort_ids. cbn [fold_right].
  apply (perm_trans (l' := x :: sort_ids l)); [apply perm_skip; exact IH|apply ins_id_perm].
Qed.
Lemma ins_id_sorted x : forall l, StronglySorted N.le l -> StronglySorted N.le (ins_id x l).
Proof.
  induction l as [|y l IH]; intros H; cbn [ins_id].
  - constructor; constructor.
  - apply StronglySorted_inv in H. destruct H as [Hs Hf].
    destruct (N.leb x y) eqn:E.
    + apply N.leb_le in E. constructor; [constructor; assumption|].
      constructor; [exact E|]. apply (Forall_impl (P := N.le y)); [|exact Hf]. intros z Hz. lia.
    + apply N.leb_gt in E. constructor; [apply IH; exact Hs|].
      apply (Permutation_Forall (ins_id_perm x l)). constructor; [lia|exact Hf].
Qed.
Lemma sort_ids_sorted : forall l, StronglySorted N.le (sort_ids l).
Proof.
  induction l as [|x l IH]; [constructor|]. unfold sort_ids. cbn [fold_right]. apply ins_id_sorted. exact IH.
Qed.
Lemma sorted_perm_unique : forall l l',
  StronglySorted N.le l -> StronglySorted N.le l' -> Permutation l l' -> l = l'.
Proof.
  induction l as [|a t IH]; intros l' Hs Hs' HP.
  - apply Permutation_nil in HP. symmetry. exact HP.
  - destruct l' as [|b t']; [apply Permutation_sym, Permutation_nil in HP; discriminate|].
    apply StronglySorted_inv in Hs. destruct Hs as [Hst Hfa].
    apply StronglySorted_inv in Hs'. destruct Hs' as [Hst' Hfb].
    rewrite Forall_forall in Hfa, Hfb.
    assert (Hba : (b <= a)%N).
    { assert (Hin : In a (b :: t')) by (apply (Permutation_in _ HP); left; reflexivity).
      destruct Hin as [->|Hin]; [lia|apply Hfb; exact Hin]. }
    assert (Hab : (a <= b)%N).
    { assert (Hin : In b (a :: t)) by (apply (Permutation_in _ (Permutation_sym HP)); left; reflexivity).
      destruct Hin as [->|Hin]; [lia|apply Hfa; exact Hin]. }
    assert (E : a = b) by lia. subst b. f_equal. apply IH; [exact Hst|exact Hst'|].
    apply (Permutation_cons_inv HP).
Qed.
Lemma ids_from_ge : forall n first x, In x (Types.ids_from first n) -> (first <= x)%N.
Proof.
  induction n as [|n IH]; intros first x H; [destruct H|].
  cbn [Types.ids_from] in H. destruct H as [<-|H]; [lia|]. specialize (IH _ _ H). lia.
Qed.
Lemma ids_from_sorted : forall n first, StronglySorted N.le (Types.ids_from first n).
Proof.
  induction n as [|n IH]; intros first; cbn [Types.ids_from]; constructor; [apply IH|].
  apply Forall_forall. intros x Hx. apply ids_from_ge in Hx. lia.
Qed.

(* `types.keys()` visits the ids 0 .. n-1 in some order [o]; after `ids.sort_unstable()` the list is the ascending one,
   whatever [o] was *)
Theorem sort_ids_canonical n o : Permutation o (asc_ids n) -> sort_ids o = asc_ids n.
Proof.
  intros HP. apply sorted_perm_unique; [apply sort_ids_sorted|apply ids_from_sorted|].
  apply (perm_trans (Permutation_sym (sort_ids_perm o)) HP).
Qed.

(* UNCONDITIONAL (no hypothesis on structurally equal types): under any two visiting orders of the keys the repaired
   ModuleTypes::new builds the same dedup map -- the one of the ascending order --, so every add_type returns the same
   id and leaves the same state, and so does every sequence of additions *)
Theorem types_map_order types o1 o2 :
  Permutation o1 (asc_ids (length types)) -> Permutation o2 (asc_ids (length types)) ->
  build_map_sorted types o1 = build_map_sorted types o2
  /\ build_map_sorted types o1 = build_map types (asc_ids (length types))
  /\ (forall groups ty, add_type ty (mkTS groups types (build_map_sorted types o1))
                        = add_type ty (mkTS groups types (build_map_sorted types o2)))
  /\ (forall groups ops, api_run ops (mkTS groups types (build_map_sorted types o1))
                         = api_run ops (mkTS groups types (build_map_sorted types o2))).
Proof.
  intros H1 H2. unfold build_map_sorted. rewrite (sort_ids_canonical _ _ H1), (sort_ids_canonical _ _ H2).
  repeat split; reflexivity.
Qed.

(* history of D11 on the base of Props/C13.v's C13_ex_hash_order (`(i32) -> ()` at ids 0 and 2): inserting in the
   visiting order itself, two orders answered the same request with different ids; with the keys sorted first both
   answer with the highest id *)
Definition d11_F (ps rs : list N) := mkT 0 ps rs None true false.
Definition d11_base : tgroups :=
  [(false, [d11_F [0%N] []]); (true, [mkT 2 [0%N; 20%N] [1%N; 0%N] None false false; d11_F [0%N] []]); (true, []);
   (false, [mkT 2 [0%N; 20%N] [1%N; 0%N] (Some 1%N) false false])].
Theorem types_map_order_history :
  exists (base : tgroups) o1 o2 ty,
    Permutation o1 (asc_ids (length (flat base))) /\ Permutation o2 (asc_ids (length (flat base)))
    /\ ~ at_most_once ty (flat base)
    (* before the repair *)
    /\ fst (add_type ty (parse_types base o1)) <> fst (add_type ty (parse_types base o2))
    (* after the repair *)
    /\ fst (add_type ty (parse_types base (sort_ids o1))) = 2%N
    /\ fst (add_type ty (parse_types base (sort_ids o2))) = 2%N
    /\ parse_types base (sort_ids o1) = parse_types_asc base.
Proof.
  exists d11_base, [0; 1; 2; 3]%N, [3; 2; 1; 0]%N, (d11_F [0%N] []).
  split; [apply Permutation_refl|]. split; [apply Permutation_sym; apply (Permutation_rev [0; 1; 2; 3]%N)|].
  split; [intros H; specialize (H 0%nat 2%nat eq_refl eq_refl); discriminate|].
  split; [vm_compute; discriminate|]. repeat split; vm_compute; reflexivity.
Qed.

(* ------------------------------------------------------------------------------------------ *)
(* 5. the inventory obligation (vm_compute over the regenerated Gen/GenHashIter.v) *)

Theorem hashiter_sites_covered : map fst hash_site_status = gen_hash_sites.
Proof. vm_compute. reflexivity. Qed.
Theorem hashiter_decls_covered : hash_decls_reviewed = gen_hash_decls.
Proof. vm_compute. reflexivity. Qed.
Theorem hashiter_no_other_source : gen_other_sources = other_sources_reviewed /\ other_sources_reviewed = [].
Proof. split; vm_compute; reflexivity. Qed.
(* no iteration is order-dependent any more (before the repair of D11: [11]) *)
Theorem hashiter_no_order_dependent : order_dependent_classes = [].
Proof. vm_compute. reflexivity. Qed.
Corollary hashiter_site_has_status : forall s, In s gen_hash_sites <-> exists st, In (s, st) hash_site_status.
Proof.
  intro s. rewrite <- hashiter_sites_covered. rewrite in_map_iff. split.
  - intros ([s' st] & E & H). cbn [fst] in E. subst. exists st. exact H.
  - intros (st & H). exists (s, st). split; [reflexivity|exact H].
Qed.

(* ------------------------------------------------------------------------------------------ *)
(* 5b. history: the former class predicate (still reported by the harness as a statistic) is the hypothesis of
   [types_map_order_seq], on tokens: outside the former D11 class every requested type occurs at most once in the input's
   type section *)
Local Open Scope N_scope.
Lemma count_tok_pos t : forall l i, nth_error l i = Some t -> 1 <= count_tok t l.
Proof.
  induction l as [|x l IH]; intros i H; [destruct i; discriminate|].
  cbn [count_tok]. destruct i as [|i]; cbn [nth_error] in H.
  - inversion H; subst. rewrite N.eqb_refl. lia.
  - specialize (IH i H). destruct (N.eqb x t); lia.
Qed.
Lemma count_tok_two t : forall l i j, i <> j -> nth_error l i = Some t -> nth_error l j = Some t -> 2 <= count_tok t l.
Proof.
  induction l as [|x l IH]; intros i j Hne Hi Hj; [destruct i; discriminate|].
  cbn [count_tok]. destruct i as [|i], j as [|j]; cbn [nth_error] in Hi, Hj.
  - contradiction.
  - inversion Hi; subst. rewrite N.eqb_refl. pose proof (count_tok_pos t l j Hj). lia.
  - inversion Hj; subst. rewrite N.eqb_refl. pose proof (count_tok_pos t l i Hi). lia.
  - assert (Hne' : i <> j) by (intros E; apply Hne; f_equal; exact E).
    specialize (IH i j Hne' Hi Hj). destruct (N.eqb x t); lia.
Qed.
Theorem outside_D11_at_most_once base added :
  d11_pred base added = false ->
  forall t, In t added -> forall i j, nth_error base i = Some t -> nth_error base j = Some t -> i = j.
Proof.
  unfold d11_pred. intros H t Ht i j Hi Hj.
  destruct (PeanoNat.Nat.eq_dec i j) as [E|Hne]; [exact E|exfalso].
  pose proof (count_tok_two t base i j Hne Hi Hj) as H2.
  assert (Hex : existsb (fun t0 => 2 <=? count_tok t0 base) added = true).
  { apply existsb_exists. exists t. split; [exact Ht|]. apply N.leb_le. exact H2. }
  rewrite Hex in H. discriminate.
Qed.
Local Close Scope N_scope.

(* ------------------------------------------------------------------------------------------ *)
(* 6. the checker *)

Lemma all_equal_spec l : all_equal l = true -> forall a b, In a l -> In b l -> a = b.
Proof.
  destruct l as [|x r]; [intros _ a b []|]. cbn [all_equal]. rewrite forallb_forall. intros H.
  assert (E : forall a, In a (x :: r) -> a = x).
  { intros a [<-|Ha]; [reflexivity|]. specialize (H a Ha). unfold obs_eqb in H. apply andb_prop in H. destruct H as [H1 H2].
    apply N.eqb_eq in H1. apply N.eqb_eq in H2. destruct a, x. cbn [fst snd] in *. subst. reflexivity. }
  intros a b Ha Hb. rewrite (E a Ha), (E b Hb). reflexivity.
Qed.

(* agreement with the (constant) prediction = every pair of processes produced the same status and the same hash *)
Theorem checker04_sound c :
  agree04 c = true -> holds04 c = true /\ forall a b, In a (dc_obs c) -> In b (dc_obs c) -> a = b.
Proof. unfold agree04, predicted_deterministic. intros Ha. split; [exact Ha|]. apply all_equal_spec. exact Ha. Qed.
(* every failing case is a mismatch: there is no known class that could excuse it *)
Theorem no_unlisted_failure_inside_model c : holds04 c = false -> agree04 c = false /\ snd (verdict04 c) = [].
Proof. unfold agree04, predicted_deterministic, verdict04. intros Hh. split; [exact Hh|reflexivity]. Qed.
