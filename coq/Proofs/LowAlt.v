(* C21: block-alternate.  For every body and every plan over before / after / alternate / block-alternate
   (replacement or removal; any nesting; several per site), the mirror of the injection API + resolve_special_
   instrumentation + emission equals [dspec]: a single left-to-right pass with a depth counter in which
     - an opener (or else) carrying a block-alternate, met outside a removed region, is replaced by its
       replacement code and opens a removed region that ends at the matching end (for else: just before it);
     - inside a removed region nothing of the original body is emitted;
     - every other instruction is rendered exactly as in C15. *)
From Coq Require Import List Arith NArith ZArith Bool Lia.
Import ListNotations.
From Orca Require Import Util Flat Lowering CheckLow LowPlain.

Definition alt_mode (m : mode) : bool :=
  match m with MBefore | MAfter | MAlternate | MBlockAlt => true | _ => false end.
Definition is_balt (m : mode) : bool := match m with MBlockAlt => true | _ => false end.

Definition w_balt_empty (f : flags) := mkFlags (f_before f) (f_after f) (f_alt f) (f_sa f) (f_be f) (f_bx f) (Some []).
Definition w_balt_inject (x : list fop) (f : flags) :=
  mkFlags (f_before f) (f_after f) (f_alt f) (f_sa f) (f_be f) (f_bx f)
          (Some (match f_balt f with None => x | Some a => a ++ x end)).

Definition stepA (e : nat * mode * list fop) (i : nat) (f : flags) : flags :=
  let '(j, m, code) := e in
  if Nat.eqb i j then
    match m with
    | MBefore => w_before code f
    | MAfter => w_after code f
    | MAlternate => match code with [] => w_alt_empty f | _ => w_alt_inject code f end
    | MBlockAlt => match code with [] => w_balt_empty f | _ => w_balt_inject code f end
    | _ => f
    end
  else f.

Lemma add_all_balt' op : forall xs f sp, is_block_style op = true ->
  add_all op MBlockAlt xs f sp = Some (match xs with [] => f | _ => w_balt_inject xs f end, match xs with [] => sp | _ => true end).
Proof.
  induction xs as [|x xs IH]; intros f sp Hb; [reflexivity|].
  cbn [add_all add_instr]. rewrite Hb. rewrite IH by exact Hb.
  destruct xs as [|y xs'].
  - rewrite orb_true_r. unfold w_balt_inject. destruct (f_balt f); reflexivity.
  - unfold w_balt_inject; cbn [f_before f_after f_alt f_sa f_be f_bx f_balt].
    destruct (f_balt f); cbn; rewrite <- ?app_assoc; reflexivity.
Qed.


Lemma set_flags_from_ops g : forall body k, map fst (set_flags_from k g body) = map fst body.
Proof. induction body as [|[o f] b IH]; intros k; cbn; [reflexivity|]. rewrite IH. reflexivity. Qed.

Lemma apply_plan_stepA ma e plan body sp :
  alt_mode (snd (fst e)) = true -> fst (fst e) < length body ->
  (is_balt (snd (fst e)) = true -> is_block_style (nth (fst (fst e)) (map fst body) FEnd) = true) ->
  apply_plan ma (e :: plan) body sp
  = apply_plan ma plan (set_flags_from 0 (stepA e) body) (sp || is_balt (snd (fst e))).
Proof.
  destruct e as [[j m] code]. cbn [fst snd]. intros Hm Hj Hacc.
  destruct (plain_mode m) eqn:Hpl.
  - (* the plain modes: LowPlain *)
    rewrite apply_plan_step by (cbn [fst snd]; assumption).
    assert (is_balt m = false) by (destruct m; try discriminate; reflexivity).
    rewrite H, orb_false_r. f_equal. apply set_flags_from_ext. intros i f.
    unfold stepA, step_flags. destruct (Nat.eqb i j); [|reflexivity]. destruct m; try discriminate; reflexivity.
  - assert (m = MBlockAlt) by (destruct m; try discriminate; reflexivity). subst m. clear Hm Hpl.
    cbn [is_balt]. rewrite orb_true_r.
    destruct (nth_error body j) as [[op f]|] eqn:E; [|apply nth_error_None in E; lia].
    assert (Hop : is_block_style op = true).
    { specialize (Hacc eq_refl). erewrite (nth_error_nth (map fst body) j FEnd) in Hacc; [exact Hacc|].
      rewrite nth_error_map, E. reflexivity. }
    cbn [apply_plan]. rewrite E.
    assert (K : forall f', upd_nth j (fun _ => Some (op, f')) body
                = Some (set_flags_from 0 (fun i x => if Nat.eqb i j then f' else x) body)).
    { intros f'. apply (upd_nth_set body j 0 op f f' E). }
    assert (EXT : forall F : flags -> flags,
              set_flags_from 0 (fun i x => if Nat.eqb i j then F f else x) body
              = set_flags_from 0 (fun i x => if Nat.eqb i j then F x else x) body).
    { intros F.
      assert (G : forall b k, (forall x, nth_error b (j - k) = Some x -> k <= j -> snd x = f) ->
                  set_flags_from k (fun i x => if Nat.eqb i j then F f else x) b
                  = set_flags_from k (fun i x => if Nat.eqb i j then F x else x) b).
      { induction b as [|[o g] b IHb]; intros k Hk; cbn [set_flags_from]; [reflexivity|].
        rewrite IHb.
        - destruct (Nat.eqb_spec k j); [|reflexivity].
          subst k. specialize (Hk (o, g)). rewrite Nat.sub_diag in Hk. cbn in Hk.
          rewrite (Hk eq_refl (le_n _)). reflexivity.
        - intros x Hx Hle. apply Hk; [|lia].
          replace (j - k) with (S (j - S k)) by lia. exact Hx. }
      apply G. intros x Hx _. rewrite Nat.sub_0_r in Hx. rewrite E in Hx. inversion Hx. reflexivity. }
    destruct code as [|c cs].
    + fold (w_balt_empty f). rewrite K, (EXT w_balt_empty), orb_true_r. reflexivity.
    + rewrite (add_all_balt' op (c :: cs) f false Hop). rewrite K, (EXT (w_balt_inject (c :: cs))), orb_true_r.
      reflexivity.
Qed.

Fixpoint flags_afterA (plan : plan_t) (i : nat) (f : flags) : flags :=
  match plan with
  | [] => f
  | e :: p => flags_afterA p i (stepA e i f)
  end.

Definition plan_ok (ops : list fop) (plan : plan_t) : bool :=
  forallb (fun e => alt_mode (snd (fst e)) && Nat.ltb (fst (fst e)) (length ops)
                    && (negb (is_balt (snd (fst e))) || is_block_style (nth (fst (fst e)) ops FEnd))) plan.

Lemma apply_plan_alt ma : forall plan body sp,
  plan_ok (map fst body) plan = true ->
  apply_plan ma plan body sp
  = Some (set_flags_from 0 (flags_afterA plan) body, sp || existsb (fun e => is_balt (snd (fst e))) plan).
Proof.
  induction plan as [|e plan IH]; intros body sp Hp.
  - cbn. rewrite orb_false_r. f_equal. f_equal.
    assert (G : forall b k, set_flags_from k (fun _ f => f) b = b).
    { induction b as [|[o g] b IHb]; intros k; cbn [set_flags_from]; [reflexivity|]. rewrite IHb. reflexivity. }
    symmetry. apply G.
  - unfold plan_ok in Hp. cbn [forallb] in Hp. apply andb_prop in Hp as [He Hp].
    apply andb_prop in He as [He Hacc]. apply andb_prop in He as [Hm Hr].
    apply Nat.ltb_lt in Hr. rewrite map_length in Hr.
    rewrite apply_plan_stepA; [| exact Hm | exact Hr |].
    2:{ intros Hb. rewrite Hb in Hacc. cbn in Hacc. exact Hacc. }
    rewrite IH.
    + rewrite set_flags_from_compose. cbn [existsb]. rewrite orb_assoc. reflexivity.
    + unfold plan_ok. rewrite set_flags_from_ops. exact Hp.
Qed.

Lemma flags_afterA_closed : forall plan i f,
  forallb (fun e => alt_mode (snd (fst e))) plan = true ->
  flags_afterA plan i f
  = mkFlags (f_before f ++ acc_code plan i MBefore) (f_after f ++ acc_code plan i MAfter)
            (acc_repl plan i MAlternate (f_alt f)) (f_sa f) (f_be f) (f_bx f) (acc_repl plan i MBlockAlt (f_balt f)).
Proof.
  induction plan as [|[[j m] code] plan IH]; intros i f Hp.
  - cbn. rewrite !app_nil_r. destruct f; reflexivity.
  - cbn [forallb fst snd] in Hp. apply andb_prop in Hp as [Hm Hp].
    cbn [flags_afterA acc_code acc_repl]. rewrite IH by assumption.
    unfold stepA. destruct (Nat.eqb i j); cbn [andb].
    + destruct m; try discriminate; cbn [mode_eqb].
      * unfold w_before; cbn [f_before f_after f_alt f_sa f_be f_bx f_balt app]; rewrite <- ?app_assoc; reflexivity.
      * unfold w_after; cbn [f_before f_after f_alt f_sa f_be f_bx f_balt app]; rewrite <- ?app_assoc; reflexivity.
      * destruct code as [|c cs]; cbn; reflexivity.
      * destruct code as [|c cs]; cbn; reflexivity.
    + cbn. reflexivity.
Qed.

(* ------------------------------------------------------------------------------------------ *)
(* the depth-counter specification [dspec] is defined in Check/CheckLow.v *)

(* ------------------------------------------------------------------------------------------ *)
(* simulation of rloop + emit by dspec *)
Definition stack_of (depth : nat) : list nat := rev (seq 0 depth).
Lemma stack_of_S d : stack_of (S d) = d :: stack_of d.
Proof. unfold stack_of. rewrite seq_S, rev_app_distr. reflexivity. Qed.
Lemma stack_of_length d : length (stack_of d) = d.
Proof. unfold stack_of. rewrite rev_length, seq_length. reflexivity. Qed.

Definition inv (st : rstate) (depth : nat) (del : option nat) (retain : bool) : Prop :=
  r_entry st = [] /\ r_exit st = [] /\ r_stack st = stack_of depth /\ r_del st = del /\ r_retain st = retain
  /\ r_roe st = [] /\ r_ron st = [].
(* the pass never allocates a local in this fragment *)
Definition same_loc (st st' : rstate) : Prop := r_loc st' = r_loc st.

Definition flags_of (plan : plan_t) (i : nat) : flags :=
  mkFlags (acc_code plan i MBefore) (acc_code plan i MAfter) (acc_repl plan i MAlternate None) [] [] []
          (acc_repl plan i MBlockAlt None).

Definition emit1_at (last i : nat) (op : fop) (f : flags) : list fop :=
  if negb (has_instr f) then [op]
  else f_before f ++ (match f_alt f with Some a => if last <=? i then [op] else a | None => [op] end)
       ++ (if last <=? i then [] else f_after f).

Lemma emit_from_cons last i op f rest :
  emit_from last i ((op, f) :: rest) = emit1_at last i op f ++ emit_from last (S i) rest.
Proof. reflexivity. Qed.

Lemma flag_stage_plain op f st w :
  f_sa f = [] -> f_be f = [] -> f_bx f = [] -> flag_stage op f st w = (st, w).
Proof.
  intros H1 H2 H3. unfold flag_stage. rewrite H1, H2, H3. cbn [is_nil]. destruct (has_instr f); reflexivity.
Qed.

(* rendering lemmas: what emission does with the flags the pass leaves *)
Lemma emit_rend_nobalt plan last i op f :
  f_before f = acc_code plan i MBefore -> f_after f = acc_code plan i MAfter ->
  f_alt f = acc_repl plan i MAlternate None ->
  emit1_at last i op f = rend plan last i op.
Proof.
  intros HB HA HR. unfold emit1_at, rend, B, A, R.
  destruct (has_instr f) eqn:HI; cbn [negb].
  - rewrite HB, HA, HR. destruct (acc_repl plan i MAlternate None); destruct (last <=? i); reflexivity.
  - unfold has_instr in HI. repeat (apply orb_false_elim in HI; destruct HI as [HI ?]).
    rewrite <- HB, <- HA, <- HR.
    destruct (f_before f); [|discriminate]. destruct (f_after f); [|discriminate]. destruct (f_alt f); [discriminate|].
    cbn. destruct (last <=? i); reflexivity.
Qed.

Lemma emit_rend_del plan last i op f :
  f_before f = acc_code plan i MBefore -> f_after f = acc_code plan i MAfter ->
  emit1_at last i op (w_delete f) = rend_del plan last i op.
Proof.
  intros HB HA. unfold emit1_at, rend_del, B, A.
  assert (HI : has_instr (w_delete f) = true).
  { unfold has_instr, w_delete, w_clear_special, w_clear_balt, w_clear_bx, w_clear_be, w_clear_sa, w_alt_empty. cbn.
    destruct (negb (is_nil (f_before f)) || negb (is_nil (f_after f))); reflexivity. }
  rewrite HI. cbn [negb w_delete w_clear_special w_clear_balt w_clear_bx w_clear_be w_clear_sa w_alt_empty f_before f_alt f_after].
  rewrite HB, HA. destruct (last <=? i); reflexivity.
Qed.

Lemma emit_rend_alt plan last i op f alt :
  f_before f = acc_code plan i MBefore -> f_after f = acc_code plan i MAfter ->
  f_alt f = acc_repl plan i MAlternate None ->
  emit1_at last i op (w_clear_special (if is_nil alt then w_alt_empty f else w_alt_inject alt f)) = rend_alt plan last i op alt.
Proof.
  intros HB HA HR. unfold emit1_at, rend_alt, B, A, R.
  destruct alt as [|a alt']; cbn [is_nil].
  - assert (HI : has_instr (w_clear_special (w_alt_empty f)) = true).
    { unfold has_instr, w_clear_special, w_clear_balt, w_clear_bx, w_clear_be, w_clear_sa, w_alt_empty. cbn.
      destruct (negb (is_nil (f_before f)) || negb (is_nil (f_after f))); reflexivity. }
    rewrite HI. cbn [negb w_clear_special w_clear_balt w_clear_bx w_clear_be w_clear_sa w_alt_empty f_before f_alt f_after].
    rewrite HB, HA. destruct (last <=? i); reflexivity.
  - assert (HI : has_instr (w_clear_special (w_alt_inject (a :: alt') f)) = true).
    { unfold has_instr, w_clear_special, w_clear_balt, w_clear_bx, w_clear_be, w_clear_sa, w_alt_inject. cbn.
      destruct (negb (is_nil (f_before f)) || negb (is_nil (f_after f))); reflexivity. }
    rewrite HI. cbn [negb w_clear_special w_clear_balt w_clear_bx w_clear_be w_clear_sa w_alt_inject f_before f_alt f_after].
    rewrite HB, HA, HR.
    destruct (acc_repl plan i MAlternate None); destruct (last <=? i); reflexivity.
Qed.

Ltac inv_tac Hs :=
  split; [|reflexivity];
  unfold inv, set_del, set_retain, set_stack, top;
  cbn [r_entry r_exit r_stack r_del r_retain r_roe r_ron r_loc hd];
  rewrite ?Hs, ?stack_of_length, ?stack_of_S; cbn [hd];
  repeat split; auto.

Lemma sim_alt plan last : forall ops i st depth del retain,
  inv st depth del retain ->
  emit_from last i (fst (rloop last i (map (fun x => (snd x, flags_of plan (fst x))) (index_from i ops)) st))
  = dspec plan last i depth del retain ops
  /\ r_loc (snd (rloop last i (map (fun x => (snd x, flags_of plan (fst x))) (index_from i ops)) st)) = r_loc st.
Proof.
  induction ops as [|op ops IH]; intros i st depth del retain Hinv; [split; reflexivity|].
  destruct Hinv as (He & Hx & Hs & Hd & Hr & Hroe & Hron).
  cbn [index_from map fst snd rloop].
  set (F := flags_of plan i).
  assert (FB : f_before F = acc_code plan i MBefore) by reflexivity.
  assert (FA : f_after F = acc_code plan i MAfter) by reflexivity.
  assert (FR : f_alt F = acc_repl plan i MAlternate None) by reflexivity.
  assert (F1 : f_sa F = []) by reflexivity. assert (F2 : f_be F = []) by reflexivity. assert (F3 : f_bx F = []) by reflexivity.
  assert (FBA : f_balt F = acc_repl plan i MBlockAlt None) by reflexivity.
  (* shape of one step: rstep returns (st1, w) with inv st1 .. and emit1_at of w as dspec says *)
  assert (STEP : exists st1 w depth1 del1 retain1 out,
            rstep last i op F st = (st1, w) /\ (inv st1 depth1 del1 retain1 /\ r_loc st1 = r_loc st) /\ emit1_at last i op w = out /\
            dspec plan last i depth del retain (op :: ops) = out ++ dspec plan last (S i) depth1 del1 retain1 ops).
  { unfold rstep. rewrite He. cbn [is_nil negb andb]. rewrite Hx. cbn [is_nil].
    destruct op; cbn -[flag_stage dspec].
    (* all operators other than the five structural ones *)
    6-19: rewrite Hd; destruct del as [dd|];
      [ eexists _, _, depth, (Some dd), retain, _; split; [reflexivity|]; split; [inv_tac Hs|];
        split; [apply (emit_rend_del plan); assumption|]; reflexivity
      | rewrite flag_stage_plain by assumption;
        eexists _, _, depth, None, retain, _; split; [reflexivity|]; split; [inv_tac Hs|];
        split; [reflexivity|]; cbn [dspec]; f_equal; symmetry; apply (emit_rend_nobalt plan); assumption ].
    (* FBlock, FLoop, FIf *)
    1-3: (unfold block_alt_case; cbn [r_del set_stack r_stack]; rewrite FBA, Hd;
          destruct (acc_repl plan i MBlockAlt None) as [alt|] eqn:EBA; destruct del as [dd|];
          [ eexists _, _, (S depth), (Some dd), retain, _; split; [reflexivity|]; split;
              [inv_tac Hs|];
              split; [apply (emit_rend_del plan); assumption|]; cbn [dspec]; unfold BA; rewrite ?EBA; reflexivity
          | eexists _, _, (S depth), (Some depth), false, _; split; [reflexivity|]; split;
              [inv_tac Hs|];
              split; [apply (emit_rend_alt plan); assumption|]; cbn [dspec]; unfold BA; rewrite ?EBA; reflexivity
          | eexists _, _, (S depth), (Some dd), retain, _; split; [reflexivity|]; split;
              [inv_tac Hs|];
              split; [apply (emit_rend_del plan); assumption|]; cbn [dspec]; unfold BA; rewrite ?EBA; reflexivity
          | rewrite flag_stage_plain by assumption;
            eexists _, _, (S depth), None, retain, _; split; [reflexivity|]; split;
              [inv_tac Hs|];
              split; [apply (emit_rend_nobalt plan); assumption|]; cbn [dspec]; unfold BA; rewrite ?EBA; reflexivity ]).
    - (* FElse *)
      assert (ERoe : forall w, match r_stack st with [] => (st, w) | k :: _ => resolve_roe k st w end = (st, w)).
      { intros w. destruct (r_stack st); [reflexivity|]. unfold resolve_roe. rewrite Hroe. reflexivity. }
      rewrite ERoe. unfold block_alt_case. cbn [r_del]. rewrite FBA, Hd.
      destruct (acc_repl plan i MBlockAlt None) as [alt|] eqn:EBA; destruct del as [dd|].
      + eexists _, _, depth, (Some dd), retain, _. split; [reflexivity|]. split; [inv_tac Hs|].
        split; [apply (emit_rend_del plan); assumption|]. cbn [dspec]. unfold BA. rewrite ?EBA. reflexivity.
      + eexists _, _, depth, (Some (depth - 1)), true, _. split; [reflexivity|]. split.
        { split; [|reflexivity]. unfold inv, set_del, set_retain, set_stack, top. cbn [r_entry r_exit r_stack r_del r_retain r_roe r_ron].
          rewrite Hs. repeat split; auto.
          destruct depth as [|d]; [reflexivity|]. rewrite stack_of_S. cbn [hd]. f_equal. lia. }
        split; [apply (emit_rend_alt plan); assumption|]. cbn [dspec]. unfold BA. rewrite ?EBA. reflexivity.
      + eexists _, _, depth, (Some dd), retain, _. split; [reflexivity|]. split; [inv_tac Hs|].
        split; [apply (emit_rend_del plan); assumption|]. cbn [dspec]. unfold BA. rewrite ?EBA. reflexivity.
      + rewrite flag_stage_plain by assumption.
        eexists _, _, depth, None, retain, _. split; [reflexivity|]. split; [inv_tac Hs|].
        split; [apply (emit_rend_nobalt plan); assumption|]. cbn [dspec]. unfold BA. rewrite ?EBA. reflexivity.
    - (* FEnd *)
      rewrite Hs. destruct depth as [|d].
      + cbn [stack_of seq rev]. rewrite flag_stage_plain by assumption.
        eexists _, _, 0, del, retain, _. split; [reflexivity|]. split; [inv_tac Hs|].
        split; [reflexivity|]. cbn [dspec].
        (* at depth 0 the end is rendered with its own flags: with a block-alt flag left on an `end` nothing
           special happens (block-alt is only accepted on constructs), so rend applies when BA i = None *)
        f_equal. symmetry. apply (emit_rend_nobalt plan); assumption.
      + rewrite stack_of_S. cbn [set_stack r_del]. rewrite Hd.
        destruct del as [dd|].
        * destruct (Nat.eqb_spec dd d) as [->|Hne].
          -- cbn [set_del r_retain]. rewrite Hr. destruct retain; cbn [negb].
             ++ unfold resolve_roe. cbn [r_roe set_retain set_del set_stack]. rewrite Hroe. cbn [ron_get]. cbn [r_ron set_retain set_del set_stack]. rewrite Hron. cbn [ron_get].
                rewrite flag_stage_plain by assumption.
                eexists _, _, d, None, true, _. split; [reflexivity|]. split; [inv_tac Hs|].
                split; [reflexivity|]. cbn [dspec]. rewrite Nat.eqb_refl.
                f_equal. symmetry. apply (emit_rend_nobalt plan); assumption.
             ++ eexists _, _, d, None, true, _. split; [reflexivity|]. split; [inv_tac Hs|].
                split; [apply (emit_rend_del plan); assumption|]. cbn [dspec]. rewrite Nat.eqb_refl. reflexivity.
          -- eexists _, _, d, (Some dd), retain, _. split; [reflexivity|]. split; [inv_tac Hs|].
             split; [apply (emit_rend_del plan); assumption|]. cbn [dspec]. destruct (Nat.eqb_spec dd d); [contradiction|]. reflexivity.
        * unfold resolve_roe. cbn [r_roe set_stack]. rewrite Hroe. cbn [ron_get]. cbn [r_ron set_retain set_del set_stack]. rewrite Hron. cbn [ron_get].
          rewrite flag_stage_plain by assumption.
          eexists _, _, d, None, retain, _. split; [reflexivity|]. split; [inv_tac Hs|].
          split; [reflexivity|]. cbn [dspec].
          f_equal. symmetry. apply (emit_rend_nobalt plan); assumption.
  }
  destruct STEP as (st1 & w & depth1 & del1 & retain1 & out & E1 & [I1 L1] & EO & ED).
  rewrite E1.
  destruct (rloop last (S i) (map (fun x => (snd x, flags_of plan (fst x))) (index_from (S i) ops)) st1) as [r st2] eqn:E2.
  cbn [fst snd]. rewrite emit_from_cons, EO, ED.
  specialize (IH (S i) st1 depth1 del1 retain1 I1). rewrite E2 in IH. cbn [fst snd] in IH. destruct IH as [IH1 IH2].
  split; [f_equal; exact IH1|]. rewrite IH2. exact L1.
Qed.

(* without any block-alternate in the plan dspec is the C15 rendering, whatever the nesting *)
Lemma acc_repl_none plan m : existsb (fun e => mode_eqb (snd (fst e)) m) plan = false ->
  forall i cur, acc_repl plan i m cur = cur.
Proof.
  induction plan as [|[[j m'] code] plan IH]; intros H i cur; [reflexivity|].
  cbn [existsb fst snd] in H. apply orb_false_elim in H as [H1 H2].
  cbn [acc_repl]. rewrite IH by exact H2.
  destruct (Nat.eqb i j); cbn [andb]; [|reflexivity].
  destruct m, m'; try discriminate; reflexivity.
Qed.

Lemma dspec_no_balt plan last : (forall i, acc_repl plan i MBlockAlt None = None) ->
  forall ops i depth retain,
  dspec plan last i depth None retain ops
  = emit_from last i (map (fun x => (snd x, flags_of plan (fst x))) (index_from i ops)).
Proof.
  intros HB. induction ops as [|op ops IH]; intros i depth retain; [reflexivity|].
  cbn [index_from map fst snd]. rewrite emit_from_cons.
  assert (E : emit1_at last i op (flags_of plan i) = rend plan last i op) by (apply (emit_rend_nobalt plan); reflexivity).
  rewrite E.
  destruct op; cbn [dspec]; unfold BA; rewrite ?HB; try (rewrite IH; reflexivity).
  destruct depth as [|d]; rewrite IH; reflexivity.
Qed.

Lemma flags_closed_body plan (Hp : forallb (fun e => alt_mode (snd (fst e))) plan = true) : forall body i,
  set_flags_from i (flags_afterA plan) (map (fun o => (o, no_flags)) body)
  = map (fun x => (snd x, flags_of plan (fst x))) (index_from i body).
Proof.
  induction body as [|op b IH]; intros i; [reflexivity|].
  cbn [map set_flags_from index_from fst snd]. rewrite IH. f_equal. f_equal.
  rewrite (flags_afterA_closed plan i no_flags Hp). reflexivity.
Qed.

Theorem lowering_alt_exact (c : lcase) :
  plan_ok (c_body c) (c_plan c) = true -> is_nil (c_entry c) = true -> is_nil (c_exit c) = true ->
  model c = Some (dspec (c_plan c) (length (c_body c) - 1) 0 1 None true (c_body c), c_groups c).
Proof.
  intros Hok Hentry Hexit.
  assert (Hmodes : forallb (fun e => alt_mode (snd (fst e))) (c_plan c) = true).
  { unfold plan_ok in Hok. rewrite forallb_forall in *. intros e He. specialize (Hok e He).
    apply andb_prop in Hok as [Hok _]. apply andb_prop in Hok as [Hok _]. exact Hok. }
  unfold model.
  rewrite apply_plan_alt by (rewrite map_map; cbn [fst]; rewrite map_id; exact Hok).
  destruct (c_entry c); [|discriminate]. destruct (c_exit c); [|discriminate].
  cbn [orb negb is_nil]. rewrite !orb_false_r.
  rewrite flags_closed_body by exact Hmodes.
  set (fb := map (fun x => (snd x, flags_of (c_plan c) (fst x))) (index_from 0 (c_body c))).
  assert (Hlen : length fb = length (c_body c)).
  { unfold fb. rewrite map_length. clear. generalize 0. induction (c_body c); intros; cbn; [reflexivity|]. rewrite IHl. reflexivity. }
  destruct (existsb (fun e => is_balt (snd (fst e))) (c_plan c)) eqn:EB.
  - unfold resolve. cbn [negb is_nil].
    pose proof (sim_alt (c_plan c) (length fb - 1) (c_body c) 0
                  (mkR [] [] [0] None true [] [] (mkLocals (c_nparams c) (c_numlocals c) (c_groups c))) 1 None true) as S.
    fold fb in S.
    destruct (rloop (length fb - 1) 0 fb _) as [r st'] eqn:ER.
    cbn [fst snd] in S. destruct S as [S1 S2]; [unfold inv; cbn; repeat split; reflexivity|].
    unfold emit.
    assert (Hr : length r = length fb).
    { assert (G : forall last b i st, length (fst (rloop last i b st)) = length b).
      { clear. intros last. induction b as [|[o f] b IH]; intros i st; [reflexivity|].
        cbn [rloop]. destruct (rstep last i o f st) as [st1 w].
        specialize (IH (S i) st1). destruct (rloop last (S i) b st1) as [r st2]. cbn [fst length] in *. rewrite IH. reflexivity. }
      specialize (G (length fb - 1) fb 0 (mkR [] [] [0] None true [] [] (mkLocals (c_nparams c) (c_numlocals c) (c_groups c)))).
      rewrite ER in G. exact G. }
    rewrite Hr, S1, S2, Hlen. reflexivity.
  - unfold resolve. cbn [negb]. unfold emit. rewrite Hlen.
    rewrite dspec_no_balt.
    + reflexivity.
    + intros i. apply acc_repl_none.
      rewrite <- EB. clear. induction (c_plan c) as [|[[j m] code] p IH]; [reflexivity|].
      cbn [existsb fst snd]. rewrite IH. destruct m; reflexivity.
Qed.

(* checker soundness for the depth-counter specification: agreement with the model implies the observed body
   is the one dspec prescribes *)
Theorem checker_alt_sound (c : lcase) :
  agree c = true -> plan_ok (c_body c) (c_plan c) = true -> is_nil (c_entry c) = true -> is_nil (c_exit c) = true ->
  match c_obs c with
  | Some (b, _) => obs_is (dspec (c_plan c) (length (c_body c) - 1) 0 1 None true (c_body c)) b = true
  | None => False
  end.
Proof.
  intros Ha Hok He Hx. unfold agree in Ha. rewrite (lowering_alt_exact c Hok He Hx) in Ha.
  destruct (c_obs c) as [[b' g']|]; [|discriminate].
  apply andb_prop in Ha as [Ha _]. exact Ha.
Qed.


