(* The flat resolution pass + emission computes the flattening of the tree-level lowering
   (non-replacing modes, no semantic-after on branches, no function entry/exit). *)
From Coq Require Import List Arith NArith ZArith Bool Lia.
Import ListNotations.
From Orca Require Import Flat Lowering Tree TreeLower WasmP EvalP Sim.

Section Commute.
Variable F : nat -> flags.

Notation bef := (TreeLower.bef F). Notation aft := (TreeLower.aft F). Notation be_ := (TreeLower.be_ F).
Notation bx_ := (TreeLower.bx_ F). Notation sa_ := (TreeLower.sa_ F).
Notation lower := (TreeLower.lower F []).

(* ---------- flattening ---------- *)
Fixpoint flatF1 (x : instr) : list (fop * flags) :=
  match x with
  | IPlain i o => [(o, F i)]
  | IBlock i e bt b => (FBlock bt, F i) :: flat_map flatF1 b ++ [(FEnd, F e)]
  | ILoop i e bt b => (FLoop bt, F i) :: flat_map flatF1 b ++ [(FEnd, F e)]
  | IIf i el e bt t els =>
      (FIf bt, F i) :: flat_map flatF1 t
      ++ (match el with Some x => (FElse, F x) :: flat_map flatF1 els | None => [] end)
      ++ [(FEnd, F e)]
  end.
Definition flatF (t : list instr) := flat_map flatF1 t.

Lemma flat_app a b : flat (a ++ b) = flat a ++ flat b.
Proof. apply flat_map_app. Qed.
Lemma flat_ins code : flat (ins code) = code.
Proof. induction code as [|o code IH]; cbn; [reflexivity|]. unfold flat, ins in IH. rewrite IH. reflexivity. Qed.

(* emission of one (non-final) instruction *)
Definition emit1 (x : fop * flags) : list fop :=
  let '(op, f) := x in
  if negb (has_instr f) then [op]
  else f_before f ++ (match f_alt f with Some a => a | None => [op] end) ++ f_after f.
Definition emit_mid (l : list (fop * flags)) : list fop := flat_map emit1 l.

Lemma emit1_noalt op f : f_alt f = None -> emit1 (op, f) = f_before f ++ [op] ++ f_after f.
Proof.
  intros Ha. unfold emit1. destruct (has_instr f) eqn:Hh; cbn [negb]; [rewrite Ha; reflexivity|].
  unfold has_instr in Hh. repeat (apply orb_false_elim in Hh; destruct Hh as [Hh ?]).
  destruct (f_before f); [|discriminate]. destruct (f_after f); [|discriminate]. reflexivity.
Qed.

(* ---------- rloop over appended lists ---------- *)
Lemma rloop_app last : forall a b idx st,
  rloop last idx (a ++ b) st =
  let '(o1, st1) := rloop last idx a st in
  let '(o2, st2) := rloop last (idx + length a) b st1 in
  (o1 ++ o2, st2).
Proof.
  induction a as [|[op fl] a IH]; intros b idx st.
  - cbn. rewrite Nat.add_0_r. destruct (rloop last idx b st). reflexivity.
  - cbn [app rloop length]. destruct (rstep last idx op fl st) as [st1 w].
    rewrite IH. destruct (rloop last (S idx) a st1) as [o1 st2].
    replace (idx + S (length a)) with (S idx + length a) by lia.
    destruct (rloop last (S idx + length a) b st2) as [o2 st3]. reflexivity.
Qed.

(* ---------- closed forms of flag_stage ---------- *)
Definition regb (k : nat) (bx : list fop) (m : list (nat * pend2)) :=
  if is_nil bx then m else ron_upd k (fun p => mkPend2 (add_not bx (pb p)) (pa p)) m.
Definition rega (k : nat) (sa : list fop) (m : list (nat * pend2)) :=
  if is_nil sa then m else ron_upd k (fun p => mkPend2 (pb p) (add_not sa (pa p))) m.

Lemma has_instr_false f : has_instr f = false ->
  f_before f = [] /\ f_after f = [] /\ f_alt f = None /\ f_sa f = [] /\ f_be f = [] /\ f_bx f = [] /\ f_balt f = None.
Proof.
  unfold has_instr. intros H. repeat (apply orb_false_elim in H; destruct H as [H ?]).
  destruct (f_before f), (f_after f), (f_alt f), (f_sa f), (f_be f), (f_bx f), (f_balt f); try discriminate.
  repeat split.
Qed.

(* block / loop / else: entry code goes to `after`, exit and semantic-after code is registered on the own id *)
Lemma flag_stage_reg op orig st w :
  (op = FElse \/ exists bt, op = FBlock bt \/ op = FLoop bt) ->
  let '(st', w') := flag_stage op orig st w in
  r_entry st' = r_entry st /\ r_exit st' = r_exit st /\ r_stack st' = r_stack st /\ r_del st' = r_del st /\
  r_retain st' = r_retain st /\ r_roe st' = r_roe st /\ r_loc st' = r_loc st /\
  r_ron st' = rega (top (r_stack st)) (f_sa orig) (regb (top (r_stack st)) (f_bx orig) (r_ron st)) /\
  f_before w' = f_before w /\ f_after w' = f_after w ++ f_be orig /\ f_alt w' = f_alt w.
Proof.
  intros Hop. unfold flag_stage.
  destruct (has_instr orig) eqn:Hh; cbn [negb].
  2:{ apply has_instr_false in Hh. destruct Hh as (?&?&?&Hs&Hb&Hx&?). unfold rega, regb. rewrite Hs, Hb, Hx.
      cbn. rewrite app_nil_r. repeat split. }
  assert (Hbs : is_block_style op = true) by (destruct Hop as [->|[bt [->| ->]]]; reflexivity).
  rewrite Hbs. unfold rega, regb.
  destruct (f_be orig) as [|b1 bl] eqn:Eb; destruct (f_bx orig) as [|x1 xl] eqn:Ex; destruct (f_sa orig) as [|s1 sl] eqn:Es;
    cbn [is_nil negb]; destruct Hop as [->|[bt [->| ->]]]; cbn; rewrite ?app_nil_r; repeat split; try reflexivity.
Qed.

Lemma flag_stage_if bt orig st w :
  let '(st', w') := flag_stage (FIf bt) orig st w in
  r_entry st' = r_entry st /\ r_exit st' = r_exit st /\ r_stack st' = r_stack st /\ r_del st' = r_del st /\
  r_retain st' = r_retain st /\ r_loc st' = r_loc st /\
  r_roe st' = regb (top (r_stack st)) (f_bx orig) (r_roe st) /\
  r_ron st' = rega (top (r_stack st)) (f_sa orig) (r_ron st) /\
  f_before w' = f_before w /\ f_after w' = f_after w ++ f_be orig /\ f_alt w' = f_alt w.
Proof.
  unfold flag_stage.
  destruct (has_instr orig) eqn:Hh; cbn [negb].
  2:{ apply has_instr_false in Hh. destruct Hh as (?&?&?&Hs&Hb&Hx&?). unfold rega, regb. rewrite Hs, Hb, Hx.
      cbn. rewrite !app_nil_r. repeat split. }
  unfold rega, regb.
  destruct (f_be orig) as [|b1 bl] eqn:Eb; destruct (f_bx orig) as [|x1 xl] eqn:Ex; destruct (f_sa orig) as [|s1 sl] eqn:Es;
    cbn; rewrite ?app_nil_r; repeat split; try reflexivity.
Qed.

Lemma flag_stage_none op orig st w :
  f_be orig = [] -> f_bx orig = [] -> f_sa orig = [] -> flag_stage op orig st w = (st, w).
Proof.
  intros Hb Hx Hs. unfold flag_stage. rewrite Hb, Hx, Hs. cbn [is_nil].
  destruct (negb (has_instr orig)); reflexivity.
Qed.

Lemma rstate_eta (a b : rstate) :
  r_entry a = r_entry b -> r_exit a = r_exit b -> r_stack a = r_stack b -> r_del a = r_del b ->
  r_retain a = r_retain b -> r_roe a = r_roe b -> r_ron a = r_ron b -> r_loc a = r_loc b -> a = b.
Proof. destruct a, b; cbn; intros; subst; reflexivity. Qed.
End Commute.
