(* C17: function entry / exit probes.  The specification [exec_fn .. true] runs the exit probes X when the
   body falls through, when it returns, when it branches to the function label, and immediately before an
   explicit unreachable / throw / return_call; the entry probes are part of the before-probes of instruction 0
   (that is where the implementation files them).  The lowered function wraps the lowered body in a block of
   the function's result type, followed by X.  Theorem: the plain interpreter on the wrapped tree returns the
   same results, globals and event trace. *)
From Coq Require Import List Arith NArith ZArith Bool Lia.
Import ListNotations.
From Orca Require Import Flat Tree TreeLower WasmP SemProofs EvalP Sim.

Section SimFn.
Variable ftypes : list (nat * nat).
Variable F : nat -> flags.
Variable X : list fop.
Hypothesis HX : pcode X.
Hypothesis Hcode : forall i, pcode (bef F i) /\ pcode (aft F i) /\ pcode (be_ F i) /\ pcode (bx_ F i) /\ pcode (sa_ F i).

(* "no effect other than reporting": the probe appends a fixed list of events and leaves everything else alone *)
Definition neutral (code : list fop) : Prop :=
  exists t, forall c, run_code code c = ONormal (mkC (locals c) (globals c) (stack c) (trace c ++ t)).
Hypothesis NX : neutral X.

Variable ty : N.          (* type index of the wrapper block: () -> results *)
Variable nres : nat.
Hypothesis Hty : arity ftypes (BtFunc ty) = (0, nres)%nat.

Notation lowerX := (lower F X).
Notation evP := (evP ftypes).

Definition inner (body : list instr) (fe : nat) : list instr := flat_map lowerX body ++ ins (bef F fe).
Definition fn_tree (body : list instr) (fe : nat) : list instr :=
  match X with
  | [] => inner body fe
  | _ => [IBlock 0 0 (BtFunc ty) (inner body fe)] ++ ins X
  end.

(* same results (the first nres stack values), same globals, same trace; traps and the rest identical *)
Definition res_eq (a b : outcome) : Prop :=
  match a, b with
  | OReturn ca, OReturn cb =>
      firstn nres (stack ca) = firstn nres (stack cb) /\ globals ca = globals cb /\ trace ca = trace cb
  | _, _ => a = b
  end.
Lemma res_eq_refl a : res_eq a a.
Proof. destruct a; cbn; auto. Qed.

Lemma evP_ins_nil code c :
  pcode code ->
  match run_code code c with
  | ONormal c' => evP (ins code) c (ONormal c')
  | r => evP (ins code) c r
  end.
Proof.
  intros Hp. pose proof (evP_ins ftypes code [] c Hp) as H. rewrite app_nil_r in H.
  destruct (run_code code c); auto. apply H. apply evP_nil.
Qed.

Lemma evP_to_exec_fn tree fe' c r :
  evP tree c r ->
  exists fuel, exec_fn ftypes nof [] [] false fuel tree fe' c
               = match r with ONormal c' => OReturn c' | OBr _ _ c' => OReturn c' | o => o end.
Proof.
  intros [fuel [H Hn]]. exists fuel. unfold exec_fn. rewrite H. destruct r; reflexivity.
Qed.

Lemma fn_tree_nil body fe : X = [] -> fn_tree body fe = inner body fe.
Proof. intros E. unfold fn_tree. rewrite E. reflexivity. Qed.
Lemma fn_tree_cons body fe : X <> [] -> fn_tree body fe = [IBlock 0 0 (BtFunc ty) (inner body fe)] ++ ins X.
Proof. intros E. unfold fn_tree. destruct X; [congruence|reflexivity]. Qed.

Theorem sim_fn fuel body fe c ob :
  exec_fn ftypes F [] X true fuel body fe c = ob -> ob <> OFuel -> nbl F body ->
  stack c = [] ->
  (* the function's branches are in range: a branch that leaves the body targets the function label *)
  (forall n p c', exec ftypes F X true fuel false body c = OBr n p c' -> n = 0%nat) ->
  exists fuel' ob', exec_fn ftypes nof [] [] false fuel' (fn_tree body fe) 0 c = ob' /\ res_eq ob ob'.
Proof.
  intros H Hn Hnb Hstk Hdepth. unfold exec_fn in H. cbn [run_code] in H.
  change (f_before (F fe)) with (bef F fe) in H.
  destruct (Hcode fe) as [Pbe _].
  destruct NX as [t Ht].
  remember (exec ftypes F X true fuel false body c) as obb eqn:Eb. symmetry in Eb.
  assert (Hnb' : obb <> OFuel).
  { intros ->. apply Hn. subst ob. reflexivity. }
  pose proof (sim ftypes F X HX Hcode fuel false body c obb Eb Hnb' Hnb ltac:(discriminate) (ins (bef F fe))) as HG.
  change (lowerL F X false body) with (flat_map lowerX body) in HG. fold (inner body fe) in HG.
  (* what the plain interpreter does on [inner] *)
  assert (Hinner :
    match obb with
    | ONormal c' => match run_code (bef F fe) c' with
                    | ONormal c1 => evP (inner body fe) c (ONormal c1)
                    | r => evP (inner body fe) c r end
    | o => evP (inner body fe) c o end).
  { unfold G in HG. destruct obb; auto.
    pose proof (evP_ins_nil (bef F fe) c0 Pbe) as HI.
    destruct (run_code (bef F fe) c0); auto. }
  clear HG.
  assert (EX : X = [] \/ X <> []) by (destruct X; [left; reflexivity|right; discriminate]).
  destruct EX as [EX|EX].
  - (* no exit probes: no wrapper *)
    rewrite (fn_tree_nil body fe EX). rewrite EX in H. cbn [run_code] in H.
    destruct obb as [c'|n p c'|c'|c'| |]; try contradiction (Hnb' eq_refl).
    + destruct (run_code (bef F fe) c') as [c1| | | | |] eqn:R.
      * destruct (evP_to_exec_fn _ 0 _ _ Hinner) as [f' Hf]. exists f', (OReturn c1). split; [exact Hf|].
        subst ob. apply res_eq_refl.
      * destruct (evP_to_exec_fn _ 0 _ _ Hinner) as [f' Hf]. exists f', (OReturn c0). split; [exact Hf|].
        subst ob. exfalso. pose proof (run_code_shape (bef F fe) c') as S. rewrite R in S. exact S.
      * destruct (evP_to_exec_fn _ 0 _ _ Hinner) as [f' Hf]. eexists f', _. split; [exact Hf|]. subst ob. apply res_eq_refl.
      * destruct (evP_to_exec_fn _ 0 _ _ Hinner) as [f' Hf]. eexists f', _. split; [exact Hf|]. subst ob. apply res_eq_refl.
      * exfalso. eapply run_code_not_fuel; eauto.
      * destruct (evP_to_exec_fn _ 0 _ _ Hinner) as [f' Hf]. eexists f', _. split; [exact Hf|]. subst ob. apply res_eq_refl.
    + assert (p = []) by (eapply evP_pend_nil; exact Hinner). subst p.
      destruct (evP_to_exec_fn _ 0 _ _ Hinner) as [f' Hf]. eexists f', _. split; [exact Hf|]. subst ob. cbn. auto.
    + destruct (evP_to_exec_fn _ 0 _ _ Hinner) as [f' Hf]. eexists f', _. split; [exact Hf|]. subst ob. apply res_eq_refl.
    + destruct (evP_to_exec_fn _ 0 _ _ Hinner) as [f' Hf]. eexists f', _. split; [exact Hf|]. subst ob. apply res_eq_refl.
    + destruct (evP_to_exec_fn _ 0 _ _ Hinner) as [f' Hf]. eexists f', _. split; [exact Hf|]. subst ob. apply res_eq_refl.
  - (* wrapper block + exit probes *)
    rewrite (fn_tree_cons body fe EX).
    assert (Hexit : forall c2, evP (ins X) c2 (ONormal (mkC (locals c2) (globals c2) (stack c2) (trace c2 ++ t)))).
    { intros c2. pose proof (evP_ins_nil X c2 HX) as HI. rewrite Ht in HI. exact HI. }
    assert (Hwrap : forall o r, evP (inner body fe) c o ->
              after_block ftypes [] nres (ins X) o r -> evP ([IBlock 0 0 (BtFunc ty) (inner body fe)] ++ ins X) c r).
    { intros o r Ho HA. cbn [app]. eapply evP_block.
      - rewrite Hty. cbn [fst]. cbn [firstn]. rewrite <- Hstk.
        replace (with_stack c (stack c)) with c by (destruct c; reflexivity). exact Ho.
      - rewrite Hty. cbn [fst snd skipn]. rewrite Hstk. exact HA. }
    destruct obb as [c'|n p c'|c'|c'| |]; try contradiction (Hnb' eq_refl).
    + destruct (run_code (bef F fe) c') as [c1| | | | |] eqn:R.
      * (* falls through: before-probes of the final end, wrapper end, exit probes *)
        assert (HE : evP ([IBlock 0 0 (BtFunc ty) (inner body fe)] ++ ins X) c
                       (ONormal (mkC (locals c1) (globals c1) (firstn nres (stack c1) ++ []) (trace c1 ++ t)))).
        { eapply Hwrap; [exact Hinner|]. cbn [after_block]. apply (Hexit (with_stack c1 (firstn nres (stack c1) ++ []))). }
        destruct (evP_to_exec_fn _ 0 _ _ HE) as [f' Hf]. eexists f', _. split; [exact Hf|].
        subst ob. rewrite Ht. cbn [run_code]. cbn. rewrite app_nil_r, firstn_firstn, Nat.min_id. auto.
      * exfalso. pose proof (run_code_shape (bef F fe) c') as S. rewrite R in S. exact S.
      * exfalso. pose proof (run_code_shape (bef F fe) c') as S. rewrite R in S. exact S.
      * assert (HE : evP ([IBlock 0 0 (BtFunc ty) (inner body fe)] ++ ins X) c (OTrap c0)).
        { eapply Hwrap; [exact Hinner|]. reflexivity. }
        destruct (evP_to_exec_fn _ 0 _ _ HE) as [f' Hf]. eexists f', _. split; [exact Hf|]. subst ob. apply res_eq_refl.
      * exfalso. eapply run_code_not_fuel; eauto.
      * assert (HE : evP ([IBlock 0 0 (BtFunc ty) (inner body fe)] ++ ins X) c OUnsupported).
        { eapply Hwrap; [exact Hinner|]. reflexivity. }
        destruct (evP_to_exec_fn _ 0 _ _ HE) as [f' Hf]. eexists f', _. split; [exact Hf|]. subst ob. apply res_eq_refl.
    + (* branch to the function label: it now targets the wrapper *)
      assert (p = []) by (eapply evP_pend_nil; exact Hinner). subst p.
      assert (n = 0%nat) by (eapply Hdepth; reflexivity). subst n.
      assert (HE : evP ([IBlock 0 0 (BtFunc ty) (inner body fe)] ++ ins X) c
                     (ONormal (mkC (locals c') (globals c') (firstn nres (stack c') ++ []) (trace c' ++ t)))).
      { eapply Hwrap; [exact Hinner|]. cbn [after_block]. apply (Hexit (with_stack c' (firstn nres (stack c') ++ []))). }
      destruct (evP_to_exec_fn _ 0 _ _ HE) as [f' Hf]. eexists f', _. split; [exact Hf|].
      subst ob. rewrite Ht. cbn [concat run_code]. cbn. rewrite app_nil_r, firstn_firstn, Nat.min_id. auto.
    + (* return: the exit probes were spliced in front of it *)
      assert (HE : evP ([IBlock 0 0 (BtFunc ty) (inner body fe)] ++ ins X) c (OReturn c')).
      { eapply Hwrap; [exact Hinner|]. reflexivity. }
      destruct (evP_to_exec_fn _ 0 _ _ HE) as [f' Hf]. eexists f', _. split; [exact Hf|]. subst ob. apply res_eq_refl.
    + assert (HE : evP ([IBlock 0 0 (BtFunc ty) (inner body fe)] ++ ins X) c (OTrap c')).
      { eapply Hwrap; [exact Hinner|]. reflexivity. }
      destruct (evP_to_exec_fn _ 0 _ _ HE) as [f' Hf]. eexists f', _. split; [exact Hf|]. subst ob. apply res_eq_refl.
    + assert (HE : evP ([IBlock 0 0 (BtFunc ty) (inner body fe)] ++ ins X) c OUnsupported).
      { eapply Hwrap; [exact Hinner|]. reflexivity. }
      destruct (evP_to_exec_fn _ 0 _ _ HE) as [f' Hf]. eexists f', _. split; [exact Hf|]. subst ob. apply res_eq_refl.
Qed.
End SimFn.

Print Assumptions sim_fn.
