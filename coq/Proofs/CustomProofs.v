(* C28: custom sections are preserved and edited exactly.  Theorems about the mirror of CustomSections
   (Custom.v) for all layouts and all edit sequences (no bound on their length):
   A. every call changes the vector exactly as its name says (add = append, delete = remove at index,
      modify = replace data), emission is list order, parse-then-emit yields the non-name custom sections in
      file order;
   B. the model equals the slot specification of CheckCustom.v for every edit sequence (fold_left induction);
   C. on slots: position and name of a section never change, a step changes at most the slot its id designates,
      data only changes through a modify, liveness only through a delete, added sections come after all others;
   D. the model satisfies the executable specification; soundness of the checker; the former D09 witness. *)
From Coq Require Import List Arith NArith Bool Lia.
Import ListNotations.
From Orca Require Import Util Flat Custom CheckCustom EqbFacts.
Local Open Scope N_scope.

(* ---------------------------------------------------------------------------------------- *)
(* A. single calls on the vector *)

Lemma remove_at_split {A} : forall n (l : list A), remove_at n l = firstn n l ++ skipn (S n) l.
Proof.
  induction n as [|n IH]; intros [|x t]; try reflexivity.
  cbn [remove_at firstn skipn app]. rewrite IH. destruct t; reflexivity.
Qed.

Lemma set_data_at_split : forall n d (l : list csec) nm d0,
  nth_error l n = Some (nm, d0) ->
  set_data_at n d l = firstn n l ++ (nm, d) :: skipn (S n) l.
Proof.
  induction n as [|n IH]; intros d [|[nm' d'] t] nm d0 H; try discriminate.
  - cbn in H. inversion H; subst. reflexivity.
  - cbn [set_data_at firstn skipn app]. cbn in H. rewrite (IH d t nm d0 H). destruct t; reflexivity.
Qed.

Lemma set_data_at_names : forall n d (l : list csec), map fst (set_data_at n d l) = map fst l.
Proof.
  induction n as [|n IH]; intros d [|[nm d'] t]; try reflexivity.
  cbn [set_data_at map fst]. rewrite IH. reflexivity.
Qed.

Theorem add_is_append name data l :
  apply_op (OAdd name data) l = Some ([len l], l ++ [(name, data)]).
Proof. reflexivity. Qed.

Theorem delete_is_remove id l :
  apply_op (ODelete id) l
  = Some ([], if id <? len l then firstn (N.to_nat id) l ++ skipn (S (N.to_nat id)) l else l).
Proof. cbn [apply_op]. rewrite remove_at_split. reflexivity. Qed.

Theorem modify_replaces_data id d l :
  match nth_error l (N.to_nat id) with
  | Some (nm, d0) =>
      id < len l ->
      apply_op (OModify id d) l
      = Some ([1], firstn (N.to_nat id) l ++ (nm, d) :: skipn (S (N.to_nat id)) l)
  | None => apply_op (OModify id d) l = Some ([0], l)
  end.
Proof.
  destruct (nth_error l (N.to_nat id)) as [[nm d0]|] eqn:E.
  - intros H. cbn [apply_op]. apply N.ltb_lt in H. rewrite H. rewrite (set_data_at_split _ _ _ _ _ E). reflexivity.
  - cbn [apply_op]. apply nth_error_None in E.
    assert (X : (id <? len l) = false) by (apply N.ltb_ge; unfold len, csec; lia).
    rewrite X. reflexivity.
Qed.

Theorem queries_change_nothing o l r l' :
  match o with OGetId _ | OGet _ | OLen => True | _ => False end ->
  apply_op o l = Some (r, l') -> l' = l.
Proof.
  destruct o; cbn [apply_op]; intros []; intros H.
  - inversion H; reflexivity.
  - destruct (id <? len l); [|discriminate]. destruct (nth_error l (N.to_nat id)) as [[nm d]|]; inversion H; reflexivity.
  - inversion H; reflexivity.
Qed.

Theorem emit_is_list_order l : emit_customs l = l.
Proof. reflexivity. Qed.

(* parse: when every name section is well-formed, the vector after parsing is the list of the non-name custom
   sections in file order *)
Lemma parse_items_spec : forall l st,
  forallb name_wellformed l = true ->
  exists st', parse_items st l = Done st' /\ p_customs st' = p_customs st ++ spec_customs l.
Proof.
  induction l as [|it l IH]; intros st Hw.
  - exists st. cbn. rewrite app_nil_r. split; reflexivity.
  - cbn [forallb] in Hw. apply andb_true_iff in Hw. destruct Hw as [Hw1 Hw].
    destruct it as [id n|name data info].
    + cbn [parse_items parse_item spec_customs].
      destruct (N.eqb id 2); [|destruct (N.eqb id 10)].
      * apply (IH (mkP (p_nimp st + n) (p_ncode st) (p_customs st)) Hw).
      * apply (IH (mkP (p_nimp st) (p_ncode st + n) (p_customs st)) Hw).
      * apply (IH st Hw).
    + cbn [parse_items parse_item spec_customs].
      destruct (N.eqb_spec name NAME) as [->|Hn].
      * (* a name section: consumed *)
        destruct info as [|fnames| |s].
        -- apply (IH _ Hw).
        -- apply (IH _ Hw).
        -- discriminate Hw1.
        -- apply (IH _ Hw).
      * set (st1 := mkP (p_nimp st) (p_ncode st) (p_customs st ++ [(name, data)])).
        destruct (IH st1 Hw) as (st' & E1 & E2).
        exists st'. split; [exact E1|]. rewrite E2. unfold st1. cbn [p_customs]. rewrite <- app_assoc. reflexivity.
Qed.

Theorem parse_then_emit layout :
  forallb name_wellformed layout = true ->
  parse_customs layout = Done (spec_customs layout).
Proof.
  intros Hw. unfold parse_customs.
  destruct (parse_items_spec layout (mkP 0 0 []) Hw) as (st' & E1 & E2).
  rewrite E1, E2. reflexivity.
Qed.

(* ---------------------------------------------------------------------------------------- *)
(* B. the vector is the view of the slots, for every call and every sequence *)

Lemma live_cons_alive x t : s_alive x = true -> live (x :: t) = live t + 1.
Proof. intros H. unfold live. cbn [filter]. rewrite H. cbn [length]. lia. Qed.
Lemma live_cons_dead x t : s_alive x = false -> live (x :: t) = live t.
Proof. intros H. unfold live. cbn [filter]. rewrite H. reflexivity. Qed.
Lemma view_cons_alive x t : s_alive x = true -> view (x :: t) = (s_name x, s_data x) :: view t.
Proof. intros H. unfold view. cbn [filter]. rewrite H. reflexivity. Qed.
Lemma view_cons_dead x t : s_alive x = false -> view (x :: t) = view t.
Proof. intros H. unfold view. cbn [filter]. rewrite H. reflexivity. Qed.
Lemma live_view s : live s = len (view s).
Proof. unfold live, len, view. rewrite map_length. reflexivity. Qed.
Lemma view_app s1 s2 : view (s1 ++ s2) = view s1 ++ view s2.
Proof. unfold view. rewrite filter_app, map_app. reflexivity. Qed.
Lemma view_init l : view (map (fun p => mkSlot (fst p) (snd p) true) l) = l.
Proof.
  induction l as [|[n d] l IH]; [reflexivity|].
  cbn [map]. rewrite view_cons_alive by reflexivity. cbn [s_name s_data fst snd]. rewrite IH. reflexivity.
Qed.

Lemma view_kill : forall s k,
  view (on_live k kill s) = if k <? live s then remove_at (N.to_nat k) (view s) else view s.
Proof.
  induction s as [|x t IH]; intros k.
  - cbn. destruct (k <? 0); destruct (N.to_nat k); reflexivity.
  - cbn [on_live]. destruct (s_alive x) eqn:A.
    + rewrite (live_cons_alive _ _ A), (view_cons_alive x t A).
      destruct (N.eqb_spec k 0) as [->|Hk].
      * rewrite view_cons_dead by reflexivity.
        destruct (N.ltb_spec 0 (live t + 1)); [reflexivity|lia].
      * rewrite (view_cons_alive _ _ A), IH.
        replace (N.to_nat k) with (S (N.to_nat (k - 1))) by lia. cbn [remove_at].
        destruct (N.ltb_spec (k - 1) (live t)), (N.ltb_spec k (live t + 1)); try lia; reflexivity.
    + rewrite (live_cons_dead _ _ A), (view_cons_dead x t A), (view_cons_dead _ _ A). apply IH.
Qed.

Lemma view_redata d : forall s k,
  view (on_live k (redata d) s) = if k <? live s then set_data_at (N.to_nat k) d (view s) else view s.
Proof.
  induction s as [|x t IH]; intros k.
  - cbn. destruct (k <? 0); destruct (N.to_nat k); reflexivity.
  - cbn [on_live]. destruct (s_alive x) eqn:A.
    + rewrite (live_cons_alive _ _ A), (view_cons_alive x t A).
      destruct (N.eqb_spec k 0) as [->|Hk].
      * rewrite view_cons_alive by exact A.
        destruct (N.ltb_spec 0 (live t + 1)); [reflexivity|lia].
      * rewrite (view_cons_alive _ _ A), IH.
        replace (N.to_nat k) with (S (N.to_nat (k - 1))) by lia. cbn [set_data_at].
        destruct (N.ltb_spec (k - 1) (live t)), (N.ltb_spec k (live t + 1)); try lia; reflexivity.
    + rewrite (live_cons_dead _ _ A), (view_cons_dead x t A), (view_cons_dead _ _ A). apply IH.
Qed.

Lemma first_named_view name : forall s i, first_named name i s = find_name name i (view s).
Proof.
  induction s as [|x t IH]; intros i; [reflexivity|].
  cbn [first_named]. destruct (s_alive x) eqn:A.
  - rewrite (view_cons_alive _ _ A). cbn [find_name]. destruct (N.eqb (s_name x) name); [reflexivity|apply IH].
  - rewrite (view_cons_dead _ _ A). apply IH.
Qed.

Lemma get_live_view : forall s k,
  match get_live k s with
  | Some x => (k <? live s) = true /\ nth_error (view s) (N.to_nat k) = Some (s_name x, s_data x)
  | None => (k <? live s) = false
  end.
Proof.
  induction s as [|x t IH]; intros k.
  - cbn. destruct k; reflexivity.
  - cbn [get_live]. destruct (s_alive x) eqn:A.
    + rewrite (live_cons_alive _ _ A), (view_cons_alive x t A).
      destruct (N.eqb_spec k 0) as [->|Hk].
      * split; [apply N.ltb_lt; lia|reflexivity].
      * specialize (IH (k - 1)). replace (N.to_nat k) with (S (N.to_nat (k - 1))) by lia. cbn [nth_error].
        destruct (get_live (k - 1) t) as [y|].
        -- destruct IH as [I1 I2]. split; [|exact I2]. apply N.ltb_lt in I1. apply N.ltb_lt. lia.
        -- apply N.ltb_ge in IH. apply N.ltb_ge. lia.
    + rewrite (live_cons_dead _ _ A), (view_cons_dead x t A). apply IH.
Qed.

Lemma spec_op_model o s :
  match spec_op o s with
  | Some (r, s') => apply_op o (view s) = Some (r, view s')
  | None => apply_op o (view s) = None
  end.
Proof.
  destruct o as [name data|id|id data|name|id|]; cbn [spec_op apply_op].
  - rewrite view_app, live_view. reflexivity.
  - rewrite view_kill, live_view. reflexivity.
  - rewrite view_redata, <- live_view. destruct (id <? live s); reflexivity.
  - rewrite first_named_view. reflexivity.
  - pose proof (get_live_view s id) as G. rewrite <- live_view.
    destruct (get_live id s) as [x|].
    + destruct G as [G1 G2]. rewrite G1, G2. reflexivity.
    + rewrite G. reflexivity.
  - rewrite live_view. reflexivity.
Qed.

Lemma step_none ops : fold_left step ops None = None.
Proof. induction ops as [|o ops IH]; [reflexivity|exact IH]. Qed.

Lemma run_model_spec : forall ops rs s,
  match fold_left spec_step ops (Some (rs, s)) with
  | Some (rs', s') => fold_left step ops (Some (rs, view s)) = Some (rs', view s')
  | None => fold_left step ops (Some (rs, view s)) = None
  end.
Proof.
  induction ops as [|o ops IH]; intros rs s; [reflexivity|].
  cbn [fold_left spec_step step]. pose proof (spec_op_model o s) as M.
  destruct (spec_op o s) as [[r s1]|].
  - rewrite M. apply IH.
  - rewrite M. assert (F : forall l, fold_left spec_step l None = None) by (induction l; [reflexivity|assumption]).
    rewrite F. apply step_none.
Qed.

(* the model's vector after any edit sequence is the view of the specification's slots, with the same answers *)
Theorem model_is_view_of_slots ops l :
  run_ops ops l = match spec_run ops l with Some (rs, s) => Some (rs, view s) | None => None end.
Proof.
  unfold run_ops, spec_run. pose proof (run_model_spec ops [] (map (fun p => mkSlot (fst p) (snd p) true) l)) as R.
  rewrite view_init in R.
  destruct (fold_left spec_step ops _) as [[rs s]|]; exact R.
Qed.

(* ---------------------------------------------------------------------------------------- *)
(* C. what an edit sequence can and cannot change *)

(* one id-directed action touches at most the slot the id designates (the live slot with exactly [k] live slots
   in front of it); every other slot is untouched *)
Lemma on_live_frame f : forall s k i x,
  nth_error s i = Some x ->
  nth_error (on_live k f s) i = Some x
  \/ (nth_error (on_live k f s) i = Some (f x) /\ s_alive x = true /\ live (firstn i s) = k).
Proof.
  induction s as [|y t IH]; intros k i x H; [destruct i; discriminate|].
  cbn [on_live]. destruct (s_alive y) eqn:A.
  - destruct (N.eqb_spec k 0) as [->|Hk].
    + destruct i as [|i]; cbn in H |- *.
      * inversion H; subst. right. repeat split. exact A.
      * left. exact H.
    + destruct i as [|i]; cbn in H |- *; [left; exact H|].
      destruct (IH (k - 1) i x H) as [L|(R1 & R2 & R3)]; [left; exact L|].
      right. repeat split; try assumption. rewrite (live_cons_alive _ _ A). lia.
  - destruct i as [|i]; cbn in H |- *; [left; exact H|].
    destruct (IH k i x H) as [L|(R1 & R2 & R3)]; [left; exact L|].
    right. repeat split; try assumption. rewrite (live_cons_dead _ _ A). exact R3.
Qed.

Lemma on_live_length f : forall s k, length (on_live k f s) = length s.
Proof.
  induction s as [|y t IH]; intros k; [reflexivity|].
  cbn [on_live]. destruct (s_alive y); [destruct (N.eqb k 0)|]; cbn [length]; rewrite ?IH; reflexivity.
Qed.

Lemma on_live_map {B} (g : slot -> B) f : (forall x, g (f x) = g x) ->
  forall s k, map g (on_live k f s) = map g s.
Proof.
  intros H. induction s as [|y t IH]; intros k; [reflexivity|].
  cbn [on_live]. destruct (s_alive y); [destruct (N.eqb k 0)|]; cbn [map]; rewrite ?IH, ?H; reflexivity.
Qed.

Definition is_modify (o : cop) : bool := match o with OModify _ _ => true | _ => false end.
Definition is_delete (o : cop) : bool := match o with ODelete _ => true | _ => false end.

(* one call: the old slots keep their positions and names; data only moves under a modify, liveness only under
   a delete; new slots are appended and live *)
Lemma spec_op_stable o s r s' :
  spec_op o s = Some (r, s') ->
  exists s1 added,
    s' = s1 ++ added /\ length s1 = length s
    /\ map s_name s1 = map s_name s
    /\ (is_modify o = false -> map s_data s1 = map s_data s)
    /\ (is_delete o = false -> map s_alive s1 = map s_alive s)
    /\ forallb s_alive added = true.
Proof.
  destruct o as [name data|id|id data|name|id|]; cbn [spec_op]; intros H.
  - inversion H; subst. exists s, [mkSlot name data true]. repeat split; reflexivity.
  - inversion H; subst. exists (on_live id kill s), []. rewrite app_nil_r. repeat split.
    + apply on_live_length.
    + apply on_live_map. reflexivity.
    + intros _. apply on_live_map. reflexivity.
    + discriminate.
  - inversion H; subst. exists (on_live id (redata data) s), []. rewrite app_nil_r. repeat split.
    + apply on_live_length.
    + apply on_live_map. reflexivity.
    + discriminate.
    + intros _. apply on_live_map. reflexivity.
  - inversion H; subst. exists s', []. rewrite app_nil_r. repeat split; reflexivity.
  - destruct (get_live id s); [|discriminate]. inversion H; subst. exists s', []. rewrite app_nil_r. repeat split; reflexivity.
  - inversion H; subst. exists s', []. rewrite app_nil_r. repeat split; reflexivity.
Qed.

Lemma firstn_map_app {A B} (g : A -> B) (l1 l2 : list A) n :
  n = length l1 -> map g (firstn n (l1 ++ l2)) = map g l1.
Proof. intros ->. rewrite firstn_app, Nat.sub_diag, firstn_all. cbn [firstn]. rewrite app_nil_r. reflexivity. Qed.

(* any edit sequence, by induction over the operation list of the left fold *)
Theorem edits_stable : forall ops rs s rs' s',
  fold_left spec_step ops (Some (rs, s)) = Some (rs', s') ->
  exists s1 added,
    s' = s1 ++ added /\ length s1 = length s
    /\ map s_name s1 = map s_name s
    /\ (forallb (fun o => negb (is_modify o)) ops = true -> map s_data s1 = map s_data s)
    /\ (forallb (fun o => negb (is_delete o)) ops = true -> map s_alive s1 = map s_alive s).
Proof.
  induction ops as [|o ops IH]; intros rs s rs' s' H.
  - cbn in H. inversion H; subst. exists s', []. rewrite app_nil_r. repeat split; reflexivity.
  - cbn [fold_left spec_step] in H.
    destruct (spec_op o s) as [[r sa]|] eqn:E.
    2:{ assert (F : forall l, fold_left spec_step l None = None) by (induction l; [reflexivity|assumption]).
        rewrite F in H. discriminate. }
    destruct (spec_op_stable _ _ _ _ E) as (a1 & aadd & A1 & A2 & A3 & A4 & A5 & _).
    destruct (IH _ _ _ _ H) as (b1 & badd & B1 & B2 & B3 & B4 & B5).
    exists (firstn (length s) b1), (skipn (length s) b1 ++ badd).
    assert (Hlen : (length s <= length b1)%nat) by (rewrite B2, A1, app_length; lia).
    repeat split.
    + rewrite app_assoc, firstn_skipn. exact B1.
    + apply firstn_length_le. exact Hlen.
    + rewrite <- firstn_map, B3, A1. rewrite firstn_map, (firstn_map_app s_name a1 aadd) by (symmetry; exact A2). exact A3.
    + cbn [forallb]. intros Hm. apply andb_true_iff in Hm. destruct Hm as [Hm1 Hm2].
      rewrite <- firstn_map, (B4 Hm2), A1, firstn_map, (firstn_map_app s_data a1 aadd) by (symmetry; exact A2).
      apply A4. destruct (is_modify o); [discriminate|reflexivity].
    + cbn [forallb]. intros Hm. apply andb_true_iff in Hm. destruct Hm as [Hm1 Hm2].
      rewrite <- firstn_map, (B5 Hm2), A1, firstn_map, (firstn_map_app s_alive a1 aadd) by (symmetry; exact A2).
      apply A5. destruct (is_delete o); [discriminate|reflexivity].
Qed.

(* the same on the vectors of the model: names and relative order.  After any edit sequence the emitted list is
   [view (s1 ++ added)] where s1 has exactly the names of the sections present before, in the same order
   (each either still live or deleted), and everything added comes after them. *)
Theorem edits_preserve_names_and_order ops l rs l' :
  run_ops ops l = Some (rs, l') ->
  exists s1 added,
    emit_customs l' = view s1 ++ view added
    /\ map s_name s1 = map fst l
    /\ (forallb (fun o => negb (is_modify o)) ops = true -> map s_data s1 = map snd l)
    /\ (forallb (fun o => negb (is_delete o)) ops = true -> forallb s_alive s1 = true).
Proof.
  rewrite model_is_view_of_slots. unfold spec_run.
  destruct (fold_left spec_step ops _) as [[rs1 s']|] eqn:E; [|discriminate].
  intros H. inversion H; subst.
  destruct (edits_stable _ _ _ _ _ E) as (s1 & added & S1 & S2 & S3 & S4 & S5).
  exists s1, added. rewrite S1, view_app. unfold emit_customs.
  rewrite map_map in S3. cbn [s_name] in S3.
  repeat split.
  - rewrite S3. apply map_ext. intros [n d]. reflexivity.
  - intros Hm. rewrite (S4 Hm), map_map. apply map_ext. intros [n d]. reflexivity.
  - intros Hd. specialize (S5 Hd). rewrite map_map in S5. cbn [s_alive] in S5.
    clear - S5. revert S5. generalize l. induction s1 as [|x t IH]; intros [|p q] Hq; try discriminate; [reflexivity|].
    cbn in Hq. injection Hq as H0 H1. cbn [forallb]. rewrite H0. apply (IH q). exact H1.
Qed.

(* ---------------------------------------------------------------------------------------- *)
(* D. the model satisfies the executable specification; checker soundness; the former D09 witness *)

Lemma csec_eqb_refl x : csec_eqb x x = true.
Proof. unfold csec_eqb. rewrite !N.eqb_refl. reflexivity. Qed.
Lemma csec_eqb_eq x y : csec_eqb x y = true -> x = y.
Proof.
  destruct x, y. unfold csec_eqb. cbn [fst snd]. intros H. apply andb_true_iff in H. destruct H as [H1 H2].
  apply N.eqb_eq in H1, H2. subst. reflexivity.
Qed.
Lemma obs28_eqb_eq a b : obs28_eqb a b = true -> a = b.
Proof.
  destruct a as [[[[[s1 r1] o1] x1] y1] t1], b as [[[[[s2 r2] o2] x2] y2] t2]. unfold obs28_eqb.
  rewrite !andb_true_iff. intros [[[[[H1 H2] H3] H4] H5] H6].
  apply N.eqb_eq in H1, H4, H5. apply (list_eqb_eq _ (list_eqb_eq _ Neqb_eq)) in H2.
  apply (list_eqb_eq _ csec_eqb_eq) in H3. apply booleqb_eq in H6. subst. reflexivity.
Qed.

Theorem model_meets_spec c :
  domain28 c = true -> holds_on c (model c) = true.
Proof.
  unfold domain28. intros Hd.
  apply andb_true_iff in Hd. destruct Hd as [Hd Hrun]. apply andb_true_iff in Hd. destruct Hd as [Hw _].
  unfold model. rewrite (parse_then_emit _ Hw), model_is_view_of_slots.
  unfold holds_on.
  destruct (spec_run (cc_ops c) (spec_customs (cc_layout c))) as [[rs s]|]; [|discriminate].
  unfold emit_customs. rewrite !N.eqb_refl.
  rewrite (list_eqb_refl _ (list_eqb_refl _ N.eqb_refl)), (list_eqb_refl _ csec_eqb_refl). reflexivity.
Qed.

Theorem checker28_sound c :
  agree c = true -> domain28 c = true -> holds28 c = true.
Proof.
  intros Ha Hd. unfold agree in Ha. apply obs28_eqb_eq in Ha.
  unfold holds28. rewrite <- Ha. apply model_meets_spec; assumption.
Qed.

(* the former D09 witness -- a valid module with a zero-field producers section -- now satisfies the property: the
   section is preserved *)
Theorem former_D09_witness_holds :
  exists c, cc_layout c = [IStd 1 0; ICustom 2 0 CPlain; ICustom PRODUCERS 1 (CProd 1)]
            /\ agree c = true /\ domain28 c = true /\ holds28 c = true.
Proof.
  exists (mkCC [IStd 1 0; ICustom 2 0 CPlain; ICustom PRODUCERS 1 (CProd 1)] [] 1 0 [] [(2, 0); (PRODUCERS, 1)] 1 1 true).
  vm_compute. repeat split; reflexivity.
Qed.
