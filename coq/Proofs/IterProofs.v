(* Iterator engine, proofs (all inputs, no size bound):
     ci_run_exact : outside the input classes D12 / D13 the model of the ComponentIterator script yields
                    exactly the specified event list;
     mi_is_ci     : the ModuleIterator model is the ComponentIterator model on a one-module component;
     mi_run_exact : hence the same for the ModuleIterator outside D12;
     checker soundness for C25 / C26 and vm_compute refutations for every shape of D12 / D13. *)
From Coq Require Import List NArith Bool Lia Arith.
Import ListNotations.
From Orca Require Import Util Iter CheckIter.
Local Open Scope N_scope.

(* ------------------------------------------------------------------------------------------ *)
(* small facts *)

Lemma memN_skipped : forall x l, memN x l = skipped l x.
Proof.
  intros x l. unfold memN, skipped. induction l as [|a l IH]; cbn [existsb]; [reflexivity|].
  rewrite IH, (N.eqb_sym x a). reflexivity.
Qed.

Lemma ev_eqb_eq : forall a b, ev_eqb a b = true <-> a = b.
Proof.
  intros a b; split.
  - destruct a, b; cbn [ev_eqb]; try discriminate; try reflexivity.
    rewrite !andb_true_iff. intros [[[[H1 H2] H3] H4] H5].
    apply N.eqb_eq in H1, H2, H3. apply Bool.eqb_prop in H4, H5. subst. reflexivity.
  - intros <-. destruct a; cbn [ev_eqb]; try reflexivity.
    rewrite !N.eqb_refl, !Bool.eqb_reflx. reflexivity.
Qed.
Lemma evs_eqb_eq : forall a b, evs_eqb a b = true <-> a = b.
Proof.
  induction a as [|x a IH]; destruct b as [|y b]; cbn [evs_eqb]; split; try discriminate; try reflexivity.
  - rewrite andb_true_iff. intros [H1 H2]. apply ev_eqb_eq in H1. apply IH in H2. subst. reflexivity.
  - intros H. injection H as -> ->. rewrite andb_true_iff. split; [apply ev_eqb_eq|apply IH]; reflexivity.
Qed.

Lemma nlist_eqb_eq : forall a b, nlist_eqb a b = true -> a = b.
Proof.
  induction a as [|x a IH]; destruct b as [|y b]; cbn [nlist_eqb]; try discriminate; try reflexivity.
  rewrite andb_true_iff. intros [H1 H2]. apply N.eqb_eq in H1. apply IH in H2. subst. reflexivity.
Qed.

Lemma skipn_cons_inv : forall {A} i (l : list A) x r,
  skipn i l = x :: r -> nth_error l i = Some x /\ skipn (S i) l = r /\ length l = (i + S (length r))%nat.
Proof.
  induction i as [|i IH]; intros l x r H.
  - cbn [skipn] in H. subst l. cbn. auto.
  - destruct l as [|a l]; [discriminate|]. cbn [skipn] in H. destruct (IH _ _ _ H) as (H1 & H2 & H3).
    cbn [nth_error length]. repeat split; try assumption. lia.
Qed.
Lemma skipn_nil_inv : forall {A} i (l : list A), skipn i l = [] -> (length l <= i)%nat.
Proof.
  induction i as [|i IH]; intros l H.
  - cbn in H. subst. cbn. lia.
  - destruct l; cbn [length]; [lia|]. cbn [skipn] in H. apply IH in H. lia.
Qed.
Lemma skipn_hd_nth : forall {A} n (l : list A) d, hd d (skipn n l) = nth n l d.
Proof. induction n; destruct l; cbn; auto. Qed.
Lemma skipn_tl : forall {A} n (l : list A), tl (skipn n l) = skipn (S n) l.
Proof. induction n; destruct l; cbn [skipn tl]; auto. rewrite IHn. reflexivity. Qed.
Lemma skipn_last : forall {A} n (l : list A) x r d, skipn n l = x :: r -> last l d = last (x :: r) d.
Proof.
  induction n as [|n IH]; intros l x r d H.
  - cbn in H. subst. reflexivity.
  - destruct l as [|a l]; [discriminate|]. cbn [skipn] in H. rewrite <- (IH _ _ _ d H).
    destruct l; [destruct n; discriminate|reflexivity].
Qed.

(* ------------------------------------------------------------------------------------------ *)
(* skipping *)

Fixpoint drop_skipped (skip : list N) (l : meta) : meta :=
  match l with
  | [] => []
  | (f, n) :: l' => if memN f skip then drop_skipped skip l' else l
  end.

Lemma skip_from_spec : forall skip l idx (mt : meta),
  skipn idx mt = l -> skipn (skip_from skip l idx) mt = drop_skipped skip l.
Proof.
  induction l as [|[f n] l IH]; intros idx mt H; cbn [skip_from drop_skipped].
  - exact H.
  - destruct (memN f skip); [|exact H].
    apply IH. apply skipn_cons_inv in H. tauto.
Qed.

Lemma drop_skipped_head : forall skip l f n r, drop_skipped skip l = (f, n) :: r ->
  memN f skip = false /\ (length r < length l)%nat.
Proof.
  induction l as [|[g m] l IH]; intros f n r H; cbn [drop_skipped] in H; [discriminate|].
  destruct (memN g skip) eqn:E.
  - destruct (IH _ _ _ H). cbn [length]. split; [assumption|lia].
  - injection H as -> -> ->. cbn [length]. split; [assumption|lia].
Qed.

Lemma expected_drop : forall m skip l, expected_mod m l skip = expected_mod m (drop_skipped skip l) skip.
Proof.
  intros m skip. unfold expected_mod. induction l as [|[f n] l IH]; cbn [drop_skipped]; [reflexivity|].
  destruct (memN f skip) eqn:E; [|reflexivity].
  cbn [filter fst]. rewrite <- memN_skipped, E. cbn [negb]. exact IH.
Qed.
Lemma expected_cons_unskipped : forall m skip f n l, memN f skip = false ->
  expected_mod m ((f, n) :: l) skip = func_visits m (f, n) ++ expected_mod m l skip.
Proof.
  intros. unfold expected_mod. cbn [filter fst]. rewrite <- memN_skipped, H. cbn [negb flat_map]. reflexivity.
Qed.
Lemma expected_all_skipped : forall m skip l, drop_skipped skip l = [] -> expected_mod m l skip = [].
Proof. intros. rewrite expected_drop, H. reflexivity. Qed.

Lemma drop_skipped_find : forall skip l,
  find (fun fn => negb (skipped skip (fst fn))) l = hd_error (drop_skipped skip l).
Proof.
  induction l as [|[f n] l IH]; cbn [find drop_skipped fst]; [reflexivity|].
  rewrite <- memN_skipped. destruct (memN f skip); cbn [negb]; [exact IH|reflexivity].
Qed.

Lemma drop_skipped_nil_last : forall skip l, l <> [] -> drop_skipped skip l = [] ->
  skipped skip (fst (last l (0, 0))) = true.
Proof.
  induction l as [|[f n] l IH]; intros Hne H; [congruence|].
  cbn [drop_skipped] in H. destruct (memN f skip) eqn:E; [|discriminate].
  destruct l as [|b l].
  - cbn [last fst]. rewrite <- memN_skipped. exact E.
  - change (last ((f, n) :: b :: l) (0, 0)) with (last (b :: l) (0, 0)). apply IH; [discriminate|exact H].
Qed.

(* ------------------------------------------------------------------------------------------ *)
(* the specification: shape of one function's visits *)

Fixpoint pre (m f : N) (d : nat) (i : N) : list ev :=
  match d with O => [] | S d' => V m f i false true :: pre m f d' (i + 1) end.

Lemma instrs_split : forall m f d i, instrs m f (S d) i = pre m f d i ++ [V m f (i + N.of_nat d) true true].
Proof.
  induction d as [|d IH]; intros i.
  - cbn. rewrite N.add_0_r. reflexivity.
  - change (instrs m f (S (S d)) i) with (V m f i false true :: instrs m f (S d) (i + 1)).
    rewrite IH. cbn [pre app]. replace (i + 1 + N.of_nat d) with (i + N.of_nat (S d)) by lia. reflexivity.
Qed.
Lemma pre_length : forall m f d i, length (pre m f d i) = d.
Proof. induction d; intros; cbn [pre length]; auto. Qed.

Lemma func_visits_split : forall m f n, 1 <= n ->
  func_visits m (f, n) = pre m f (N.to_nat (n - 1)) 0 ++ [V m f (n - 1) true true].
Proof.
  intros. unfold func_visits. cbn [fst snd].
  replace (N.to_nat n) with (S (N.to_nat (n - 1))) by lia.
  rewrite instrs_split. replace (0 + N.of_nat (N.to_nat (n - 1))) with (n - 1) by lia. reflexivity.
Qed.

(* ------------------------------------------------------------------------------------------ *)
(* body_len under ascending ids *)

Lemma ascending_head : forall a l, ascending (a :: l) = true -> Forall (fun b => a < b) l.
Proof.
  intros a l. revert a. induction l as [|b l IH]; intros a H; [constructor|].
  cbn [ascending] in H. apply andb_true_iff in H. destruct H as [H1 H2]. apply N.ltb_lt in H1.
  constructor; [assumption|]. specialize (IH _ H2).
  eapply Forall_impl; [|exact IH]. cbn. intros; lia.
Qed.
Lemma ascending_tail : forall a l, ascending (a :: l) = true -> ascending l = true.
Proof. intros a [|b l] H; [reflexivity|]. cbn [ascending] in H. apply andb_true_iff in H. tauto. Qed.

Lemma body_len_nth : forall (mt : meta) idx f n, ascending (map fst mt) = true ->
  nth_error mt idx = Some (f, n) -> body_len mt f = Some n.
Proof.
  unfold body_len. induction mt as [|[g k] mt IH]; intros idx f n Ha Hn; [destruct idx; discriminate|].
  destruct idx as [|idx].
  - injection Hn as -> ->. cbn [find fst]. rewrite N.eqb_refl. reflexivity.
  - cbn [nth_error] in Hn. cbn [map fst] in Ha. cbn [find fst].
    assert (g < f) as Hlt.
    { pose proof (ascending_head _ _ Ha) as HF. rewrite Forall_forall in HF. apply HF.
      apply in_map_iff. exists (f, n). split; [reflexivity|]. eapply nth_error_In; eassumption. }
    replace (g =? f) with false by (symmetry; apply N.eqb_neq; lia).
    eapply IH; [eapply ascending_tail; eassumption|eassumption].
Qed.

(* ------------------------------------------------------------------------------------------ *)
(* generic facts about the script *)

Section Walk.
  Context {S : Type} (M : mach S).

  Lemma walk_more : forall fuel s v s', k_op M s = Ok true -> k_loc M s = Ok v -> k_next M s = Ok (s', true) ->
    walk M (Datatypes.S fuel) None s = (ev_of v :: fst (walk M fuel None s'), snd (walk M fuel None s')).
  Proof. intros * H1 H2 H3. cbn [walk]. rewrite H1, H2, H3. cbn [lim_pred]. destruct (walk M fuel None s'). reflexivity. Qed.

  Lemma walk_end : forall fuel s v s', k_op M s = Ok true -> k_loc M s = Ok v -> k_next M s = Ok (s', false) ->
    walk M (Datatypes.S fuel) None s = ([ev_of v], WEnd s').
  Proof. intros * H1 H2 H3. cbn [walk]. rewrite H1, H2, H3. reflexivity. Qed.

  (* a traversal limited to k next() calls yields the first k+1 events of the unlimited one *)
  Lemma walk_lim : forall fuel k s E sf, walk M fuel None s = (E, WEnd sf) ->
    exists w, walk M fuel (Some k) s = (firstn (Datatypes.S k) E, w)
              /\ match w with WStopped _ | WEnd _ => True | _ => False end.
  Proof.
    induction fuel as [|fuel IH]; intros k s E sf H; [discriminate|].
    cbn [walk] in *. destruct (k_op M s) as [[|]|]; try discriminate.
    2:{ injection H; intros; subst. eexists. split; [reflexivity|exact I]. }
    destruct (k_loc M s) as [v|]; [|discriminate].
    destruct (k_next M s) as [[s' [|]]|] eqn:En; try discriminate.
    - cbn [lim_pred] in H. destruct (walk M fuel None s') as [t w] eqn:Ew. injection H; intros; subst.
      destruct k as [|k].
      + eexists. split; [reflexivity|exact I].
      + destruct (IH k _ _ _ Ew) as (w' & Hw & Hok). cbn [lim_pred pred]. rewrite Hw.
        eexists. split; [reflexivity|exact Hok].
    - injection H; intros; subst. destruct k as [|k].
      + eexists. split; [reflexivity|exact I].
      + eexists. split; [reflexivity|exact I].
  Qed.

  (* an invariant of next() holds in the state where a traversal stops *)
  Lemma walk_inv : forall (Inv : S -> Prop),
    (forall s s' b, Inv s -> k_next M s = Ok (s', b) -> Inv s') ->
    forall fuel lim s t w, Inv s -> walk M fuel lim s = (t, w) ->
    match w with WStopped s' | WEnd s' => Inv s' | _ => True end.
  Proof.
    intros Inv Hstep. induction fuel as [|fuel IH]; intros lim s t w Hs H.
    - cbn in H. injection H; intros; subst. exact I.
    - cbn [walk] in H. destruct (k_op M s) as [[|]|].
      2:{ injection H; intros; subst. exact Hs. }
      2:{ injection H; intros; subst. exact I. }
      destruct (k_loc M s) as [v|]; [|injection H; intros; subst; exact I].
      assert (match k_next M s with
              | Panic => ([ev_of v; EPanic], WPanic)
              | Ok (s', false) => ([ev_of v], WEnd s')
              | Ok (s', true) => let '(t, w) := walk M fuel (lim_pred lim) s' in (ev_of v :: t, w)
              end = (t, w) -> match w with WStopped s' | WEnd s' => Inv s' | _ => True end) as Hgo.
      { destruct (k_next M s) as [[s' [|]]|] eqn:En.
        - destruct (walk M fuel (lim_pred lim) s') as [t' w'] eqn:Ew. intros H'. injection H'; intros; subst.
          eapply IH; [|exact Ew]. eapply Hstep; eassumption.
        - intros H'. injection H'; intros; subst. eapply Hstep; eassumption.
        - intros H'. injection H'; intros; subst. exact I. }
      destruct lim as [[|k]|]; [injection H; intros; subst; exact Hs|exact (Hgo H)|exact (Hgo H)].
  Qed.
End Walk.

(* ------------------------------------------------------------------------------------------ *)
(* steps of the ModuleSubIterator *)

Ltac prj := cbn [m_idx m_meta m_fi m_skip f_cur f_num c_mod c_num c_it c_metas c_skips k_op k_loc k_next k_reset] in *.

Lemma f_has_next_true : forall c n, c + 1 < n -> f_has_next (mkF c n) = true.
Proof. intros. unfold f_has_next. prj. apply N.ltb_lt. assumption. Qed.
Lemma f_has_next_false : forall c n, n <= c + 1 -> f_has_next (mkF c n) = false.
Proof. intros. unfold f_has_next. prj. apply N.ltb_ge. assumption. Qed.

Lemma m_next_in : forall idx mt c n skip, c + 1 < n ->
  m_next (mkM idx mt (mkF c n) skip) = Ok (mkM idx mt (mkF (c + 1) n) skip, true).
Proof.
  intros. unfold m_next, f_next. prj. rewrite (f_has_next_true _ _ H). prj. reflexivity.
Qed.

(* next() on the last instruction of a function *)
Lemma m_next_fend : forall idx mt c n skip fn post, skipn idx mt = fn :: post -> n <= c + 1 ->
  m_next (mkM idx mt (mkF c n) skip) =
  match post with
  | [] => Ok (mkM idx mt (mkF c n) skip, false)
  | _ => match drop_skipped skip post with
         | (_, n') :: _ => Ok (mkM (skip_from skip post (S idx)) mt (mkF 0 n') skip, true)
         | [] => Ok (mkM (skip_from skip post (S idx)) mt (mkF c n) skip, false)
         end
  end.
Proof.
  intros * Hs Hc. unfold m_next. prj. rewrite (f_has_next_false _ _ Hc).
  destruct (skipn_cons_inv _ _ _ _ Hs) as (Hn & Hs' & Hl).
  unfold m_next_function, m_has_next_function. prj.
  destruct post as [|p post'].
  - assert (Nat.ltb (S idx) (length mt) = false) as -> by (apply Nat.ltb_ge; cbn [length] in Hl; lia). reflexivity.
  - assert (Nat.ltb (S idx) (length mt) = true) as -> by (apply Nat.ltb_lt; cbn [length] in Hl; lia). cbn [negb].
    unfold handle_skips. prj. rewrite Hs'. prj.
    pose proof (skip_from_spec skip (p :: post') (S idx) mt Hs') as Hd.
    set (idx' := skip_from skip (p :: post') (S idx)) in *.
    destruct (drop_skipped skip (p :: post')) as [|[f' n'] r] eqn:Ed.
    + apply skipn_nil_inv in Hd.
      assert (Nat.ltb idx' (length mt) = false) as -> by (apply Nat.ltb_ge; lia). reflexivity.
    + destruct (skipn_cons_inv _ _ _ _ Hd) as (Hn' & _ & Hl').
      assert (Nat.ltb idx' (length mt) = true) as -> by (apply Nat.ltb_lt; lia).
      unfold get_curr_func. prj. rewrite Hn'. reflexivity.
Qed.

Lemma m_has_next_fend : forall idx mt c n skip fn post, skipn idx mt = fn :: post -> n <= c + 1 ->
  m_has_next (mkM idx mt (mkF c n) skip) = negb (nilb post).
Proof.
  intros * Hs Hc. unfold m_has_next, m_has_next_function. prj. rewrite (f_has_next_false _ _ Hc). cbn [orb].
  destruct (skipn_cons_inv _ _ _ _ Hs) as (_ & _ & Hl). rewrite Hl.
  destruct post; cbn [nilb negb length]; [apply Nat.ltb_ge|apply Nat.ltb_lt]; lia.
Qed.

(* new() outside D12: the cursor is on the first unskipped function, with that function's length *)
Lemma m_new_ok : forall mt skip, d12_mod mt skip = false ->
  exists idx f n post, m_new mt skip = Ok (mkM idx mt (mkF 0 n) skip)
                       /\ skipn idx mt = (f, n) :: post /\ drop_skipped skip mt = (f, n) :: post.
Proof.
  intros mt skip H. unfold d12_mod in H. destruct mt as [|[f0 n0] mt']; [discriminate|].
  rewrite drop_skipped_find in H.
  destruct (drop_skipped skip ((f0, n0) :: mt')) as [|[f n] post] eqn:Ed; cbn [hd_error] in H; [discriminate|].
  apply negb_false_iff, N.eqb_eq in H. subst n0.
  exists (skip_from skip ((f0, n) :: mt') 0), f, n, post.
  pose proof (skip_from_spec skip ((f0, n) :: mt') 0 ((f0, n) :: mt') eq_refl) as Hd. rewrite Ed in Hd.
  split; [|split; [exact Hd|reflexivity]].
  unfold m_new, handle_skips, f_new. prj. cbn [skipn]. reflexivity.
Qed.

(* reset() outside D12 gives the state new() gives *)
Lemma m_reset_new : forall i mt fi skip, d12_mod mt skip = false ->
  m_reset (mkM i mt fi skip) = m_new mt skip.
Proof.
  intros i mt fi skip H. destruct (m_new_ok _ _ H) as (idx & f & n & post & Hn & Hs & Hd). rewrite Hn.
  unfold m_new in Hn. destruct mt as [|[f0 n0] mt']; [discriminate|].
  unfold m_reset, handle_skips in *. prj. cbn [skipn] in *.
  remember (skip_from skip ((f0, n0) :: mt') 0) as j eqn:Ej.
  assert (j = idx) as -> by congruence.
  unfold get_curr_func. prj. destruct (skipn_cons_inv _ _ _ _ Hs) as (Hnth & _ & _). rewrite Hnth. reflexivity.
Qed.

Lemma m_next_keeps : forall s s' b, m_next s = Ok (s', b) -> m_meta s' = m_meta s /\ m_skip s' = m_skip s.
Proof.
  intros s s' b H. unfold m_next in H. destruct (f_has_next (m_fi s)).
  - destruct (f_next (m_fi s)). injection H; intros; subst. prj. auto.
  - unfold m_next_function in H. destruct (negb (m_has_next_function s)); [injection H; intros; subst; auto|].
    unfold handle_skips in H. prj. destruct (skipn (S (m_idx s)) (m_meta s)); [discriminate|].
    match type of H with context [Nat.ltb ?a ?b] => destruct (Nat.ltb a b) end.
    + unfold get_curr_func in H. prj. match type of H with context [nth_error ?a ?b] => destruct (nth_error a b) as [[? ?]|] end;
        [|discriminate]. injection H; intros; subst. prj. auto.
    + injection H; intros; subst. prj. auto.
Qed.
Lemma m_new_keeps : forall mt skip s, m_new mt skip = Ok s -> m_meta s = mt /\ m_skip s = skip.
Proof.
  intros mt skip s H. unfold m_new in H. destruct mt as [|[f0 n0] mt']; [discriminate|].
  unfold handle_skips in H. prj. cbn [skipn] in H. injection H; intros; subst. prj. auto.
Qed.

Lemma wf_meta_nth : forall mt i f n, wf_meta mt = true -> nth_error mt i = Some (f, n) -> 1 <= n.
Proof.
  intros mt i f n H Hn. unfold wf_meta in H. apply andb_true_iff in H. destruct H as [H _].
  rewrite forallb_forall in H. apply nth_error_In in Hn. specialize (H _ Hn). cbn [snd] in H.
  apply N.leb_le in H. exact H.
Qed.
Lemma wf_meta_asc : forall mt, wf_meta mt = true -> ascending (map fst mt) = true.
Proof. intros mt H. unfold wf_meta in H. apply andb_true_iff in H. tauto. Qed.

(* ------------------------------------------------------------------------------------------ *)
(* the ComponentIterator on a fixed component *)

Section Comp.
  Variable metas : list meta.
  Variable skips : list (list N).

  Definition cst (cm idx : nat) (mt : meta) (c n : N) (skip : list N) : csub :=
    mkC cm (length metas) (mkM idx mt (mkF c n) skip) metas skips.

  Lemma ci_op_loc : forall cm idx mt c n skip f post,
    nth_error metas cm = Some mt -> ascending (map fst mt) = true -> skipn idx mt = (f, n) :: post -> c < n ->
    ci_curr_op (cst cm idx mt c n skip) = Ok true
    /\ c_curr_loc (cst cm idx mt c n skip) = Ok (N.of_nat cm, f, c, n <=? c + 1).
  Proof.
    intros * Hm Ha Hs Hc.
    assert (cm < length metas)%nat as Hlt by (apply nth_error_Some; congruence).
    destruct (skipn_cons_inv _ _ _ _ Hs) as (Hn & _ & _).
    assert (c_curr_loc (cst cm idx mt c n skip) = Ok (N.of_nat cm, f, c, n <=? c + 1)) as Hloc.
    { unfold c_curr_loc, m_curr_loc, get_curr_func, cst, f_is_end. prj. rewrite Hn. reflexivity. }
    split; [|exact Hloc].
    unfold ci_curr_op. rewrite Hloc. unfold c_end, cst. prj.
    assert (Nat.eqb cm (length metas) = false) as -> by (apply Nat.eqb_neq; lia).
    rewrite Hm, (body_len_nth _ _ _ _ Ha Hn).
    assert (c <? n = true) as -> by (apply N.ltb_lt; exact Hc). reflexivity.
  Qed.

  Lemma ci_next_in : forall cm idx mt c n skip f post,
    nth_error metas cm = Some mt -> ascending (map fst mt) = true -> skipn idx mt = (f, n) :: post -> c + 1 < n ->
    ci_next (cst cm idx mt c n skip) = Ok (cst cm idx mt (c + 1) n skip, true).
  Proof.
    intros * Hm Ha Hs Hc. unfold ci_next, c_next, cst. prj.
    unfold m_has_next. prj. rewrite (f_has_next_true _ _ Hc). cbn [orb].
    rewrite (m_next_in _ _ _ _ _ Hc).
    change (mkC cm (length metas) (mkM idx mt (mkF (c + 1) n) skip) metas skips) with (cst cm idx mt (c + 1) n skip).
    destruct (ci_op_loc cm idx mt (c + 1) n skip f post Hm Ha Hs Hc) as [-> _]. reflexivity.
  Qed.

  (* d steps inside a function *)
  Lemma walk_pre : forall cm idx mt n skip f post,
    nth_error metas cm = Some mt -> ascending (map fst mt) = true -> skipn idx mt = (f, n) :: post ->
    forall d c fuel, c + N.of_nat d < n ->
    walk CI (d + fuel) None (cst cm idx mt c n skip)
    = (pre (N.of_nat cm) f d c ++ fst (walk CI fuel None (cst cm idx mt (c + N.of_nat d) n skip)),
       snd (walk CI fuel None (cst cm idx mt (c + N.of_nat d) n skip))).
  Proof.
    intros * Hm Ha Hs. induction d as [|d IH]; intros c fuel Hc.
    - cbn [Nat.add pre app N.of_nat]. rewrite N.add_0_r. destruct (walk CI fuel None (cst cm idx mt c n skip)). reflexivity.
    - assert (c + 1 < n) as Hc1 by lia.
      destruct (ci_op_loc cm idx mt c n skip f post Hm Ha Hs ltac:(lia)) as [Hop Hloc].
      change (S d + fuel)%nat with (S (d + fuel)).
      rewrite (walk_more CI (d + fuel) _ _ _ Hop Hloc (ci_next_in _ _ _ _ _ _ _ _ Hm Ha Hs Hc1)).
      rewrite IH by lia. cbn [fst snd ev_of pre app].
      assert (n <=? c + 1 = false) as -> by (apply N.leb_gt; lia).
      replace (c + 1 + N.of_nat d) with (c + N.of_nat (S d)) by lia. reflexivity.
  Qed.

  (* next() on the last instruction of a function that is followed by an unskipped function *)
  Lemma ci_next_fnext : forall cm idx mt c n skip f post f' n' post'',
    nth_error metas cm = Some mt -> wf_meta mt = true -> skipn idx mt = (f, n) :: post -> n <= c + 1 ->
    drop_skipped skip post = (f', n') :: post'' ->
    exists idx', skipn idx' mt = (f', n') :: post''
                 /\ ci_next (cst cm idx mt c n skip) = Ok (cst cm idx' mt 0 n' skip, true).
  Proof.
    intros * Hm Hwf Hs Hc Ed.
    destruct (skipn_cons_inv _ _ _ _ Hs) as (_ & Hs' & _).
    pose proof (skip_from_spec skip post (S idx) mt Hs') as Hd. rewrite Ed in Hd.
    exists (skip_from skip post (S idx)). split; [exact Hd|].
    unfold ci_next, c_next, cst. prj.
    rewrite (m_has_next_fend _ _ _ _ _ _ _ Hs Hc), (m_next_fend _ _ _ _ _ _ _ Hs Hc).
    destruct post as [|p post']; [discriminate|]. cbn [nilb negb]. rewrite Ed.
    change (mkC cm (length metas) (mkM (skip_from skip (p :: post') (S idx)) mt (mkF 0 n') skip) metas skips)
      with (cst cm (skip_from skip (p :: post') (S idx)) mt 0 n' skip).
    destruct (skipn_cons_inv _ _ _ _ Hd) as (Hn' & _ & _).
    pose proof (wf_meta_nth _ _ _ _ Hwf Hn') as H1.
    destruct (ci_op_loc cm _ mt 0 n' skip f' post'' Hm (wf_meta_asc _ Hwf) Hd ltac:(lia)) as [-> _]. reflexivity.
  Qed.

  (* ... followed only by skipped functions: next() returns false although the module cursor had "more" *)
  Lemma ci_next_tailskip : forall cm idx mt c n skip fn post,
    skipn idx mt = fn :: post -> n <= c + 1 -> post <> [] -> drop_skipped skip post = [] ->
    ci_next (cst cm idx mt c n skip)
    = Ok (mkC cm (length metas) (mkM (skip_from skip post (S idx)) mt (mkF c n) skip) metas skips, false).
  Proof.
    intros * Hs Hc Hne Ed. unfold ci_next, c_next, cst. prj.
    rewrite (m_has_next_fend _ _ _ _ _ _ _ Hs Hc), (m_next_fend _ _ _ _ _ _ _ Hs Hc).
    destruct post as [|p post']; [congruence|]. cbn [nilb negb]. rewrite Ed. reflexivity.
  Qed.

  (* ... that is the last function of the last module *)
  Lemma ci_next_last : forall cm idx mt c n skip fn,
    skipn idx mt = [fn] -> n <= c + 1 -> length metas = S cm ->
    ci_next (cst cm idx mt c n skip)
    = Ok (mkC (S cm) (length metas) (mkM idx mt (mkF c n) skip) metas skips, false).
  Proof.
    intros * Hs Hc Hl. unfold ci_next, c_next, cst. prj.
    rewrite (m_has_next_fend _ _ _ _ _ _ _ Hs Hc). cbn [nilb negb].
    unfold c_next_module. prj.
    assert (Nat.ltb (S cm) (length metas) = false) as -> by (apply Nat.ltb_ge; lia). reflexivity.
  Qed.

  (* ... that is the last function of a module followed by a module outside D12 *)
  Lemma ci_next_module : forall cm idx mt c n skip fn mt',
    skipn idx mt = [fn] -> n <= c + 1 -> nth_error metas (S cm) = Some mt' -> wf_meta mt' = true ->
    d12_mod mt' (nth (S cm) skips []) = false ->
    exists it', m_new mt' (nth (S cm) skips []) = Ok it'
                /\ ci_next (cst cm idx mt c n skip) = Ok (mkC (S cm) (length metas) it' metas skips, true).
  Proof.
    intros * Hs Hc Hm' Hwf Hd.
    destruct (m_new_ok _ _ Hd) as (idx' & f' & n' & post' & Hnew & Hs' & _).
    eexists. split; [exact Hnew|].
    unfold ci_next, c_next, cst. prj.
    rewrite (m_has_next_fend _ _ _ _ _ _ _ Hs Hc). cbn [nilb negb].
    unfold c_next_module. prj.
    assert (S cm < length metas)%nat as Hlt by (apply nth_error_Some; congruence).
    assert (Nat.ltb (S cm) (length metas) = true) as -> by (apply Nat.ltb_lt; exact Hlt).
    rewrite Hm', Hnew.
    change (mkC (S cm) (length metas) (mkM idx' mt' (mkF 0 n') (nth (S cm) skips [])) metas skips)
      with (cst (S cm) idx' mt' 0 n' (nth (S cm) skips [])).
    destruct (skipn_cons_inv _ _ _ _ Hs') as (Hn' & _ & _).
    pose proof (wf_meta_nth _ _ _ _ Hwf Hn') as H1.
    destruct (ci_op_loc (S cm) idx' mt' 0 n' (nth (S cm) skips []) f' post' Hm' (wf_meta_asc _ Hwf) Hs' ltac:(lia)) as [-> _]. reflexivity.
  Qed.

  (* from the first instruction of an unskipped function to the last instruction of the module's last
     unskipped function *)
  Lemma walk_funcs : forall cm mt skip, nth_error metas cm = Some mt -> wf_meta mt = true ->
    forall k post, (length post <= k)%nat -> forall idx f n, skipn idx mt = (f, n) :: post ->
    exists Epre idx_l f_l n_l post_l,
      skipn idx_l mt = (f_l, n_l) :: post_l /\ drop_skipped skip post_l = [] /\ 1 <= n_l
      /\ Epre ++ [V (N.of_nat cm) f_l (n_l - 1) true true]
         = func_visits (N.of_nat cm) (f, n) ++ expected_mod (N.of_nat cm) post skip
      /\ forall fuel, walk CI (length Epre + fuel) None (cst cm idx mt 0 n skip)
                      = (Epre ++ fst (walk CI fuel None (cst cm idx_l mt (n_l - 1) n_l skip)),
                         snd (walk CI fuel None (cst cm idx_l mt (n_l - 1) n_l skip))).
  Proof.
    intros cm mt skip Hm Hwf. pose proof (wf_meta_asc _ Hwf) as Ha.
    assert (forall post idx f n, skipn idx mt = (f, n) :: post -> drop_skipped skip post = [] ->
      exists Epre idx_l f_l n_l post_l,
      skipn idx_l mt = (f_l, n_l) :: post_l /\ drop_skipped skip post_l = [] /\ 1 <= n_l
      /\ Epre ++ [V (N.of_nat cm) f_l (n_l - 1) true true]
         = func_visits (N.of_nat cm) (f, n) ++ expected_mod (N.of_nat cm) post skip
      /\ forall fuel, walk CI (length Epre + fuel) None (cst cm idx mt 0 n skip)
                      = (Epre ++ fst (walk CI fuel None (cst cm idx_l mt (n_l - 1) n_l skip)),
                         snd (walk CI fuel None (cst cm idx_l mt (n_l - 1) n_l skip)))) as Hbase.
    { intros post idx f n Hs Ed.
      destruct (skipn_cons_inv _ _ _ _ Hs) as (Hn & _ & _). pose proof (wf_meta_nth _ _ _ _ Hwf Hn) as H1.
      exists (pre (N.of_nat cm) f (N.to_nat (n - 1)) 0), idx, f, n, post.
      split; [exact Hs|]. split; [exact Ed|]. split; [exact H1|]. split.
      - rewrite (func_visits_split _ _ _ H1), (expected_all_skipped _ _ _ Ed), app_nil_r. reflexivity.
      - intros fuel. rewrite pre_length.
        rewrite (walk_pre cm idx mt n skip f post Hm Ha Hs (N.to_nat (n - 1)) 0 fuel) by lia.
        replace (0 + N.of_nat (N.to_nat (n - 1))) with (n - 1) by lia. reflexivity. }
    induction k as [|k IH]; intros post Hlen idx f n Hs;
      destruct (drop_skipped skip post) as [|[f' n'] post''] eqn:Ed.
    - apply Hbase; assumption.
    - exfalso. destruct (drop_skipped_head _ _ _ _ _ Ed). lia.
    - apply Hbase; assumption.
    - destruct (drop_skipped_head _ _ _ _ _ Ed) as [Hf' Hlt].
      destruct (skipn_cons_inv _ _ _ _ Hs) as (Hn & _ & _). pose proof (wf_meta_nth _ _ _ _ Hwf Hn) as H1.
      destruct (ci_next_fnext cm idx mt (n - 1) n skip f post f' n' post'' Hm Hwf Hs ltac:(lia) Ed)
        as (idx' & Hs'' & Hnext).
      destruct (IH post'' ltac:(lia) idx' f' n' Hs'') as (Epre' & idx_l & f_l & n_l & post_l & Hsl & Edl & Hnl & Heq & Hwalk).
      exists (pre (N.of_nat cm) f (N.to_nat (n - 1)) 0 ++ V (N.of_nat cm) f (n - 1) true true :: Epre'), idx_l, f_l, n_l, post_l.
      split; [exact Hsl|]. split; [exact Edl|]. split; [exact Hnl|]. split.
      + rewrite (func_visits_split _ _ _ H1), (expected_drop _ skip post), Ed, (expected_cons_unskipped _ _ _ _ _ Hf'), <- Heq.
        rewrite <- !app_assoc. cbn [app]. reflexivity.
      + intros fuel. rewrite app_length, pre_length. cbn [length].
        replace (N.to_nat (n - 1) + S (length Epre') + fuel)%nat with (N.to_nat (n - 1) + S (length Epre' + fuel))%nat by lia.
        rewrite (walk_pre cm idx mt n skip f post Hm Ha Hs (N.to_nat (n - 1)) 0 _) by lia.
        replace (0 + N.of_nat (N.to_nat (n - 1))) with (n - 1) by lia.
        destruct (ci_op_loc cm idx mt (n - 1) n skip f post Hm Ha Hs ltac:(lia)) as [Hop Hloc].
        rewrite (walk_more CI _ _ _ _ Hop Hloc Hnext), Hwalk. cbn [fst snd ev_of].
        assert (n <=? n - 1 + 1 = true) as -> by (apply N.leb_le; lia).
        rewrite <- app_assoc. cbn [app]. reflexivity.
  Qed.

  (* what next() preserves; enough to bring reset() back to the initial state *)
  Definition Inv (s : csub) : Prop :=
    c_metas s = metas /\ c_skips s = skips /\ c_num s = length metas
    /\ exists j, (j < length metas)%nat /\ m_skip (c_it s) = nth j skips [].
  (* the state in which a full traversal ends *)
  Definition Fin (s : csub) : Prop :=
    Inv s /\ (last_skipped (last metas []) (nth (pred (length metas)) skips []) = false -> exists v, c_curr_loc s = Ok v).

  Lemma last_skipped_tail : forall mt skip idx fn p post, skipn idx mt = fn :: p :: post ->
    drop_skipped skip (p :: post) = [] -> last_skipped mt skip = true.
  Proof.
    intros * Hs Ed. unfold last_skipped. destruct mt as [|a mt']; [destruct idx; discriminate|].
    rewrite (skipn_last _ _ _ _ (0, 0) Hs).
    change (last (fn :: p :: post) (0, 0)) with (last (p :: post) (0, 0)).
    apply drop_skipped_nil_last; [discriminate|exact Ed].
  Qed.

  Lemma any_mod_cons : forall p mt r sk, any_mod p (mt :: r) sk = p mt (hd [] sk) || any_mod p r (tl sk).
  Proof. reflexivity. Qed.
  Lemma expected_comp_from_cons : forall m mt r sk,
    expected_comp_from m (mt :: r) sk = expected_mod m mt (hd [] sk) ++ expected_comp_from (m + 1) r (tl sk).
  Proof. reflexivity. Qed.

  Lemma walk_modules : forall rest cm mt, skipn cm metas = mt :: rest ->
    any_mod d12_mod (mt :: rest) (skipn cm skips) = false ->
    any_nonlast last_skipped (mt :: rest) (skipn cm skips) = false ->
    forallb wf_meta (mt :: rest) = true ->
    forall it, m_new mt (nth cm skips []) = Ok it ->
    forall fuel, exists sf,
      walk CI (length (expected_comp_from (N.of_nat cm) (mt :: rest) (skipn cm skips)) + fuel) None
           (mkC cm (length metas) it metas skips)
      = (expected_comp_from (N.of_nat cm) (mt :: rest) (skipn cm skips), WEnd sf) /\ Fin sf.
  Proof.
    induction rest as [|mt' rest IH]; intros cm mt Hsk Hd12 Hd13 Hwfs it Hnew fuel;
      destruct (skipn_cons_inv _ _ _ _ Hsk) as (Hm & Hsk' & Hlen);
      rewrite any_mod_cons, skipn_hd_nth, skipn_tl in Hd12; apply orb_false_iff in Hd12; destruct Hd12 as [Hd Hd12];
      cbn [forallb] in Hwfs; apply andb_true_iff in Hwfs; destruct Hwfs as [Hwf Hwfs];
      destruct (m_new_ok _ _ Hd) as (idx & f & n & post & Hnew' & Hs & Hdrop);
      rewrite Hnew in Hnew'; injection Hnew' as ->;
      destruct (drop_skipped_head _ _ _ _ _ Hdrop) as [Hf _];
      destruct (walk_funcs cm mt (nth cm skips []) Hm Hwf (length post) post (le_n _) idx f n Hs)
        as (Epre & idx_l & f_l & n_l & post_l & Hsl & Edl & Hnl & Heq & Hwalk);
      assert (expected_mod (N.of_nat cm) mt (nth cm skips []) = Epre ++ [V (N.of_nat cm) f_l (n_l - 1) true true]) as HE
        by (rewrite Heq, (expected_drop _ _ mt), Hdrop; apply expected_cons_unskipped; exact Hf);
      destruct (ci_op_loc cm idx_l mt (n_l - 1) n_l (nth cm skips []) f_l post_l Hm (wf_meta_asc _ Hwf) Hsl ltac:(lia)) as [Hop Hloc];
      assert (n_l <=? n_l - 1 + 1 = true) as Hend by (apply N.leb_le; lia);
      rewrite expected_comp_from_cons, skipn_hd_nth, skipn_tl, HE;
      change (mkC cm (length metas) (mkM idx mt (mkF 0 n) (nth cm skips [])) metas skips) with (cst cm idx mt 0 n (nth cm skips [])).
    - (* the last module *)
      cbn [expected_comp_from]. rewrite app_nil_r, app_length. cbn [length].
      replace (length Epre + 1 + fuel)%nat with (length Epre + S fuel)%nat by lia. rewrite Hwalk.
      cbn [length] in Hlen.
      destruct post_l as [|p post_l'].
      + eexists. rewrite (walk_end CI _ _ _ _ Hop Hloc (ci_next_last cm idx_l mt (n_l - 1) n_l _ _ Hsl ltac:(lia) ltac:(lia))).
        cbn [fst snd ev_of]. rewrite Hend. split; [reflexivity|].
        split; [repeat split; prj; try reflexivity; exists cm; split; [lia|reflexivity]|].
        intros _. unfold c_curr_loc, m_curr_loc, get_curr_func. prj.
        destruct (skipn_cons_inv _ _ _ _ Hsl) as (-> & _ & _). eexists. reflexivity.
      + eexists. rewrite (walk_end CI _ _ _ _ Hop Hloc (ci_next_tailskip cm idx_l mt (n_l - 1) n_l _ _ _ Hsl ltac:(lia) ltac:(discriminate) Edl)).
        cbn [fst snd ev_of]. rewrite Hend. split; [reflexivity|].
        split; [repeat split; prj; try reflexivity; exists cm; split; [lia|reflexivity]|].
        intros Hls. exfalso.
        rewrite (@skipn_last meta cm metas mt [] [] Hsk) in Hls. cbn [last] in Hls.
        replace (pred (length metas)) with cm in Hls by lia.
        rewrite (last_skipped_tail _ _ _ _ _ _ Hsl Edl) in Hls. discriminate.
    - (* a module followed by another one *)
      change (any_nonlast last_skipped (mt :: mt' :: rest) (skipn cm skips))
        with (last_skipped mt (hd [] (skipn cm skips)) || any_nonlast last_skipped (mt' :: rest) (tl (skipn cm skips))) in Hd13.
      rewrite skipn_hd_nth, skipn_tl in Hd13. apply orb_false_iff in Hd13. destruct Hd13 as [Hls Hd13].
      destruct post_l as [|p post_l'].
      2:{ rewrite (last_skipped_tail _ _ _ _ _ _ Hsl Edl) in Hls. discriminate. }
      destruct (skipn_cons_inv _ _ _ _ Hsk') as (Hm' & _ & _).
      pose proof Hd12 as Hd12'. rewrite any_mod_cons, skipn_hd_nth in Hd12'. apply orb_false_iff in Hd12'.
      pose proof Hwfs as Hwfs'. cbn [forallb] in Hwfs'. apply andb_true_iff in Hwfs'.
      destruct (ci_next_module cm idx_l mt (n_l - 1) n_l (nth cm skips []) _ mt' Hsl ltac:(lia) Hm' (proj1 Hwfs') (proj1 Hd12'))
        as (it' & Hnew2 & Hnext).
      destruct (IH (S cm) mt' Hsk' Hd12 Hd13 Hwfs it' Hnew2 fuel) as (sf & Hw & Hfin).
      exists sf. split; [|exact Hfin].
      rewrite !app_length. cbn [length].
      replace (N.of_nat cm + 1) with (N.of_nat (S cm)) by lia.
      set (E2 := expected_comp_from (N.of_nat (S cm)) (mt' :: rest) (skipn (S cm) skips)) in *.
      replace (length Epre + 1 + length E2 + fuel)%nat with (length Epre + S (length E2 + fuel))%nat by lia.
      rewrite Hwalk, (walk_more CI _ _ _ _ Hop Hloc Hnext), Hw. cbn [fst snd ev_of]. rewrite Hend.
      rewrite <- !app_assoc. cbn [app]. reflexivity.
  Qed.

  Lemma c_next_inv : forall s s' b, Inv s -> c_next s = Ok (s', b) -> Inv s'.
  Proof.
    intros s s' b (Hm & Hs & Hn & j & Hj & Hsk) H. unfold c_next in H.
    destruct (m_has_next (c_it s)).
    - destruct (m_next (c_it s)) as [[it b']|] eqn:En; [|discriminate]. injection H; intros; subst s' b'.
      destruct (m_next_keeps _ _ _ En) as [_ Hk].
      repeat split; prj; try assumption. exists j. rewrite Hk. auto.
    - unfold c_next_module in H. destruct (Nat.ltb (S (c_mod s)) (c_num s)) eqn:El.
      + destruct (nth_error (c_metas s) (S (c_mod s))) as [mt|]; [|discriminate].
        destruct (m_new mt (nth (S (c_mod s)) (c_skips s) [])) as [it|] eqn:En; [|discriminate].
        injection H; intros; subst s' b.
        destruct (m_new_keeps _ _ _ En) as [_ Hk]. apply Nat.ltb_lt in El.
        repeat split; prj; try assumption. exists (S (c_mod s)). rewrite Hk, Hs. split; [lia|reflexivity].
      + injection H; intros; subst s' b. repeat split; prj; try assumption. exists j. auto.
  Qed.
  Lemma ci_next_inv : forall s s' b, Inv s -> ci_next s = Ok (s', b) -> Inv s'.
  Proof.
    intros s s' b HI H. unfold ci_next in H. destruct (c_next s) as [[c' [|]]|] eqn:En; try discriminate.
    - destruct (ci_curr_op c'); [|discriminate]. injection H; intros; subst. eapply c_next_inv; eassumption.
    - injection H; intros; subst. eapply c_next_inv; eassumption.
  Qed.

  Lemma all_same_nth : forall (h : list N) (l : list (list N)) j,
    forallb (nlist_eqb h) l = true -> (j < length l)%nat -> nth j l [] = h.
  Proof.
    intros h l j H Hj. rewrite forallb_forall in H. symmetry. apply nlist_eqb_eq, H, nth_In, Hj.
  Qed.

  (* reset() from any state a traversal can be in, when all modules have the same skip list *)
  Lemma c_reset_new : forall s mt0, Inv s -> nth_error metas 0 = Some mt0 ->
    forallb (nlist_eqb (hd [] skips)) skips = true -> length skips = length metas ->
    d12_mod mt0 (nth 0 skips []) = false ->
    c_reset s = c_new metas skips.
  Proof.
    intros s mt0 (Hm & Hs & Hn & j & Hj & Hsk) H0 Hall Hlen Hd.
    unfold c_reset, c_new, m_reset_from_comp. rewrite Hm, H0, Hs, Hn.
    assert (m_skip (c_it s) = nth 0 skips []) as Hsk0.
    { rewrite Hsk, (all_same_nth _ _ j Hall) by lia.
      symmetry. apply all_same_nth; [exact Hall|]. assert (0 < length metas)%nat by (apply nth_error_Some; congruence). lia. }
    rewrite Hsk0, (m_reset_new _ _ _ _ Hd). reflexivity.
  Qed.
End Comp.

(* the script never needs more fuel than [fuel_of_comp] *)
Lemma instrs_length : forall m f n i, length (instrs m f n i) = n.
Proof. induction n; intros; cbn [instrs length]; auto. Qed.
Lemma expected_mod_length : forall m mt skip, (length (expected_mod m mt skip) <= N.to_nat (total_instrs mt))%nat.
Proof.
  intros m mt skip. unfold expected_mod, total_instrs. induction mt as [|[f n] mt IH]; cbn [filter flat_map fold_right length fst snd]; [lia|].
  rewrite N2Nat.inj_add. destruct (negb (skipped skip f)); cbn [flat_map].
  - rewrite app_length. unfold func_visits at 1. rewrite instrs_length. cbn [snd]. lia.
  - lia.
Qed.
Lemma expected_comp_length : forall metas m skips,
  (length (expected_comp_from m metas skips) <= N.to_nat (fold_right (fun mt a => (total_instrs mt + a)%N) 0%N metas))%nat.
Proof.
  induction metas as [|mt metas IH]; intros m skips; cbn [expected_comp_from fold_right length]; [lia|].
  rewrite app_length, N2Nat.inj_add. pose proof (expected_mod_length m mt (hd [] skips)). specialize (IH (m + 1) (tl skips)). lia.
Qed.

(* ------------------------------------------------------------------------------------------ *)
(* C26, visiting half: outside D12 / D13 the ComponentIterator script yields exactly the specified events *)

Theorem ci_run_exact : forall metas skips k probe,
  metas <> [] -> forallb wf_meta metas = true -> length skips = length metas ->
  known_D12_comp metas skips probe = false -> known_D13 metas skips k = false ->
  ci_run metas skips k probe = expected_trace (expected_comp metas skips) k probe.
Proof.
  intros metas skips k probe Hne Hwf Hlen H12 H13.
  assert (exists mt0 rest, metas = mt0 :: rest) as (mt0 & rest & Em) by (destruct metas; [congruence|eauto]).
  unfold known_D12_comp in H12. apply orb_false_iff in H12. destruct H12 as [H12 Hpr].
  unfold known_D13 in H13. apply orb_false_iff in H13. destruct H13 as [H13 Hrs].
  apply orb_false_iff in H13. destruct H13 as [H13 _].
  assert (skipn 0 metas = mt0 :: rest) as Hsk by (cbn [skipn]; exact Em).
  assert (d12_mod mt0 (nth 0 skips []) = false) as Hd0.
  { rewrite Em, any_mod_cons in H12. apply orb_false_iff in H12. rewrite <- (skipn_hd_nth 0 skips []). cbn [skipn]. tauto. }
  destruct (m_new_ok _ _ Hd0) as (idx & f & n & post & Hnew & _ & _).
  set (E := expected_comp metas skips).
  set (s0 := mkC 0 (length metas) (mkM idx mt0 (mkF 0 n) (nth 0 skips [])) metas skips).
  assert (c_new metas skips = Ok s0) as Hcn.
  { unfold c_new. replace (nth_error metas 0) with (Some mt0) by (rewrite Em; reflexivity). rewrite Hnew. reflexivity. }
  set (F := fuel_of_comp metas).
  assert (exists sf, walk CI F None s0 = (E, WEnd sf) /\ Fin metas skips sf) as (sf & Hw & Hfin).
  { pose proof (expected_comp_length metas 0 skips) as HL. fold (expected_comp metas skips) in HL. fold E in HL.
    assert (F = length E + (F - length E))%nat as HF by (unfold F, fuel_of_comp; lia).
    pose proof H12 as H12'. pose proof H13 as H13'. pose proof Hwf as Hwf'. rewrite Em in H12', H13', Hwf'.
    destruct (walk_modules metas skips rest 0 mt0 Hsk H12' H13' Hwf' _ Hnew (F - length E)) as (sf & X & Y).
    cbn [skipn N.of_nat] in X. rewrite <- Em in X. fold (expected_comp metas skips) in X. fold E in X.
    exists sf. rewrite HF. split; assumption. }
  assert (full CI F probe s0 = E ++ (if probe then [EAfter] else [])) as Hfull.
  { unfold full. rewrite Hw. destruct probe; [|rewrite app_nil_r; reflexivity].
    cbn [andb] in Hpr. destruct Hfin as [_ Hloc]. destruct (Hloc Hpr) as [v Hv]. change (k_loc CI sf) with (c_curr_loc sf). rewrite Hv. reflexivity. }
  unfold ci_run, run. fold F. rewrite Hcn.
  destruct k as [k|]; [|exact Hfull].
  destruct (walk_lim CI F k s0 E sf Hw) as (w & Hwk & Hwok). rewrite Hwk.
  assert (Inv metas skips s0) as HI0.
  { repeat split; try reflexivity. exists 0%nat. split; [rewrite Em; cbn [length]; lia|reflexivity]. }
  pose proof (walk_inv CI (Inv metas skips) (ci_next_inv metas skips) F (Some k) s0 _ w HI0 Hwk) as HIw.
  apply negb_false_iff in Hrs.
  assert (forall s', Inv metas skips s' -> firstn (S k) E ++ match k_reset CI s' with
            | Panic => [EReset; EPanic] | Ok s'' => EReset :: full CI F probe s'' end
          = expected_trace E (Some k) probe) as Hgo.
  { intros s' HI'. change (k_reset CI s') with (c_reset s').
    rewrite (c_reset_new metas skips s' mt0 HI' ltac:(rewrite Em; reflexivity) Hrs Hlen Hd0), Hcn, Hfull.
    unfold expected_trace. rewrite <- app_assoc. reflexivity. }
  destruct w as [| |s'|s']; try contradiction; specialize (Hgo s' HIw);
    destruct (k_reset CI s'); exact Hgo.
Qed.

(* ------------------------------------------------------------------------------------------ *)
(* The ModuleIterator is the ComponentIterator on a component with that one module *)

Section One.
  Variable mt : meta.
  Variable sk : list (list N).

  Definition wrap (j : nat) (ms : msub) : csub := mkC j 1 ms [mt] sk.

  Lemma one_op : forall ms, m_meta ms = mt -> ci_curr_op (wrap 0 ms) = mi_curr_op ms.
  Proof.
    intros ms Hm. unfold ci_curr_op, mi_curr_op, c_end, c_curr_loc, wrap. prj. cbn [Nat.eqb].
    destruct (m_curr_loc ms) as [[[f i] e]|]; [|reflexivity]. cbn [nth_error]. rewrite Hm. reflexivity.
  Qed.

  Lemma one_loc : forall j ms, k_loc CI (wrap j ms) =
    match k_loc MI ms with Ok (_, f, i, e) => Ok (N.of_nat j, f, i, e) | Panic => Panic end.
  Proof.
    intros. unfold CI, MI, c_curr_loc, wrap. prj. destruct (m_curr_loc ms) as [[[f i] e]|]; reflexivity.
  Qed.

  Lemma one_next : forall ms, m_meta ms = mt ->
    match mi_next ms, ci_next (wrap 0 ms) with
    | Panic, Panic => True
    | Ok (ms', b), Ok (cs', b') =>
        b = b' /\ m_meta ms' = mt /\ exists j, cs' = wrap j ms' /\ (b = true -> j = 0%nat)
    | _, _ => False
    end.
  Proof.
    intros ms Hm. unfold mi_next, ci_next, c_next, wrap. prj.
    destruct (m_has_next ms) eqn:Eh.
    - destruct (m_next ms) as [[ms' b]|] eqn:En; [|exact I].
      destruct (m_next_keeps _ _ _ En) as [Hk _]. rewrite Hm in Hk.
      destruct b.
      + change (mkC 0 1 ms' [mt] sk) with (wrap 0 ms'). rewrite (one_op _ Hk).
        destruct (mi_curr_op ms'); [|exact I]. split; [reflexivity|]. split; [exact Hk|]. exists 0%nat. auto.
      + split; [reflexivity|]. split; [exact Hk|]. exists 0%nat. split; [reflexivity|discriminate].
    - unfold m_has_next in Eh. apply orb_false_iff in Eh. destruct Eh as [E1 E2].
      unfold m_next, m_next_function. rewrite E1, E2. cbn [negb].
      unfold c_next_module. prj. cbn [Nat.ltb Nat.leb].
      split; [reflexivity|]. split; [exact Hm|]. exists 1%nat. split; [reflexivity|discriminate].
  Qed.

  Definition wrel (w1 : wend msub) (w2 : wend csub) : Prop :=
    match w1, w2 with
    | WPanic, WPanic | WFuel, WFuel => True
    | WStopped a, WStopped b | WEnd a, WEnd b => m_meta a = mt /\ exists j, b = wrap j a
    | _, _ => False
    end.

  Lemma one_walk : forall fuel lim ms, m_meta ms = mt ->
    fst (walk MI fuel lim ms) = fst (walk CI fuel lim (wrap 0 ms))
    /\ wrel (snd (walk MI fuel lim ms)) (snd (walk CI fuel lim (wrap 0 ms))).
  Proof.
    induction fuel as [|fuel IH]; intros lim ms Hm; [cbn; auto|].
    cbn [walk]. change (k_op CI (wrap 0 ms)) with (ci_curr_op (wrap 0 ms)). rewrite (one_op _ Hm).
    change (k_op MI ms) with (mi_curr_op ms).
    destruct (mi_curr_op ms) as [[|]|]; cbn [fst snd wrel]; auto.
    2:{ split; [reflexivity|]. split; [exact Hm|]. exists 0%nat. reflexivity. }
    rewrite one_loc. destruct (k_loc MI ms) as [[[[m f] i] e]|] eqn:El; cbn [fst snd wrel]; auto.
    assert (m = 0) as -> by (unfold MI in El; prj; destruct (m_curr_loc ms) as [[[? ?] ?]|]; congruence).
    cbn [N.of_nat].
    assert (forall lim',
      fst (match k_next MI ms with
           | Ok (s', true) => let '(t, w) := walk MI fuel lim' s' in (ev_of (0, f, i, e) :: t, w)
           | Ok (s', false) => ([ev_of (0, f, i, e)], WEnd s')
           | Panic => ([ev_of (0, f, i, e); EPanic], WPanic) end)
      = fst (match k_next CI (wrap 0 ms) with
           | Ok (s', true) => let '(t, w) := walk CI fuel lim' s' in (ev_of (0, f, i, e) :: t, w)
           | Ok (s', false) => ([ev_of (0, f, i, e)], WEnd s')
           | Panic => ([ev_of (0, f, i, e); EPanic], WPanic) end)
      /\ wrel (snd (match k_next MI ms with
           | Ok (s', true) => let '(t, w) := walk MI fuel lim' s' in (ev_of (0, f, i, e) :: t, w)
           | Ok (s', false) => ([ev_of (0, f, i, e)], WEnd s')
           | Panic => ([ev_of (0, f, i, e); EPanic], WPanic) end))
          (snd (match k_next CI (wrap 0 ms) with
           | Ok (s', true) => let '(t, w) := walk CI fuel lim' s' in (ev_of (0, f, i, e) :: t, w)
           | Ok (s', false) => ([ev_of (0, f, i, e)], WEnd s')
           | Panic => ([ev_of (0, f, i, e); EPanic], WPanic) end))) as Hgo.
    { intros lim'. pose proof (one_next ms Hm) as Hn.
      change (k_next MI ms) with (mi_next ms). change (k_next CI (wrap 0 ms)) with (ci_next (wrap 0 ms)).
      destruct (mi_next ms) as [[ms' b]|]; destruct (ci_next (wrap 0 ms)) as [[cs' b']|]; try contradiction.
      2:{ cbn [fst snd wrel]. auto. }
      destruct Hn as (<- & Hm' & j & -> & Hj). destruct b.
      - rewrite (Hj eq_refl). destruct (IH lim' ms' Hm') as [H1 H2].
        destruct (walk MI fuel lim' ms'), (walk CI fuel lim' (wrap 0 ms')). cbn [fst snd] in *. rewrite H1. auto.
      - cbn [fst snd wrel]. split; [reflexivity|]. split; [exact Hm'|]. exists j. reflexivity. }
    destruct lim as [[|k]|]; [|apply Hgo|apply Hgo].
    cbn [fst snd wrel]. split; [reflexivity|]. split; [exact Hm|]. exists 0%nat. reflexivity.
  Qed.

  Lemma m_reset_keeps : forall s s', m_reset s = Ok s' -> m_meta s' = m_meta s.
  Proof.
    intros s s' H. unfold m_reset, handle_skips in H. prj. destruct (skipn 0 (m_meta s)); [discriminate|].
    unfold get_curr_func in H. prj. match type of H with context [nth_error ?a ?b] => destruct (nth_error a b) as [[? ?]|] end; [|discriminate].
    injection H; intros; subst. prj. reflexivity.
  Qed.

  Lemma one_reset : forall j ms, m_meta ms = mt ->
    match k_reset MI ms, k_reset CI (wrap j ms) with
    | Panic, Panic => True
    | Ok a, Ok b => m_meta a = mt /\ b = wrap 0 a
    | _, _ => False
    end.
  Proof.
    intros j ms Hm. unfold CI, MI, c_reset, m_reset_from_comp, wrap. prj. cbn [nth_error].
    replace (mkM (m_idx ms) mt (m_fi ms) (m_skip ms)) with ms by (destruct ms; prj; subst; reflexivity).
    destruct (m_reset ms) as [a|] eqn:Er; [|exact I]. split; [|reflexivity].
    rewrite (m_reset_keeps _ _ Er). exact Hm.
  Qed.

  Lemma one_full : forall fuel probe ms, m_meta ms = mt -> full MI fuel probe ms = full CI fuel probe (wrap 0 ms).
  Proof.
    intros fuel probe ms Hm. unfold full. destruct (one_walk fuel None ms Hm) as [H1 H2].
    destruct (walk MI fuel None ms) as [t1 w1], (walk CI fuel None (wrap 0 ms)) as [t2 w2]. cbn [fst snd] in *. subst t2.
    destruct w1, w2; cbn [wrel] in H2; try contradiction; try reflexivity.
    destruct H2 as (_ & j & ->). destruct probe; [|reflexivity].
    rewrite one_loc. destruct (k_loc MI s) as [[[[? ?] ?] ?]|]; reflexivity.
  Qed.

  Lemma one_run : forall fuel k probe init, match init with Ok ms => m_meta ms = mt | Panic => True end ->
    run MI fuel k probe init
    = run CI fuel k probe (match init with Ok ms => Ok (wrap 0 ms) | Panic => Panic end).
  Proof.
    intros fuel k probe [ms|] Hm; [|reflexivity]. unfold run. destruct k as [k|]; [|apply one_full; exact Hm].
    destruct (one_walk fuel (Some k) ms Hm) as [H1 H2].
    destruct (walk MI fuel (Some k) ms) as [t1 w1], (walk CI fuel (Some k) (wrap 0 ms)) as [t2 w2]. cbn [fst snd] in *. subst t2.
    destruct w1 as [| |a|a], w2 as [| |b|b]; cbn [wrel] in H2; try contradiction; try reflexivity;
      destruct H2 as (Ha & j & ->); pose proof (one_reset j a Ha) as Hr;
      destruct (k_reset MI a) as [a'|], (k_reset CI (wrap j a)) as [b'|]; try contradiction; try reflexivity;
      destruct Hr as [Ha' ->]; rewrite (one_full _ _ _ Ha'); reflexivity.
  Qed.
End One.

Theorem mi_is_ci : forall mt skip k probe, mi_run mt skip k probe = ci_run [mt] [skip] k probe.
Proof.
  intros. unfold mi_run, ci_run.
  assert (fuel_of_comp [mt] = fuel_of mt) as -> by (unfold fuel_of_comp, fuel_of; cbn [fold_right]; rewrite N.add_0_r; reflexivity).
  rewrite (one_run mt [skip]).
  - f_equal.
  - destruct (m_new mt skip) as [ms|] eqn:E; [|exact I]. apply (m_new_keeps _ _ _ E).
Qed.

Lemma nlist_eqb_refl : forall l, nlist_eqb l l = true.
Proof. induction l; cbn [nlist_eqb]; [reflexivity|rewrite N.eqb_refl; cbn [andb]; assumption]. Qed.

(* C25: outside D12 the ModuleIterator script yields exactly the specified events *)
Theorem mi_run_exact : forall mt skip k probe,
  wf_meta mt = true -> known_D12 mt skip probe = false ->
  mi_run mt skip k probe = expected_trace (expected_mod 0 mt skip) k probe.
Proof.
  intros mt skip k probe Hwf H12. rewrite mi_is_ci.
  rewrite (ci_run_exact [mt] [skip] k probe).
  - unfold expected_comp. cbn [expected_comp_from hd]. rewrite app_nil_r. reflexivity.
  - discriminate.
  - cbn [forallb]. rewrite Hwf. reflexivity.
  - reflexivity.
  - unfold known_D12 in H12. unfold known_D12_comp. cbn [any_mod hd last length pred nth]. rewrite orb_false_r. exact H12.
  - unfold known_D12 in H12. apply orb_false_iff in H12. destruct H12 as [H12 _].
    unfold known_D13. cbn [any_nonlast any_mod hd orb forallb].
    assert (nilb mt = false) as -> by (destruct mt; [discriminate|reflexivity]).
    rewrite nlist_eqb_refl.
    destruct k; reflexivity.
Qed.

(* ------------------------------------------------------------------------------------------ *)
(* C26 in the words of the property: the component traversal is the concatenation, in module order, of
   what a ModuleIterator does on each module with that module's skip list (locations tagged with the
   module index) *)
Definition retag (m : N) (e : ev) : ev := match e with V _ f i en ok => V m f i en ok | x => x end.
Fixpoint concat_module_runs (m : N) (metas : list meta) (skips : list (list N)) : list ev :=
  match metas with
  | [] => []
  | mt :: r => map (retag m) (mi_run mt (hd [] skips) None false) ++ concat_module_runs (m + 1) r (tl skips)
  end.

Lemma retag_instrs : forall m m' f n i, map (retag m) (instrs m' f n i) = instrs m f n i.
Proof. induction n; intros; cbn [instrs map retag]; [reflexivity|]. rewrite IHn. reflexivity. Qed.
Lemma retag_expected : forall m m' mt skip, map (retag m) (expected_mod m' mt skip) = expected_mod m mt skip.
Proof.
  intros. unfold expected_mod. induction (filter (fun fn => negb (skipped skip (fst fn))) mt) as [|fn l IH]; [reflexivity|].
  cbn [flat_map]. rewrite map_app, IH. unfold func_visits. rewrite retag_instrs. reflexivity.
Qed.

Lemma concat_module_runs_expected : forall metas m skips,
  forallb wf_meta metas = true -> any_mod d12_mod metas skips = false ->
  concat_module_runs m metas skips = expected_comp_from m metas skips.
Proof.
  induction metas as [|mt r IH]; intros m skips Hwf Hd; [reflexivity|].
  cbn [forallb] in Hwf. apply andb_true_iff in Hwf. destruct Hwf as [Hwf Hwfs].
  rewrite any_mod_cons in Hd. apply orb_false_iff in Hd. destruct Hd as [Hd Hds].
  cbn [concat_module_runs expected_comp_from]. rewrite (IH _ _ Hwfs Hds).
  rewrite (mi_run_exact mt (hd [] skips) None false Hwf) by (unfold known_D12; rewrite Hd; reflexivity).
  unfold expected_trace. cbn [app]. rewrite app_nil_r, retag_expected. reflexivity.
Qed.

Theorem ci_run_as_module_runs : forall metas skips,
  metas <> [] -> forallb wf_meta metas = true -> length skips = length metas ->
  known_D12_comp metas skips false = false -> known_D13 metas skips None = false ->
  ci_run metas skips None false = concat_module_runs 0 metas skips.
Proof.
  intros metas skips Hne Hwf Hlen H12 H13.
  rewrite (ci_run_exact metas skips None false Hne Hwf Hlen H12 H13).
  unfold known_D12_comp in H12. apply orb_false_iff in H12. destruct H12 as [H12 _].
  rewrite (concat_module_runs_expected metas 0 skips Hwf H12).
  unfold expected_trace, expected_comp. cbn [app]. rewrite app_nil_r. reflexivity.
Qed.

(* ------------------------------------------------------------------------------------------ *)
(* checker soundness: when the implementation's observed events agree with the model, the case is in
   the domain and outside the known input classes, the property holds of the observed events *)

Theorem checker25_sound : forall c, agree25 c = true -> domain25 c = true -> known25 c = [] -> holds25 c = true.
Proof.
  intros c Ha Hd Hk. unfold agree25 in Ha. apply evs_eqb_eq in Ha. unfold holds25. rewrite <- Ha.
  unfold known25 in Hk. destruct (known_D12 (mc_meta c) (mc_skip c) (mc_probe c)) eqn:E; [discriminate|].
  rewrite (mi_run_exact _ _ _ _ Hd E). apply evs_eqb_eq. reflexivity.
Qed.

Theorem checker26_sound : forall c, agree26 c = true -> domain26 c = true -> known26 c = [] -> trace_ok26 c = true.
Proof.
  intros c Ha Hd Hk. unfold agree26 in Ha. apply evs_eqb_eq in Ha. unfold trace_ok26. rewrite <- Ha.
  unfold known26 in Hk.
  destruct (known_D12_comp (cc_metas c) (cc_skips c) (cc_probe c)) eqn:E12; [discriminate|].
  destruct (known_D13 (cc_metas c) (cc_skips c) (cc_k c)) eqn:E13; [discriminate|].
  unfold domain26 in Hd. apply andb_true_iff in Hd. destruct Hd as [Hd Hlen]. apply andb_true_iff in Hd. destruct Hd as [Hne Hwf].
  apply Nat.eqb_eq in Hlen.
  assert (cc_metas c <> []) as Hne' by (destruct (cc_metas c); [discriminate Hne|discriminate]).
  rewrite (ci_run_exact _ _ _ _ Hne' Hwf Hlen E12 E13).
  apply evs_eqb_eq. reflexivity.
Qed.
Corollary checker26_sound_full : forall c, agree26 c = true -> domain26 c = true -> known26 c = [] ->
  holds26 c = cc_inj_same c.
Proof. intros. unfold holds26. rewrite (checker26_sound c) by assumption. reflexivity. Qed.

(* ------------------------------------------------------------------------------------------ *)
(* refutations: each shape of D12 / D13 makes the faithful model deviate from the specification *)

Ltac refute := let H := fresh "H" in intro H; vm_compute in H; discriminate H.

(* D12: function 0 skipped -- function 1 (5 instructions) is walked with function 0's length (1) *)
Lemma D12_first_skipped_refuted :
  mi_run [(0, 1); (1, 5)] [0] None false <> expected_trace (expected_mod 0 [(0, 1); (1, 5)] [0]) None false.
Proof. refute. Qed.
(* D12: ... and when function 0 is the longer one, curr_op indexes past the end of function 1 *)
Lemma D12_first_skipped_panics : mi_run [(1, 3); (2, 2)] [1] None false = [V 0 2 0 false true; V 0 2 1 false true; EPanic].
Proof. vm_compute. reflexivity. Qed.
(* D12: no local function *)
Lemma D12_no_local_function_refuted : mi_run [] [] None false = [EPanic] /\ expected_trace (expected_mod 0 [] []) None false = [].
Proof. vm_compute. auto. Qed.
(* D12: every function skipped *)
Lemma D12_all_skipped_refuted : mi_run [(0, 2)] [0] None false = [EPanic] /\ expected_trace (expected_mod 0 [(0, 2)] [0]) None false = [].
Proof. vm_compute. auto. Qed.
(* D12: trailing skipped function -- curr_loc() after the end of the traversal panics *)
Lemma D12_trailing_skipped_refuted :
  mi_run [(0, 2); (1, 1)] [1] None true = [V 0 0 0 false true; V 0 0 1 true true; EPanic].
Proof. vm_compute. reflexivity. Qed.
(* the unconditional statement of C25 is false *)
Theorem C25_unconditional_refuted :
  ~ (forall mt skip k probe, wf_meta mt = true -> mi_run mt skip k probe = expected_trace (expected_mod 0 mt skip) k probe).
Proof. intro H. exact (D12_first_skipped_refuted (H [(0, 1); (1, 5)] [0] None false eq_refl)). Qed.

(* D13: the last function of module 0 is skipped -- module 1 is never visited *)
Lemma D13_last_function_skipped_refuted :
  ci_run [[(0, 1); (1, 1)]; [(0, 1)]] [[1]; []] None false = [V 0 0 0 true true]
  /\ expected_trace (expected_comp [[(0, 1); (1, 1)]; [(0, 1)]] [[1]; []]) None false = [V 0 0 0 true true; V 1 0 0 true true].
Proof. vm_compute. auto. Qed.
(* D13: a module without local functions *)
Lemma D13_module_without_functions_refuted :
  ci_run [[(0, 1)]; []] [[]; []] None false = [V 0 0 0 true true; EPanic].
Proof. vm_compute. reflexivity. Qed.
(* D13: reset() keeps the skip list of the module the cursor was in *)
Lemma D13_reset_refuted :
  ci_run [[(0, 1); (1, 1)]; [(0, 1); (1, 1)]] [[]; [0]] (Some 9%nat) false
  = [V 0 0 0 true true; V 0 1 0 true true; V 1 1 0 true true; EReset; V 0 1 0 true true; V 1 1 0 true true]
  /\ expected_trace (expected_comp [[(0, 1); (1, 1)]; [(0, 1); (1, 1)]] [[]; [0]]) (Some 9%nat) false
  = [V 0 0 0 true true; V 0 1 0 true true; V 1 1 0 true true; EReset; V 0 0 0 true true; V 0 1 0 true true; V 1 1 0 true true].
Proof. vm_compute. auto. Qed.
Theorem C26_unconditional_refuted :
  ~ (forall metas skips k probe, metas <> [] -> forallb wf_meta metas = true -> length skips = length metas ->
       known_D12_comp metas skips probe = false ->
       ci_run metas skips k probe = expected_trace (expected_comp metas skips) k probe).
Proof.
  intro H. specialize (H [[(0, 1); (1, 1)]; [(0, 1)]] [[1]; []] None false ltac:(discriminate) eq_refl eq_refl eq_refl).
  vm_compute in H. discriminate H.
Qed.

(* ------------------------------------------------------------------------------------------ *)
(* The specification says what the property says: [expected_mod] contains exactly the instructions of the
   unskipped local functions, each with the right end flag, each once, in function and instruction order. *)
From Coq Require Import Sorted.

Lemma instrs_In : forall m f n i0 x,
  In x (instrs m f n i0) <-> exists i, x = V m f i (i + 1 =? i0 + N.of_nat n) true /\ i0 <= i < i0 + N.of_nat n.
Proof.
  induction n as [|n IH]; intros i0 x.
  - cbn [instrs In]. split; [tauto|]. intros (i & _ & H). cbn [N.of_nat] in H. lia.
  - cbn [instrs In]. rewrite IH. split.
    + intros [<-|(i & -> & Hi)].
      * exists i0. split; [|lia]. f_equal. destruct n; symmetry; [apply N.eqb_eq|apply N.eqb_neq]; lia.
      * exists i. split; [|lia]. f_equal. f_equal. lia.
    + intros (i & -> & Hi). destruct (N.eq_dec i i0) as [->|Hne].
      * left. f_equal. destruct n; symmetry; [apply N.eqb_eq|apply N.eqb_neq]; lia.
      * right. exists i. split; [|lia]. f_equal. f_equal. lia.
Qed.

Theorem expected_mod_In : forall m mt skip x,
  In x (expected_mod m mt skip) <->
  exists f n i, In (f, n) mt /\ skipped skip f = false /\ i < n /\ x = V m f i (i + 1 =? n) true.
Proof.
  intros. unfold expected_mod. rewrite in_flat_map. split.
  - intros ([f n] & Hf & Hx). apply filter_In in Hf. destruct Hf as [Hin Hs]. cbn [fst] in Hs. apply negb_true_iff in Hs.
    unfold func_visits in Hx. cbn [fst snd] in Hx. apply instrs_In in Hx. destruct Hx as (i & -> & Hi).
    rewrite N2Nat.id, N.add_0_l in *. exists f, n, i. repeat split; try assumption; lia.
  - intros (f & n & i & Hin & Hs & Hi & ->). exists (f, n). split.
    + apply filter_In. split; [assumption|]. cbn [fst]. rewrite Hs. reflexivity.
    + unfold func_visits. cbn [fst snd]. apply instrs_In. exists i. rewrite N2Nat.id, N.add_0_l. split; [reflexivity|lia].
Qed.

Definition ev_lt (a b : ev) : Prop :=
  match a, b with
  | V _ f i _ _, V _ f' i' _ _ => f < f' \/ (f = f' /\ i < i')
  | _, _ => False
  end.

Lemma sorted_app : forall {A} (R : A -> A -> Prop) l1 l2,
  StronglySorted R l1 -> StronglySorted R l2 -> (forall x y, In x l1 -> In y l2 -> R x y) -> StronglySorted R (l1 ++ l2).
Proof.
  induction l1 as [|a l1 IH]; intros l2 H1 H2 Hc; [exact H2|].
  inversion H1; subst. cbn [app]. constructor.
  - apply IH; [assumption|assumption|]. intros; apply Hc; [right|]; assumption.
  - apply Forall_app. split; [assumption|]. apply Forall_forall. intros y Hy. apply Hc; [left; reflexivity|assumption].
Qed.

Lemma instrs_sorted : forall m f n i0, StronglySorted ev_lt (instrs m f n i0).
Proof.
  induction n as [|n IH]; intros i0; cbn [instrs]; constructor; [apply IH|].
  apply Forall_forall. intros x Hx. apply instrs_In in Hx. destruct Hx as (i & -> & Hi). cbn [ev_lt]. right. split; [reflexivity|lia].
Qed.

(* strictly increasing in (function id, instruction index): in order, and no location twice *)
Theorem expected_mod_sorted : forall m mt skip, ascending (map fst mt) = true -> StronglySorted ev_lt (expected_mod m mt skip).
Proof.
  intros m mt skip. unfold expected_mod. induction mt as [|[f n] mt IH]; intros Ha; [constructor|].
  cbn [map fst] in Ha. pose proof (ascending_head _ _ Ha) as Hh. specialize (IH (ascending_tail _ _ Ha)).
  cbn [filter fst]. destruct (negb (skipped skip f)); [|exact IH].
  cbn [flat_map]. apply sorted_app; [apply instrs_sorted|exact IH|].
  intros x y Hx Hy. unfold func_visits in Hx. cbn [fst snd] in Hx. apply instrs_In in Hx. destruct Hx as (i & -> & _).
  fold (expected_mod m mt skip) in Hy. apply expected_mod_In in Hy. destruct Hy as (f' & n' & i' & Hin & _ & _ & ->).
  cbn [ev_lt]. left. rewrite Forall_forall in Hh. apply Hh. apply in_map_iff. exists (f', n'). auto.
Qed.
