(* Iterator engine, proofs (all inputs, no size bound), for the code after the repair of D12 / D13:
     ci_run_exact : the model of the ComponentIterator script yields exactly the specified event list;
     mi_is_ci     : the ModuleIterator model is the ComponentIterator model on a one-module component;
     mi_run_exact : hence the same for the ModuleIterator;
     ci_run_as_module_runs : the component traversal is the concatenation of the module traversals;
     checker soundness for C25 / C26; the inputs that used to refute the properties, now positive. *)
From Coq Require Import List NArith Bool Lia Arith.
Import ListNotations.
From Orca Require Import Util Iter CheckIter.
Local Open Scope N_scope.

(* ------------------------------------------------------------------------------------------ *)
(* small facts *)

Lemma memN_skipped : forall x l, memN x l = skipped l x.
Proof.
  intros x l. unfold memN, skipped. induction l as [|a l IH]; cbn [existsb]; [reflexivity|].
  rewrite IH, (N.eqb_sym x a). reflexivity.
Qed.

Lemma ev_eqb_eq : forall a b, ev_eqb a b = true <-> a = b.
Proof.
  intros a b; split.
  - destruct a, b; cbn [ev_eqb]; try discriminate; try reflexivity.
    rewrite !andb_true_iff. intros [[[[H1 H2] H3] H4] H5].
    apply N.eqb_eq in H1, H2, H3. apply Bool.eqb_prop in H4, H5. subst. reflexivity.
  - intros <-. destruct a; cbn [ev_eqb]; try reflexivity.
    rewrite !N.eqb_refl, !Bool.eqb_reflx. reflexivity.
Qed.
Lemma evs_eqb_eq : forall a b, evs_eqb a b = true <-> a = b.
Proof.
  induction a as [|x a IH]; destruct b as [|y b]; cbn [evs_eqb]; split; try discriminate; try reflexivity.
  - rewrite andb_true_iff. intros [H1 H2]. apply ev_eqb_eq in H1. apply IH in H2. subst. reflexivity.
  - intros H. injection H as -> ->. rewrite andb_true_iff. split; [apply ev_eqb_eq|apply IH]; reflexivity.
Qed.

Lemma skipn_cons_inv : forall {A} i (l : list A) x r,
  skipn i l = x :: r -> nth_error l i = Some x /\ skipn (S i) l = r /\ length l = (i + S (length r))%nat.
Proof.
  induction i as [|i IH]; intros l x r H.
  - cbn [skipn] in H. subst l. cbn. auto.
  - destruct l as [|a l]; [discriminate|]. cbn [skipn] in H. destruct (IH _ _ _ H) as (H1 & H2 & H3).
    cbn [nth_error length]. repeat split; try assumption. lia.
Qed.
Lemma skipn_nil_inv : forall {A} i (l : list A), skipn i l = [] -> (length l <= i)%nat.
Proof.
  induction i as [|i IH]; intros l H.
  - cbn in H. subst. cbn. lia.
  - destruct l; cbn [length]; [lia|]. cbn [skipn] in H. apply IH in H. lia.
Qed.
Lemma skipn_hd_nth : forall {A} n (l : list A) d, hd d (skipn n l) = nth n l d.
Proof. induction n; destruct l; cbn; auto. Qed.
Lemma skipn_tl : forall {A} n (l : list A), tl (skipn n l) = skipn (S n) l.
Proof. induction n; destruct l; cbn [skipn tl]; auto. rewrite IHn. reflexivity. Qed.
Lemma nth_of_skipn : forall {A} i (l : list A) x r d, skipn i l = x :: r -> nth i l d = x.
Proof. intros * H. apply nth_error_nth. apply skipn_cons_inv in H. tauto. Qed.

(* ------------------------------------------------------------------------------------------ *)
(* skipping *)

Fixpoint drop_skipped (skip : list N) (l : meta) : meta :=
  match l with
  | [] => []
  | (f, n) :: l' => if memN f skip then drop_skipped skip l' else l
  end.

Lemma find_unskipped_spec : forall skip l idx (mt : meta), skipn idx mt = l ->
  match find_unskipped skip l idx with
  | Some i => exists f n r, drop_skipped skip l = (f, n) :: r /\ skipn i mt = (f, n) :: r
  | None => drop_skipped skip l = []
  end.
Proof.
  induction l as [|[f n] l IH]; intros idx mt H; cbn [find_unskipped drop_skipped]; [reflexivity|].
  destruct (memN f skip).
  - apply IH. apply skipn_cons_inv in H. tauto.
  - exists f, n, l. auto.
Qed.

Lemma drop_skipped_head : forall skip l f n r, drop_skipped skip l = (f, n) :: r ->
  memN f skip = false /\ (length r < length l)%nat.
Proof.
  induction l as [|[g m] l IH]; intros f n r H; cbn [drop_skipped] in H; [discriminate|].
  destruct (memN g skip) eqn:E.
  - destruct (IH _ _ _ H). cbn [length]. split; [assumption|lia].
  - injection H as -> -> ->. cbn [length]. split; [assumption|lia].
Qed.

Lemma expected_drop : forall m skip l, expected_mod m l skip = expected_mod m (drop_skipped skip l) skip.
Proof.
  intros m skip. unfold expected_mod. induction l as [|[f n] l IH]; cbn [drop_skipped]; [reflexivity|].
  destruct (memN f skip) eqn:E; [|reflexivity].
  cbn [filter fst]. rewrite <- memN_skipped, E. cbn [negb]. exact IH.
Qed.
Lemma expected_cons_unskipped : forall m skip f n l, memN f skip = false ->
  expected_mod m ((f, n) :: l) skip = func_visits m (f, n) ++ expected_mod m l skip.
Proof.
  intros. unfold expected_mod. cbn [filter fst]. rewrite <- memN_skipped, H. cbn [negb flat_map]. reflexivity.
Qed.
Lemma expected_all_skipped : forall m skip l, drop_skipped skip l = [] -> expected_mod m l skip = [].
Proof. intros. rewrite expected_drop, H. reflexivity. Qed.

(* ------------------------------------------------------------------------------------------ *)
(* the specification: shape of one function's visits *)

Fixpoint pre (m f : N) (d : nat) (i : N) : list ev :=
  match d with O => [] | S d' => V m f i false true :: pre m f d' (i + 1) end.

Lemma instrs_split : forall m f d i, instrs m f (S d) i = pre m f d i ++ [V m f (i + N.of_nat d) true true].
Proof.
  induction d as [|d IH]; intros i.
  - cbn. rewrite N.add_0_r. reflexivity.
  - change (instrs m f (S (S d)) i) with (V m f i false true :: instrs m f (S d) (i + 1)).
    rewrite IH. cbn [pre app]. replace (i + 1 + N.of_nat d) with (i + N.of_nat (S d)) by lia. reflexivity.
Qed.
Lemma pre_length : forall m f d i, length (pre m f d i) = d.
Proof. induction d; intros; cbn [pre length]; auto. Qed.

Lemma func_visits_split : forall m f n, 1 <= n ->
  func_visits m (f, n) = pre m f (N.to_nat (n - 1)) 0 ++ [V m f (n - 1) true true].
Proof.
  intros. unfold func_visits. cbn [fst snd].
  replace (N.to_nat n) with (S (N.to_nat (n - 1))) by lia.
  rewrite instrs_split. replace (0 + N.of_nat (N.to_nat (n - 1))) with (n - 1) by lia. reflexivity.
Qed.

(* ------------------------------------------------------------------------------------------ *)
(* body_len under ascending ids *)

Lemma ascending_head : forall a l, ascending (a :: l) = true -> Forall (fun b => a < b) l.
Proof.
  intros a l. revert a. induction l as [|b l IH]; intros a H; [constructor|].
  cbn [ascending] in H. apply andb_true_iff in H. destruct H as [H1 H2]. apply N.ltb_lt in H1.
  constructor; [assumption|]. specialize (IH _ H2).
  eapply Forall_impl; [|exact IH]. cbn. intros; lia.
Qed.
Lemma ascending_tail : forall a l, ascending (a :: l) = true -> ascending l = true.
Proof. intros a [|b l] H; [reflexivity|]. cbn [ascending] in H. apply andb_true_iff in H. tauto. Qed.

Lemma body_len_nth : forall (mt : meta) idx f n, ascending (map fst mt) = true ->
  nth_error mt idx = Some (f, n) -> body_len mt f = Some n.
Proof.
  unfold body_len. induction mt as [|[g k] mt IH]; intros idx f n Ha Hn; [destruct idx; discriminate|].
  destruct idx as [|idx].
  - injection Hn as -> ->. cbn [find fst]. rewrite N.eqb_refl. reflexivity.
  - cbn [nth_error] in Hn. cbn [map fst] in Ha. cbn [find fst].
    assert (g < f) as Hlt.
    { pose proof (ascending_head _ _ Ha) as HF. rewrite Forall_forall in HF. apply HF.
      apply in_map_iff. exists (f, n). split; [reflexivity|]. eapply nth_error_In; eassumption. }
    replace (g =? f) with false by (symmetry; apply N.eqb_neq; lia).
    eapply IH; [eapply ascending_tail; eassumption|eassumption].
Qed.

(* ------------------------------------------------------------------------------------------ *)
(* generic facts about the script *)

Section Walk.
  Context {S : Type} (M : mach S).

  Lemma walk_more : forall fuel s v s', k_op M s = Ok true -> k_loc M s = Ok v -> k_next M s = Ok (s', true) ->
    walk M (Datatypes.S fuel) None s = (ev_of v :: fst (walk M fuel None s'), snd (walk M fuel None s')).
  Proof. intros * H1 H2 H3. cbn [walk]. rewrite H1, H2, H3. cbn [lim_pred]. destruct (walk M fuel None s'). reflexivity. Qed.

  Lemma walk_end : forall fuel s v s', k_op M s = Ok true -> k_loc M s = Ok v -> k_next M s = Ok (s', false) ->
    walk M (Datatypes.S fuel) None s = ([ev_of v], WEnd s').
  Proof. intros * H1 H2 H3. cbn [walk]. rewrite H1, H2, H3. reflexivity. Qed.

  (* a traversal limited to k next() calls yields the first k+1 events of the unlimited one *)
  Lemma walk_lim : forall fuel k s E sf, walk M fuel None s = (E, WEnd sf) ->
    exists w, walk M fuel (Some k) s = (firstn (Datatypes.S k) E, w)
              /\ match w with WStopped _ | WEnd _ => True | _ => False end.
  Proof.
    induction fuel as [|fuel IH]; intros k s E sf H; [discriminate|].
    cbn [walk] in *. destruct (k_op M s) as [[|]|]; try discriminate.
    2:{ injection H; intros; subst. eexists. split; [reflexivity|exact I]. }
    destruct (k_loc M s) as [v|]; [|discriminate].
    destruct (k_next M s) as [[s' [|]]|] eqn:En; try discriminate.
    - cbn [lim_pred] in H. destruct (walk M fuel None s') as [t w] eqn:Ew. injection H; intros; subst.
      destruct k as [|k].
      + eexists. split; [reflexivity|exact I].
      + destruct (IH k _ _ _ Ew) as (w' & Hw & Hok). cbn [lim_pred pred]. rewrite Hw.
        eexists. split; [reflexivity|exact Hok].
    - injection H; intros; subst. destruct k as [|k].
      + eexists. split; [reflexivity|exact I].
      + eexists. split; [reflexivity|exact I].
  Qed.

  (* an invariant of next() holds in the state where a traversal stops *)
  Lemma walk_inv : forall (Inv : S -> Prop),
    (forall s s' b, Inv s -> k_next M s = Ok (s', b) -> Inv s') ->
    forall fuel lim s t w, Inv s -> walk M fuel lim s = (t, w) ->
    match w with WStopped s' | WEnd s' => Inv s' | _ => True end.
  Proof.
    intros Inv Hstep. induction fuel as [|fuel IH]; intros lim s t w Hs H.
    - cbn in H. injection H; intros; subst. exact I.
    - cbn [walk] in H. destruct (k_op M s) as [[|]|].
      2:{ injection H; intros; subst. exact Hs. }
      2:{ injection H; intros; subst. exact I. }
      destruct (k_loc M s) as [v|]; [|injection H; intros; subst; exact I].
      assert (match k_next M s with
              | Panic => ([ev_of v; EPanic], WPanic)
              | Ok (s', false) => ([ev_of v], WEnd s')
              | Ok (s', true) => let '(t, w) := walk M fuel (lim_pred lim) s' in (ev_of v :: t, w)
              end = (t, w) -> match w with WStopped s' | WEnd s' => Inv s' | _ => True end) as Hgo.
      { destruct (k_next M s) as [[s' [|]]|] eqn:En.
        - destruct (walk M fuel (lim_pred lim) s') as [t' w'] eqn:Ew. intros H'. injection H'; intros; subst.
          eapply IH; [|exact Ew]. eapply Hstep; eassumption.
        - intros H'. injection H'; intros; subst. eapply Hstep; eassumption.
        - intros H'. injection H'; intros; subst. exact I. }
      destruct lim as [[|k]|]; [injection H; intros; subst; exact Hs|exact (Hgo H)|exact (Hgo H)].
  Qed.
End Walk.

(* ------------------------------------------------------------------------------------------ *)
(* steps of the ModuleSubIterator *)

Ltac prj := cbn [m_idx m_meta m_fi m_skip f_cur f_num c_mod c_num c_it c_metas c_skips k_op k_loc k_next k_reset] in *.

Lemma f_has_next_true : forall c n, c + 1 < n -> f_has_next (mkF c n) = true.
Proof. intros. unfold f_has_next. prj. apply N.ltb_lt. assumption. Qed.
Lemma f_has_next_false : forall c n, n <= c + 1 -> f_has_next (mkF c n) = false.
Proof. intros. unfold f_has_next. prj. apply N.ltb_ge. assumption. Qed.

Lemma m_next_in : forall idx mt c n skip, c + 1 < n ->
  m_next (mkM idx mt (mkF c n) skip) = (mkM idx mt (mkF (c + 1) n) skip, true).
Proof.
  intros. unfold m_next, f_next. prj. rewrite (f_has_next_true _ _ H). prj. reflexivity.
Qed.

(* next() on the last instruction of a function: only skipped functions follow -- the cursor stays *)
Lemma m_next_fend_none : forall idx mt c n skip fn post, skipn idx mt = fn :: post -> n <= c + 1 ->
  drop_skipped skip post = [] ->
  m_next (mkM idx mt (mkF c n) skip) = (mkM idx mt (mkF c n) skip, false).
Proof.
  intros * Hs Hc Ed. unfold m_next. prj. rewrite (f_has_next_false _ _ Hc).
  destruct (skipn_cons_inv _ _ _ _ Hs) as (_ & Hs' & _).
  unfold m_next_function, next_unskipped. prj. rewrite Hs'.
  pose proof (find_unskipped_spec skip post (S idx) mt Hs') as Hf.
  destruct (find_unskipped skip post (S idx)); [|reflexivity].
  destruct Hf as (f & n' & r & Hd & _). congruence.
Qed.
(* ... an unskipped function follows: the cursor moves to its first instruction *)
Lemma m_next_fend_some : forall idx mt c n skip fn post f' n' post'', skipn idx mt = fn :: post -> n <= c + 1 ->
  drop_skipped skip post = (f', n') :: post'' ->
  exists idx', skipn idx' mt = (f', n') :: post''
               /\ m_next (mkM idx mt (mkF c n) skip) = (mkM idx' mt (mkF 0 n') skip, true).
Proof.
  intros * Hs Hc Ed. unfold m_next. prj. rewrite (f_has_next_false _ _ Hc).
  destruct (skipn_cons_inv _ _ _ _ Hs) as (_ & Hs' & _).
  unfold m_next_function, next_unskipped. prj. rewrite Hs'.
  pose proof (find_unskipped_spec skip post (S idx) mt Hs') as Hf.
  destruct (find_unskipped skip post (S idx)) as [i|]; [|congruence].
  destruct Hf as (f & n0 & r & Hd & Hsk). rewrite Ed in Hd. injection Hd; intros; subst.
  exists i. split; [exact Hsk|]. unfold get_curr_func, f_new. prj. rewrite (nth_of_skipn _ _ _ _ _ Hsk). reflexivity.
Qed.

(* new(): on the first unskipped function, with that function's length; or empty *)
Lemma m_new_nonempty : forall mt skip f n post, drop_skipped skip mt = (f, n) :: post ->
  exists idx, skipn idx mt = (f, n) :: post /\ m_new mt skip = mkM idx mt (mkF 0 n) skip.
Proof.
  intros * Ed. unfold m_new, m_reset, next_unskipped. prj. cbn [skipn].
  pose proof (find_unskipped_spec skip mt 0 mt eq_refl) as Hf.
  destruct (find_unskipped skip mt 0) as [i|]; [|congruence].
  destruct Hf as (f0 & n0 & r & Hd & Hsk). rewrite Ed in Hd. injection Hd; intros; subst.
  exists i. split; [exact Hsk|]. unfold get_curr_func. prj. rewrite (nth_of_skipn _ _ _ _ _ Hsk). reflexivity.
Qed.
Lemma m_new_empty : forall mt skip, drop_skipped skip mt = [] ->
  m_new mt skip = mkM (length mt) mt (mkF 0 0) skip.
Proof.
  intros * Ed. unfold m_new, m_reset, next_unskipped. prj. cbn [skipn].
  pose proof (find_unskipped_spec skip mt 0 mt eq_refl) as Hf.
  destruct (find_unskipped skip mt 0) as [i|].
  - destruct Hf as (f0 & n0 & r & Hd & _). congruence.
  - unfold get_curr_func. prj. rewrite nth_overflow by lia. reflexivity.
Qed.

Lemma m_reset_is_new : forall s, m_reset s = m_new (m_meta s) (m_skip s).
Proof. intros [idx mt fi skip]. reflexivity. Qed.

Lemma m_next_keeps : forall s s' b, m_next s = (s', b) -> m_meta s' = m_meta s /\ m_skip s' = m_skip s.
Proof.
  intros s s' b H. unfold m_next in H. destruct (f_has_next (m_fi s)).
  - destruct (f_next (m_fi s)). injection H; intros; subst. prj. auto.
  - unfold m_next_function in H. destruct (next_unskipped s (S (m_idx s))); injection H; intros; subst; prj; auto.
Qed.

Lemma m_next_nonempty : forall s s' b, m_is_empty s = false -> m_next s = (s', b) -> m_is_empty s' = false.
Proof.
  intros s s' b He H. unfold m_next in H. destruct (f_has_next (m_fi s)).
  - destruct (f_next (m_fi s)). injection H; intros; subst. exact He.
  - unfold m_next_function, next_unskipped in H.
    pose proof (find_unskipped_spec (m_skip s) _ (S (m_idx s)) (m_meta s) eq_refl) as Hf.
    destruct (find_unskipped (m_skip s) (skipn (S (m_idx s)) (m_meta s)) (S (m_idx s))) as [i|];
      injection H; intros; subst; [|exact He].
    destruct Hf as (f & n & r & _ & Hsk). apply skipn_cons_inv in Hsk. destruct Hsk as (_ & _ & Hl).
    unfold m_is_empty. prj. apply Nat.leb_gt. lia.
Qed.

Lemma wf_meta_nth : forall mt i f n, wf_meta mt = true -> nth_error mt i = Some (f, n) -> 1 <= n.
Proof.
  intros mt i f n H Hn. unfold wf_meta in H. apply andb_true_iff in H. destruct H as [H _].
  rewrite forallb_forall in H. apply nth_error_In in Hn. specialize (H _ Hn). cbn [snd] in H.
  apply N.leb_le in H. exact H.
Qed.
Lemma wf_meta_asc : forall mt, wf_meta mt = true -> ascending (map fst mt) = true.
Proof. intros mt H. unfold wf_meta in H. apply andb_true_iff in H. tauto. Qed.

(* what no step of the component cursor changes *)
Definition sig3 (c : csub) := (c_metas c, c_skips c, c_num c).
Lemma c_next_module_sig : forall c c' b, c_next_module c = (c', b) -> sig3 c' = sig3 c.
Proof.
  intros c c' b H. unfold c_next_module in H. destruct (Nat.leb (c_num c) (c_mod c)); [injection H; intros; subst; reflexivity|].
  destruct (Nat.ltb (S (c_mod c)) (c_num c)); injection H; intros; subst; reflexivity.
Qed.
Lemma c_skip_empty_go_sig : forall fuel c c' b, c_skip_empty_go fuel c = (c', b) -> sig3 c' = sig3 c.
Proof.
  induction fuel as [|fuel IH]; intros c c' b H; cbn [c_skip_empty_go] in H; [injection H; intros; subst; reflexivity|].
  destruct (m_is_empty (c_it c)); [|injection H; intros; subst; reflexivity].
  destruct (c_next_module c) as [c1 b1] eqn:En. apply c_next_module_sig in En. destruct b1.
  - rewrite (IH _ _ _ H). exact En.
  - injection H; intros; subst. exact En.
Qed.
Lemma c_next_sig : forall c c' b, c_next c = (c', b) -> sig3 c' = sig3 c.
Proof.
  intros c c' b H. unfold c_next in H. destruct (m_next (c_it c)) as [it b0]. destruct b0; [injection H; intros; subst; reflexivity|].
  match type of H with context [c_next_module ?x] => destruct (c_next_module x) as [c1 b1] eqn:En end.
  apply c_next_module_sig in En. destruct b1.
  - unfold c_skip_empty in H. rewrite (c_skip_empty_go_sig _ _ _ _ H). exact En.
  - injection H; intros; subst. exact En.
Qed.
Lemma ci_next_sig : forall c c' b, ci_next c = Ok (c', b) -> sig3 c' = sig3 c.
Proof.
  intros c c' b H. unfold ci_next in H. destruct (c_next c) as [c1 b1] eqn:En. apply c_next_sig in En. destruct b1.
  - destruct (ci_curr_op c1); [|discriminate]. injection H; intros; subst. exact En.
  - injection H; intros; subst. exact En.
Qed.

(* ------------------------------------------------------------------------------------------ *)
(* the ComponentIterator on a fixed component *)

Section Comp.
  Variable metas : list meta.
  Variable skips : list (list N).

  Definition cst (cm idx : nat) (mt : meta) (c n : N) (skip : list N) : csub :=
    mkC cm (length metas) (mkM idx mt (mkF c n) skip) metas skips.
  (* the state on entering module cm *)
  Definition cent (cm : nat) : csub :=
    mkC cm (length metas) (m_new (nth cm metas []) (nth cm skips [])) metas skips.
  Definition Inv (s : csub) : Prop := sig3 s = (metas, skips, length metas).

  Lemma ci_op_loc : forall cm idx mt c n skip f post,
    nth_error metas cm = Some mt -> ascending (map fst mt) = true -> skipn idx mt = (f, n) :: post -> c < n ->
    ci_curr_op (cst cm idx mt c n skip) = Ok true
    /\ c_curr_loc (cst cm idx mt c n skip) = (N.of_nat cm, f, c, n <=? c + 1).
  Proof.
    intros * Hm Ha Hs Hc.
    assert (cm < length metas)%nat as Hlt by (apply nth_error_Some; congruence).
    destruct (skipn_cons_inv _ _ _ _ Hs) as (Hn & _ & _).
    assert (c_curr_loc (cst cm idx mt c n skip) = (N.of_nat cm, f, c, n <=? c + 1)) as Hloc.
    { unfold c_curr_loc, m_curr_loc, get_curr_func, cst, f_is_end. prj. rewrite (nth_of_skipn _ _ _ _ _ Hs). reflexivity. }
    split; [|exact Hloc].
    unfold ci_curr_op. rewrite Hloc. unfold c_end, cst. prj.
    assert (Nat.eqb cm (length metas) = false) as -> by (apply Nat.eqb_neq; lia).
    rewrite Hm, (body_len_nth _ _ _ _ Ha Hn).
    assert (c <? n = true) as -> by (apply N.ltb_lt; exact Hc). reflexivity.
  Qed.

  Lemma ci_next_in : forall cm idx mt c n skip f post,
    nth_error metas cm = Some mt -> ascending (map fst mt) = true -> skipn idx mt = (f, n) :: post -> c + 1 < n ->
    ci_next (cst cm idx mt c n skip) = Ok (cst cm idx mt (c + 1) n skip, true).
  Proof.
    intros * Hm Ha Hs Hc. unfold ci_next, c_next, cst. prj. rewrite (m_next_in _ _ _ _ _ Hc).
    change (mkC cm (length metas) (mkM idx mt (mkF (c + 1) n) skip) metas skips) with (cst cm idx mt (c + 1) n skip).
    destruct (ci_op_loc cm idx mt (c + 1) n skip f post Hm Ha Hs Hc) as [-> _]. reflexivity.
  Qed.

  (* d steps inside a function *)
  Lemma walk_pre : forall cm idx mt n skip f post,
    nth_error metas cm = Some mt -> ascending (map fst mt) = true -> skipn idx mt = (f, n) :: post ->
    forall d c fuel, c + N.of_nat d < n ->
    walk CI (d + fuel) None (cst cm idx mt c n skip)
    = (pre (N.of_nat cm) f d c ++ fst (walk CI fuel None (cst cm idx mt (c + N.of_nat d) n skip)),
       snd (walk CI fuel None (cst cm idx mt (c + N.of_nat d) n skip))).
  Proof.
    intros * Hm Ha Hs. induction d as [|d IH]; intros c fuel Hc.
    - cbn [Nat.add pre app N.of_nat]. rewrite N.add_0_r. destruct (walk CI fuel None (cst cm idx mt c n skip)). reflexivity.
    - assert (c + 1 < n) as Hc1 by lia.
      destruct (ci_op_loc cm idx mt c n skip f post Hm Ha Hs ltac:(lia)) as [Hop Hloc].
      change (S d + fuel)%nat with (S (d + fuel)).
      rewrite (walk_more CI (d + fuel) _ _ _ Hop (f_equal Ok Hloc) (ci_next_in _ _ _ _ _ _ _ _ Hm Ha Hs Hc1)).
      rewrite IH by lia. cbn [fst snd ev_of pre app].
      assert (n <=? c + 1 = false) as -> by (apply N.leb_gt; lia).
      replace (c + 1 + N.of_nat d) with (c + N.of_nat (S d)) by lia. reflexivity.
  Qed.

  (* next() on the last instruction of a function that is followed by an unskipped function *)
  Lemma ci_next_fnext : forall cm idx mt c n skip f post f' n' post'',
    nth_error metas cm = Some mt -> wf_meta mt = true -> skipn idx mt = (f, n) :: post -> n <= c + 1 ->
    drop_skipped skip post = (f', n') :: post'' ->
    exists idx', skipn idx' mt = (f', n') :: post''
                 /\ ci_next (cst cm idx mt c n skip) = Ok (cst cm idx' mt 0 n' skip, true).
  Proof.
    intros * Hm Hwf Hs Hc Ed.
    destruct (m_next_fend_some _ _ _ _ skip _ _ _ _ _ Hs Hc Ed) as (idx' & Hd & Hnext).
    exists idx'. split; [exact Hd|].
    unfold ci_next, c_next, cst. prj. rewrite Hnext.
    change (mkC cm (length metas) (mkM idx' mt (mkF 0 n') skip) metas skips) with (cst cm idx' mt 0 n' skip).
    destruct (skipn_cons_inv _ _ _ _ Hd) as (Hn' & _ & _).
    pose proof (wf_meta_nth _ _ _ _ Hwf Hn') as H1.
    destruct (ci_op_loc cm idx' mt 0 n' skip f' post'' Hm (wf_meta_asc _ Hwf) Hd ltac:(lia)) as [-> _]. reflexivity.
  Qed.

  (* from the first instruction of an unskipped function to the last instruction of the module's last
     unskipped function *)
  Lemma walk_funcs : forall cm mt skip, nth_error metas cm = Some mt -> wf_meta mt = true ->
    forall k post, (length post <= k)%nat -> forall idx f n, skipn idx mt = (f, n) :: post ->
    exists Epre idx_l f_l n_l post_l,
      skipn idx_l mt = (f_l, n_l) :: post_l /\ drop_skipped skip post_l = [] /\ 1 <= n_l
      /\ Epre ++ [V (N.of_nat cm) f_l (n_l - 1) true true]
         = func_visits (N.of_nat cm) (f, n) ++ expected_mod (N.of_nat cm) post skip
      /\ forall fuel, walk CI (length Epre + fuel) None (cst cm idx mt 0 n skip)
                      = (Epre ++ fst (walk CI fuel None (cst cm idx_l mt (n_l - 1) n_l skip)),
                         snd (walk CI fuel None (cst cm idx_l mt (n_l - 1) n_l skip))).
  Proof.
    intros cm mt skip Hm Hwf. pose proof (wf_meta_asc _ Hwf) as Ha.
    assert (forall post idx f n, skipn idx mt = (f, n) :: post -> drop_skipped skip post = [] ->
      exists Epre idx_l f_l n_l post_l,
      skipn idx_l mt = (f_l, n_l) :: post_l /\ drop_skipped skip post_l = [] /\ 1 <= n_l
      /\ Epre ++ [V (N.of_nat cm) f_l (n_l - 1) true true]
         = func_visits (N.of_nat cm) (f, n) ++ expected_mod (N.of_nat cm) post skip
      /\ forall fuel, walk CI (length Epre + fuel) None (cst cm idx mt 0 n skip)
                      = (Epre ++ fst (walk CI fuel None (cst cm idx_l mt (n_l - 1) n_l skip)),
                         snd (walk CI fuel None (cst cm idx_l mt (n_l - 1) n_l skip)))) as Hbase.
    { intros post idx f n Hs Ed.
      destruct (skipn_cons_inv _ _ _ _ Hs) as (Hn & _ & _). pose proof (wf_meta_nth _ _ _ _ Hwf Hn) as H1.
      exists (pre (N.of_nat cm) f (N.to_nat (n - 1)) 0), idx, f, n, post.
      split; [exact Hs|]. split; [exact Ed|]. split; [exact H1|]. split.
      - rewrite (func_visits_split _ _ _ H1), (expected_all_skipped _ _ _ Ed), app_nil_r. reflexivity.
      - intros fuel. rewrite pre_length.
        rewrite (walk_pre cm idx mt n skip f post Hm Ha Hs (N.to_nat (n - 1)) 0 fuel) by lia.
        replace (0 + N.of_nat (N.to_nat (n - 1))) with (n - 1) by lia. reflexivity. }
    induction k as [|k IH]; intros post Hlen idx f n Hs;
      destruct (drop_skipped skip post) as [|[f' n'] post''] eqn:Ed.
    - apply Hbase; assumption.
    - exfalso. destruct (drop_skipped_head _ _ _ _ _ Ed). lia.
    - apply Hbase; assumption.
    - destruct (drop_skipped_head _ _ _ _ _ Ed) as [Hf' Hlt].
      destruct (skipn_cons_inv _ _ _ _ Hs) as (Hn & _ & _). pose proof (wf_meta_nth _ _ _ _ Hwf Hn) as H1.
      destruct (ci_next_fnext cm idx mt (n - 1) n skip f post f' n' post'' Hm Hwf Hs ltac:(lia) Ed)
        as (idx' & Hs'' & Hnext).
      destruct (IH post'' ltac:(lia) idx' f' n' Hs'') as (Epre' & idx_l & f_l & n_l & post_l & Hsl & Edl & Hnl & Heq & Hwalk).
      exists (pre (N.of_nat cm) f (N.to_nat (n - 1)) 0 ++ V (N.of_nat cm) f (n - 1) true true :: Epre'), idx_l, f_l, n_l, post_l.
      split; [exact Hsl|]. split; [exact Edl|]. split; [exact Hnl|]. split.
      + rewrite (func_visits_split _ _ _ H1), (expected_drop _ skip post), Ed, (expected_cons_unskipped _ _ _ _ _ Hf'), <- Heq.
        rewrite <- !app_assoc. cbn [app]. reflexivity.
      + intros fuel. rewrite app_length, pre_length. cbn [length].
        replace (N.to_nat (n - 1) + S (length Epre') + fuel)%nat with (N.to_nat (n - 1) + S (length Epre' + fuel))%nat by lia.
        rewrite (walk_pre cm idx mt n skip f post Hm Ha Hs (N.to_nat (n - 1)) 0 _) by lia.
        replace (0 + N.of_nat (N.to_nat (n - 1))) with (n - 1) by lia.
        destruct (ci_op_loc cm idx mt (n - 1) n skip f post Hm Ha Hs ltac:(lia)) as [Hop Hloc].
        rewrite (walk_more CI _ _ _ _ Hop (f_equal Ok Hloc) Hnext), Hwalk. cbn [fst snd ev_of].
        assert (n <=? n - 1 + 1 = true) as -> by (apply N.leb_le; lia).
        rewrite <- app_assoc. cbn [app]. reflexivity.
  Qed.

  Lemma expected_comp_from_cons : forall m mt r sk,
    expected_comp_from m (mt :: r) sk = expected_mod m mt (hd [] sk) ++ expected_comp_from (m + 1) r (tl sk).
  Proof. reflexivity. Qed.

  Lemma c_next_module_at : forall cm it, (cm < length metas)%nat ->
    c_next_module (mkC cm (length metas) it metas skips)
    = if Nat.ltb (S cm) (length metas) then (cent (S cm), true) else (mkC (S cm) (length metas) it metas skips, false).
  Proof.
    intros cm it Hlt. unfold c_next_module. prj.
    assert (Nat.leb (length metas) cm = false) as -> by (apply Nat.leb_gt; exact Hlt).
    destruct (Nat.ltb (S cm) (length metas)); reflexivity.
  Qed.

  (* Entering module cm and stepping over the modules that have nothing to visit; from the module the
     cursor lands in, the traversal yields the specified events of all remaining modules. *)
  Lemma walk_modules : forall rest cm mt, skipn cm metas = mt :: rest -> forallb wf_meta (mt :: rest) = true ->
    forall fuel, (length rest < fuel)%nat ->
    exists c1 b, c_skip_empty_go fuel (cent cm) = (c1, b) /\ Inv c1 /\
      if b then ci_curr_op c1 = Ok true /\
                forall fw, exists sf,
                  walk CI (length (expected_comp_from (N.of_nat cm) (mt :: rest) (skipn cm skips)) + fw) None c1
                  = (expected_comp_from (N.of_nat cm) (mt :: rest) (skipn cm skips), WEnd sf) /\ Inv sf
      else expected_comp_from (N.of_nat cm) (mt :: rest) (skipn cm skips) = [] /\ c_end c1 = true.
  Proof.
    induction rest as [|mt' rest IH]; intros cm mt Hsk Hwfs fuel Hfuel;
      destruct (skipn_cons_inv _ _ _ _ Hsk) as (Hm & Hsk' & Hlen);
      cbn [forallb] in Hwfs; apply andb_true_iff in Hwfs; destruct Hwfs as [Hwf Hwfs];
      assert (cm < length metas)%nat as Hlt by lia;
      (destruct fuel as [|fuel]; [lia|]);
      rewrite expected_comp_from_cons, skipn_hd_nth, skipn_tl;
      cbn [c_skip_empty_go];
      assert (c_it (cent cm) = m_new mt (nth cm skips [])) as Hit by (unfold cent; prj; rewrite (nth_of_skipn _ _ _ _ _ Hsk); reflexivity);
      rewrite Hit;
      destruct (drop_skipped (nth cm skips []) mt) as [|[f n] post] eqn:Ed.
    - (* last module, nothing to visit *)
      rewrite (m_new_empty _ _ Ed). unfold m_is_empty. prj. rewrite Nat.leb_refl.
      unfold cent at 1. rewrite (c_next_module_at cm _ Hlt).
      assert (Nat.ltb (S cm) (length metas) = false) as -> by (apply Nat.ltb_ge; cbn [length] in Hlen; lia).
      eexists. exists false. split; [reflexivity|]. split; [reflexivity|].
      split; [rewrite (expected_all_skipped _ _ _ Ed); reflexivity|].
      unfold c_end. prj. apply Nat.eqb_eq. cbn [length] in Hlen. lia.
    - (* last module, something to visit *)
      destruct (m_new_nonempty _ _ _ _ _ Ed) as (idx & Hs & Hnew). rewrite Hnew.
      destruct (skipn_cons_inv _ _ _ _ Hs) as (Hn & _ & Hl).
      unfold m_is_empty. prj. assert (Nat.leb (length mt) idx = false) as -> by (apply Nat.leb_gt; lia).
      assert (cent cm = cst cm idx mt 0 n (nth cm skips [])) as Hc
        by (unfold cent, cst; rewrite (nth_of_skipn _ _ _ _ _ Hsk), Hnew; reflexivity).
      rewrite Hc. eexists. exists true. split; [reflexivity|]. split; [reflexivity|].
      pose proof (wf_meta_nth _ _ _ _ Hwf Hn) as H1.
      destruct (ci_op_loc cm idx mt 0 n (nth cm skips []) f post Hm (wf_meta_asc _ Hwf) Hs ltac:(lia)) as [Hop0 _].
      split; [exact Hop0|]. intros fw.
      destruct (drop_skipped_head _ _ _ _ _ Ed) as [Hf _].
      destruct (walk_funcs cm mt (nth cm skips []) Hm Hwf (length post) post (le_n _) idx f n Hs)
        as (Epre & idx_l & f_l & n_l & post_l & Hsl & Edl & Hnl & Heq & Hwalk).
      assert (expected_mod (N.of_nat cm) mt (nth cm skips []) = Epre ++ [V (N.of_nat cm) f_l (n_l - 1) true true]) as HE
        by (rewrite Heq, (expected_drop _ _ mt), Ed; apply expected_cons_unskipped; exact Hf).
      destruct (ci_op_loc cm idx_l mt (n_l - 1) n_l (nth cm skips []) f_l post_l Hm (wf_meta_asc _ Hwf) Hsl ltac:(lia)) as [Hop Hloc].
      assert (n_l <=? n_l - 1 + 1 = true) as Hend by (apply N.leb_le; lia).
      rewrite HE. cbn [expected_comp_from]. rewrite app_nil_r, app_length. cbn [length].
      replace (length Epre + 1 + fw)%nat with (length Epre + S fw)%nat by lia. rewrite Hwalk.
      assert (ci_next (cst cm idx_l mt (n_l - 1) n_l (nth cm skips []))
              = Ok (mkC (S cm) (length metas) (mkM idx_l mt (mkF (n_l - 1) n_l) (nth cm skips [])) metas skips, false)) as Hnext.
      { unfold ci_next, c_next, cst. prj. rewrite (m_next_fend_none idx_l mt (n_l - 1) n_l (nth cm skips []) _ _ Hsl ltac:(lia) Edl).
        rewrite (c_next_module_at cm _ Hlt).
        assert (Nat.ltb (S cm) (length metas) = false) as -> by (apply Nat.ltb_ge; cbn [length] in Hlen; lia). reflexivity. }
      eexists. rewrite (walk_end CI _ _ _ _ Hop (f_equal Ok Hloc) Hnext). cbn [fst snd ev_of]. rewrite Hend.
      split; reflexivity.
    - (* nothing to visit, another module follows *)
      rewrite (m_new_empty _ _ Ed). unfold m_is_empty. prj. rewrite Nat.leb_refl.
      unfold cent at 1. rewrite (c_next_module_at cm _ Hlt).
      assert (Nat.ltb (S cm) (length metas) = true) as -> by (apply Nat.ltb_lt; cbn [length] in Hlen; lia).
      destruct (IH (S cm) mt' Hsk' Hwfs fuel ltac:(cbn [length] in Hfuel; lia)) as (c1 & b & Hgo & HI & Hrest).
      exists c1, b. split; [exact Hgo|]. split; [exact HI|].
      rewrite (expected_all_skipped _ _ _ Ed). cbn [app].
      replace (N.of_nat cm + 1) with (N.of_nat (S cm)) by lia. exact Hrest.
    - (* something to visit, another module follows *)
      destruct (m_new_nonempty _ _ _ _ _ Ed) as (idx & Hs & Hnew). rewrite Hnew.
      destruct (skipn_cons_inv _ _ _ _ Hs) as (Hn & _ & Hl).
      unfold m_is_empty. prj. assert (Nat.leb (length mt) idx = false) as -> by (apply Nat.leb_gt; lia).
      assert (cent cm = cst cm idx mt 0 n (nth cm skips [])) as Hc
        by (unfold cent, cst; rewrite (nth_of_skipn _ _ _ _ _ Hsk), Hnew; reflexivity).
      rewrite Hc. eexists. exists true. split; [reflexivity|]. split; [reflexivity|].
      pose proof (wf_meta_nth _ _ _ _ Hwf Hn) as H1.
      destruct (ci_op_loc cm idx mt 0 n (nth cm skips []) f post Hm (wf_meta_asc _ Hwf) Hs ltac:(lia)) as [Hop0 _].
      split; [exact Hop0|].
      destruct (drop_skipped_head _ _ _ _ _ Ed) as [Hf _].
      destruct (walk_funcs cm mt (nth cm skips []) Hm Hwf (length post) post (le_n _) idx f n Hs)
        as (Epre & idx_l & f_l & n_l & post_l & Hsl & Edl & Hnl & Heq & Hwalk).
      assert (expected_mod (N.of_nat cm) mt (nth cm skips []) = Epre ++ [V (N.of_nat cm) f_l (n_l - 1) true true]) as HE
        by (rewrite Heq, (expected_drop _ _ mt), Ed; apply expected_cons_unskipped; exact Hf).
      destruct (ci_op_loc cm idx_l mt (n_l - 1) n_l (nth cm skips []) f_l post_l Hm (wf_meta_asc _ Hwf) Hsl ltac:(lia)) as [Hop Hloc].
      assert (n_l <=? n_l - 1 + 1 = true) as Hend by (apply N.leb_le; lia).
      (* the step out of this module: next_module, then skip_empty_modules *)
      destruct (IH (S cm) mt' Hsk' Hwfs (S (length metas - S cm)) ltac:(cbn [length] in Hlen; lia)) as (c1 & b & Hgo & HI & Hrest).
      assert (c_next (cst cm idx_l mt (n_l - 1) n_l (nth cm skips [])) = (c1, b)) as Hcn.
      { unfold c_next, cst. prj. rewrite (m_next_fend_none idx_l mt (n_l - 1) n_l (nth cm skips []) _ _ Hsl ltac:(lia) Edl).
        rewrite (c_next_module_at cm _ Hlt).
        assert (Nat.ltb (S cm) (length metas) = true) as -> by (apply Nat.ltb_lt; cbn [length] in Hlen; lia).
        unfold c_skip_empty. unfold cent at 1 2. prj. fold (cent (S cm)). rewrite Hgo. destruct b; reflexivity. }
      replace (N.of_nat cm + 1) with (N.of_nat (S cm)) by lia.
      set (E2 := expected_comp_from (N.of_nat (S cm)) (mt' :: rest) (skipn (S cm) skips)) in *.
      intros fw. rewrite HE, !app_length. cbn [length].
      replace (length Epre + 1 + length E2 + fw)%nat with (length Epre + S (length E2 + fw))%nat by lia.
      rewrite Hwalk. destruct b.
      + destruct Hrest as [Hop1 Hw]. destruct (Hw fw) as (sf & Hw' & HIf).
        assert (ci_next (cst cm idx_l mt (n_l - 1) n_l (nth cm skips [])) = Ok (c1, true)) as Hnext
          by (unfold ci_next; rewrite Hcn, Hop1; reflexivity).
        exists sf. rewrite (walk_more CI _ _ _ _ Hop (f_equal Ok Hloc) Hnext), Hw'. cbn [fst snd ev_of]. rewrite Hend.
        split; [|exact HIf]. rewrite <- !app_assoc. cbn [app]. reflexivity.
      + destruct Hrest as [HE2 _].
        assert (ci_next (cst cm idx_l mt (n_l - 1) n_l (nth cm skips [])) = Ok (c1, false)) as Hnext
          by (unfold ci_next; rewrite Hcn; reflexivity).
        exists c1. rewrite HE2. cbn [length Nat.add].
        rewrite (walk_end CI _ _ _ _ Hop (f_equal Ok Hloc) Hnext). cbn [fst snd ev_of]. rewrite Hend, app_nil_r.
        split; [reflexivity|exact HI].
  Qed.
End Comp.
(* the script never needs more fuel than [fuel_of_comp] *)
Lemma instrs_length : forall m f n i, length (instrs m f n i) = n.
Proof. induction n; intros; cbn [instrs length]; auto. Qed.
Lemma expected_mod_length : forall m mt skip, (length (expected_mod m mt skip) <= N.to_nat (total_instrs mt))%nat.
Proof.
  intros m mt skip. unfold expected_mod, total_instrs. induction mt as [|[f n] mt IH]; cbn [filter flat_map fold_right length fst snd]; [lia|].
  rewrite N2Nat.inj_add. destruct (negb (skipped skip f)); cbn [flat_map].
  - rewrite app_length. unfold func_visits at 1. rewrite instrs_length. cbn [snd]. lia.
  - lia.
Qed.
Lemma expected_comp_length : forall metas m skips,
  (length (expected_comp_from m metas skips) <= N.to_nat (fold_right (fun mt a => (total_instrs mt + a)%N) 0%N metas))%nat.
Proof.
  induction metas as [|mt metas IH]; intros m skips; cbn [expected_comp_from fold_right length]; [lia|].
  rewrite app_length, N2Nat.inj_add. pose proof (expected_mod_length m mt (hd [] skips)). specialize (IH (m + 1) (tl skips)). lia.
Qed.

(* ------------------------------------------------------------------------------------------ *)

Lemma c_reset_is_new : forall metas skips s, Inv metas skips s -> c_reset s = c_new metas skips.
Proof.
  intros metas skips [cm num it ms sk] H. unfold Inv, sig3 in H. prj. injection H; intros; subst. reflexivity.
Qed.
Lemma ci_next_inv : forall metas skips s s' b, Inv metas skips s -> ci_next s = Ok (s', b) -> Inv metas skips s'.
Proof. intros * HI H. unfold Inv. rewrite (ci_next_sig _ _ _ H). exact HI. Qed.

(* one full traversal from the state new() gives *)
Lemma top_walk : forall metas skips, forallb wf_meta metas = true ->
  Inv metas skips (c_new metas skips) /\
  exists sf, walk CI (fuel_of_comp metas) None (c_new metas skips) = (expected_comp metas skips, WEnd sf)
             /\ Inv metas skips sf.
Proof.
  intros metas skips Hwf. destruct metas as [|mt0 rest].
  - split; [reflexivity|]. exists (c_new [] skips). split; reflexivity.
  - remember (mt0 :: rest) as metas eqn:Em.
    assert (skipn 0 metas = mt0 :: rest) as Hsk by (rewrite Em; reflexivity).
    pose proof Hwf as Hwf'. rewrite Em in Hwf'.
    destruct (walk_modules metas skips rest 0 mt0 Hsk Hwf' (S (length metas - 0)) ltac:(rewrite Em; cbn [length]; lia))
      as (c1 & b & Hgo & HI & Hrest).
    change (c_new metas skips) with (fst (c_skip_empty_go (S (length metas - 0)) (cent metas skips 0))).
    rewrite Hgo. cbn [fst]. split; [exact HI|].
    cbn [skipn N.of_nat] in Hrest. rewrite <- Em in Hrest. fold (expected_comp metas skips) in Hrest.
    set (E := expected_comp metas skips) in *. set (F := fuel_of_comp metas).
    destruct b.
    + destruct Hrest as [_ Hw].
      pose proof (expected_comp_length metas 0 skips) as HL. fold (expected_comp metas skips) in HL. fold E in HL.
      assert (F = length E + (F - length E))%nat as -> by (unfold F, fuel_of_comp; lia). apply Hw.
    + destruct Hrest as [HE Hend]. exists c1. rewrite HE. split; [|exact HI].
      unfold F, fuel_of_comp. cbn [walk]. change (k_op CI c1) with (ci_curr_op c1). unfold ci_curr_op. rewrite Hend. reflexivity.
Qed.

(* ------------------------------------------------------------------------------------------ *)
(* C26, visiting half: the ComponentIterator script yields exactly the specified events *)

Theorem ci_run_exact : forall metas skips k probe,
  forallb wf_meta metas = true ->
  ci_run metas skips k probe = expected_trace (expected_comp metas skips) k probe.
Proof.
  intros metas skips k probe Hwf.
  destruct (top_walk metas skips Hwf) as (HI0 & sf & Hw & HIf).
  set (E := expected_comp metas skips) in *. set (F := fuel_of_comp metas) in *. set (s0 := c_new metas skips) in *.
  assert (full CI F probe s0 = E ++ (if probe then [EAfter] else [])) as Hfull.
  { unfold full. rewrite Hw. destruct probe; [reflexivity|rewrite app_nil_r; reflexivity]. }
  unfold ci_run, run. fold F s0.
  destruct k as [k|]; [|exact Hfull].
  destruct (walk_lim CI F k s0 E sf Hw) as (w & Hwk & Hwok). rewrite Hwk.
  pose proof (walk_inv CI (Inv metas skips) (ci_next_inv metas skips) F (Some k) s0 _ w HI0 Hwk) as HIw.
  assert (forall s', Inv metas skips s' -> firstn (S k) E ++ EReset :: full CI F probe (c_reset s') = expected_trace E (Some k) probe) as Hgo.
  { intros s' HI'. rewrite (c_reset_is_new _ _ _ HI'). fold s0. rewrite Hfull.
    unfold expected_trace. rewrite <- app_assoc. reflexivity. }
  destruct w as [| |s'|s']; try contradiction; exact (Hgo s' HIw).
Qed.

(* ------------------------------------------------------------------------------------------ *)
(* The ModuleIterator is the ComponentIterator on a component with that one module *)

Section One.
  Variable mt : meta.
  Variable skip : list N.

  Definition wrap (j : nat) (ms : msub) : csub := mkC j 1 ms [mt] [skip].
  Definition fine (ms : msub) : Prop := m_meta ms = mt /\ m_skip ms = skip.
  (* the states in which a traversal may start: inside the module, or past it when it has nothing to visit *)
  Definition live (j : nat) (ms : msub) : Prop :=
    fine ms /\ ((j = 0%nat /\ m_is_empty ms = false) \/ (j = 1%nat /\ m_is_empty ms = true)).
  Definition init_of (ms : msub) : csub := if m_is_empty ms then wrap 1 ms else wrap 0 ms.

  Lemma one_op : forall j ms, live j ms -> ci_curr_op (wrap j ms) = mi_curr_op ms.
  Proof.
    intros j ms [[Hm _] [[-> He]|[-> He]]]; unfold ci_curr_op, mi_curr_op, c_end, c_curr_loc, wrap; prj; rewrite He; cbn [Nat.eqb]; [|reflexivity].
    destruct (m_curr_loc ms) as [[f i] e]. cbn [nth_error]. rewrite Hm. reflexivity.
  Qed.

  Lemma one_loc : forall j ms, exists f i e, k_loc MI ms = Ok (0, f, i, e) /\ k_loc CI (wrap j ms) = Ok (N.of_nat j, f, i, e).
  Proof.
    intros. unfold CI, MI, c_curr_loc, wrap. prj. destruct (m_curr_loc ms) as [[f i] e]. exists f, i, e. auto.
  Qed.

  Lemma one_next : forall ms, live 0 ms ->
    match mi_next ms, ci_next (wrap 0 ms) with
    | Panic, Panic => True
    | Ok (ms', b), Ok (cs', b') => b = b' /\ fine ms' /\ exists j, cs' = wrap j ms' /\ (b = true -> j = 0%nat /\ live 0 ms')
    | _, _ => False
    end.
  Proof.
    intros ms [[Hm Hs] [[_ He]|[H01 _]]]; [|discriminate].
    unfold mi_next, ci_next, c_next, wrap. prj.
    destruct (m_next ms) as [ms' b] eqn:En.
    destruct (m_next_keeps _ _ _ En) as [Hk1 Hk2]. rewrite Hm in Hk1. rewrite Hs in Hk2.
    pose proof (m_next_nonempty _ _ _ He En) as He'.
    assert (live 0 ms') as Hlive by (split; [split; assumption|left; auto]).
    destruct b.
    - change (mkC 0 1 ms' [mt] [skip]) with (wrap 0 ms'). rewrite (one_op _ _ Hlive).
      destruct (mi_curr_op ms'); [|exact I]. split; [reflexivity|]. split; [split; assumption|]. exists 0%nat. auto.
    - unfold c_next_module. prj. cbn [Nat.leb Nat.ltb].
      split; [reflexivity|]. split; [split; assumption|]. exists 1%nat. split; [reflexivity|discriminate].
  Qed.

  Definition wrel (w1 : wend msub) (w2 : wend csub) : Prop :=
    match w1, w2 with
    | WPanic, WPanic | WFuel, WFuel => True
    | WStopped a, WStopped b | WEnd a, WEnd b => fine a /\ exists j, b = wrap j a
    | _, _ => False
    end.

  Lemma one_walk : forall fuel lim j ms, live j ms ->
    fst (walk MI fuel lim ms) = fst (walk CI fuel lim (wrap j ms))
    /\ wrel (snd (walk MI fuel lim ms)) (snd (walk CI fuel lim (wrap j ms))).
  Proof.
    induction fuel as [|fuel IH]; intros lim j ms Hl; [cbn; auto|].
    cbn [walk]. change (k_op CI (wrap j ms)) with (ci_curr_op (wrap j ms)). rewrite (one_op _ _ Hl).
    change (k_op MI ms) with (mi_curr_op ms).
    destruct (mi_curr_op ms) as [[|]|] eqn:Eop; cbn [fst snd wrel]; auto.
    2:{ split; [reflexivity|]. split; [exact (proj1 Hl)|]. exists j. reflexivity. }
    assert (j = 0%nat) as ->.
    { destruct Hl as [_ [[-> _]|[_ He]]]; [reflexivity|]. unfold mi_curr_op in Eop. rewrite He in Eop. discriminate. }
    destruct (one_loc 0 ms) as (f & i & e & -> & ->). cbn [N.of_nat].
    assert (forall lim',
      fst (match k_next MI ms with
           | Ok (s', true) => let '(t, w) := walk MI fuel lim' s' in (ev_of (0, f, i, e) :: t, w)
           | Ok (s', false) => ([ev_of (0, f, i, e)], WEnd s')
           | Panic => ([ev_of (0, f, i, e); EPanic], WPanic) end)
      = fst (match k_next CI (wrap 0 ms) with
           | Ok (s', true) => let '(t, w) := walk CI fuel lim' s' in (ev_of (0, f, i, e) :: t, w)
           | Ok (s', false) => ([ev_of (0, f, i, e)], WEnd s')
           | Panic => ([ev_of (0, f, i, e); EPanic], WPanic) end)
      /\ wrel (snd (match k_next MI ms with
           | Ok (s', true) => let '(t, w) := walk MI fuel lim' s' in (ev_of (0, f, i, e) :: t, w)
           | Ok (s', false) => ([ev_of (0, f, i, e)], WEnd s')
           | Panic => ([ev_of (0, f, i, e); EPanic], WPanic) end))
          (snd (match k_next CI (wrap 0 ms) with
           | Ok (s', true) => let '(t, w) := walk CI fuel lim' s' in (ev_of (0, f, i, e) :: t, w)
           | Ok (s', false) => ([ev_of (0, f, i, e)], WEnd s')
           | Panic => ([ev_of (0, f, i, e); EPanic], WPanic) end))) as Hgo.
    { intros lim'. pose proof (one_next ms Hl) as Hn.
      change (k_next MI ms) with (mi_next ms). change (k_next CI (wrap 0 ms)) with (ci_next (wrap 0 ms)).
      destruct (mi_next ms) as [[ms' b]|]; destruct (ci_next (wrap 0 ms)) as [[cs' b']|]; try contradiction.
      2:{ cbn [fst snd wrel]. auto. }
      destruct Hn as (<- & Hf' & j & -> & Hj). destruct b.
      - destruct (Hj eq_refl) as [-> Hj'].
        destruct (IH lim' 0%nat ms' Hj') as [H1 H2].
        destruct (walk MI fuel lim' ms'), (walk CI fuel lim' (wrap 0 ms')). cbn [fst snd] in *. rewrite H1. auto.
      - cbn [fst snd wrel]. split; [reflexivity|]. split; [exact Hf'|]. exists j. reflexivity. }
    destruct lim as [[|k]|]; [|apply Hgo|apply Hgo].
    cbn [fst snd wrel]. split; [reflexivity|]. split; [exact (proj1 Hl)|]. exists 0%nat. reflexivity.
  Qed.

  Lemma live_init : forall ms, fine ms -> exists j, init_of ms = wrap j ms /\ live j ms.
  Proof.
    intros ms Hf. unfold init_of. destruct (m_is_empty ms) eqn:He.
    - exists 1%nat. split; [reflexivity|]. split; [exact Hf|right; auto].
    - exists 0%nat. split; [reflexivity|]. split; [exact Hf|left; auto].
  Qed.

  Lemma one_new : c_new [mt] [skip] = init_of (m_new mt skip).
  Proof.
    unfold c_new, c_skip_empty, c_enter, init_of. prj. cbn [nth length Nat.sub c_skip_empty_go]. prj.
    destruct (m_is_empty (m_new mt skip)); [|reflexivity].
    unfold c_next_module. prj. cbn [Nat.leb Nat.ltb fst]. reflexivity.
  Qed.
  Lemma one_reset : forall j ms, fine ms -> c_reset (wrap j ms) = init_of (m_reset ms).
  Proof.
    intros j ms [Hm Hs]. rewrite m_reset_is_new, Hm, Hs, <- one_new. reflexivity.
  Qed.
  Lemma fine_new : fine (m_new mt skip).
  Proof. split; reflexivity. Qed.

  Lemma one_full : forall fuel probe j ms, live j ms -> full MI fuel probe ms = full CI fuel probe (wrap j ms).
  Proof.
    intros fuel probe j ms Hl. unfold full. destruct (one_walk fuel None j ms Hl) as [H1 H2].
    destruct (walk MI fuel None ms) as [t1 w1], (walk CI fuel None (wrap j ms)) as [t2 w2]. cbn [fst snd] in *. subst t2.
    destruct w1, w2; cbn [wrel] in H2; try contradiction; try reflexivity.
  Qed.

  Lemma one_run : forall fuel k probe,
    run MI fuel k probe (Ok (m_new mt skip)) = run CI fuel k probe (Ok (c_new [mt] [skip])).
  Proof.
    intros fuel k probe. rewrite one_new.
    destruct (live_init _ fine_new) as (j0 & -> & Hl0). set (ms0 := m_new mt skip) in *.
    unfold run. destruct k as [k|]; [|apply one_full; exact Hl0].
    destruct (one_walk fuel (Some k) j0 ms0 Hl0) as [H1 H2].
    destruct (walk MI fuel (Some k) ms0) as [t1 w1], (walk CI fuel (Some k) (wrap j0 ms0)) as [t2 w2]. cbn [fst snd] in *. subst t2.
    destruct w1 as [| |a|a], w2 as [| |b|b]; cbn [wrel] in H2; try contradiction; try reflexivity;
      destruct H2 as (Ha & j & ->);
      change (k_reset MI a) with (Ok (m_reset a)); change (k_reset CI (wrap j a)) with (Ok (c_reset (wrap j a)));
      rewrite (one_reset j a Ha), m_reset_is_new, (proj1 Ha), (proj2 Ha);
      destruct (live_init _ fine_new) as (j1 & -> & Hl1);
      rewrite (one_full _ _ _ _ Hl1); reflexivity.
  Qed.
End One.

Theorem mi_is_ci : forall mt skip k probe, mi_run mt skip k probe = ci_run [mt] [skip] k probe.
Proof.
  intros. unfold mi_run, ci_run.
  assert (fuel_of_comp [mt] = fuel_of mt) as -> by (unfold fuel_of_comp, fuel_of; cbn [fold_right]; rewrite N.add_0_r; reflexivity).
  apply one_run.
Qed.

(* C25: the ModuleIterator script yields exactly the specified events *)
Theorem mi_run_exact : forall mt skip k probe,
  wf_meta mt = true ->
  mi_run mt skip k probe = expected_trace (expected_mod 0 mt skip) k probe.
Proof.
  intros mt skip k probe Hwf. rewrite mi_is_ci, (ci_run_exact [mt] [skip] k probe).
  - unfold expected_comp. cbn [expected_comp_from hd]. rewrite app_nil_r. reflexivity.
  - cbn [forallb]. rewrite Hwf. reflexivity.
Qed.

(* ------------------------------------------------------------------------------------------ *)
(* C26 in the words of the property: the component traversal is the concatenation, in module order, of
   what a ModuleIterator does on each module with that module's skip list (locations tagged with the
   module index) *)
Definition retag (m : N) (e : ev) : ev := match e with V _ f i en ok => V m f i en ok | x => x end.
Fixpoint concat_module_runs (m : N) (metas : list meta) (skips : list (list N)) : list ev :=
  match metas with
  | [] => []
  | mt :: r => map (retag m) (mi_run mt (hd [] skips) None false) ++ concat_module_runs (m + 1) r (tl skips)
  end.

Lemma retag_instrs : forall m m' f n i, map (retag m) (instrs m' f n i) = instrs m f n i.
Proof. induction n; intros; cbn [instrs map retag]; [reflexivity|]. rewrite IHn. reflexivity. Qed.
Lemma retag_expected : forall m m' mt skip, map (retag m) (expected_mod m' mt skip) = expected_mod m mt skip.
Proof.
  intros. unfold expected_mod. induction (filter (fun fn => negb (skipped skip (fst fn))) mt) as [|fn l IH]; [reflexivity|].
  cbn [flat_map]. rewrite map_app, IH. unfold func_visits. rewrite retag_instrs. reflexivity.
Qed.

Lemma concat_module_runs_expected : forall metas m skips,
  forallb wf_meta metas = true -> concat_module_runs m metas skips = expected_comp_from m metas skips.
Proof.
  induction metas as [|mt r IH]; intros m skips Hwf; [reflexivity|].
  cbn [forallb] in Hwf. apply andb_true_iff in Hwf. destruct Hwf as [Hwf Hwfs].
  cbn [concat_module_runs expected_comp_from]. rewrite (IH _ _ Hwfs), (mi_run_exact mt (hd [] skips) None false Hwf).
  unfold expected_trace. cbn [app]. rewrite app_nil_r, retag_expected. reflexivity.
Qed.

Theorem ci_run_as_module_runs : forall metas skips,
  forallb wf_meta metas = true ->
  ci_run metas skips None false = concat_module_runs 0 metas skips.
Proof.
  intros metas skips Hwf. rewrite (ci_run_exact metas skips None false Hwf), (concat_module_runs_expected metas 0 skips Hwf).
  unfold expected_trace, expected_comp. cbn [app]. rewrite app_nil_r. reflexivity.
Qed.

(* ------------------------------------------------------------------------------------------ *)
(* checker soundness: when the implementation's observed events agree with the model and the case is in
   the domain, the property holds of the observed events *)

Theorem checker25_sound : forall c, agree25 c = true -> domain25 c = true -> holds25 c = true.
Proof.
  intros c Ha Hd. unfold agree25 in Ha. apply evs_eqb_eq in Ha. unfold holds25. rewrite <- Ha.
  rewrite (mi_run_exact _ _ _ _ Hd). apply evs_eqb_eq. reflexivity.
Qed.

Theorem checker26_sound : forall c, agree26 c = true -> domain26 c = true -> trace_ok26 c = true.
Proof.
  intros c Ha Hd. unfold agree26 in Ha. apply evs_eqb_eq in Ha. unfold trace_ok26. rewrite <- Ha.
  unfold domain26 in Hd. apply andb_true_iff in Hd. destruct Hd as [Hd _]. apply andb_true_iff in Hd. destruct Hd as [_ Hwf].
  rewrite (ci_run_exact _ _ _ _ Hwf). apply evs_eqb_eq. reflexivity.
Qed.
Corollary checker26_sound_full : forall c, agree26 c = true -> domain26 c = true -> holds26 c = cc_inj_same c.
Proof. intros. unfold holds26. rewrite (checker26_sound c) by assumption. reflexivity. Qed.

(* ------------------------------------------------------------------------------------------ *)
(* the inputs that refuted C25 / C26 before the repair of D12 / D13 *)

(* function 0 skipped: function 1 is walked with its own length *)
Example D12_first_skipped_now :
  mi_run [(0, 1); (1, 5)] [0] None false
  = [V 0 1 0 false true; V 0 1 1 false true; V 0 1 2 false true; V 0 1 3 false true; V 0 1 4 true true].
Proof. vm_compute. reflexivity. Qed.
Example D12_first_skipped_longer_now : mi_run [(1, 3); (2, 2)] [1] None false = [V 0 2 0 false true; V 0 2 1 true true].
Proof. vm_compute. reflexivity. Qed.
(* no local function / every function skipped: the traversal is empty, reset and curr_loc do not panic *)
Example D12_no_local_function_now : mi_run [] [] (Some 0%nat) true = [EReset; EAfter].
Proof. vm_compute. reflexivity. Qed.
Example D12_all_skipped_now : mi_run [(0, 2)] [0] (Some 0%nat) true = [EReset; EAfter].
Proof. vm_compute. reflexivity. Qed.
(* trailing skipped function: curr_loc() after the end stays on the last visited instruction *)
Example D12_trailing_skipped_now :
  mi_run [(0, 2); (1, 1)] [1] None true = [V 0 0 0 false true; V 0 0 1 true true; EAfter].
Proof. vm_compute. reflexivity. Qed.
(* the last function of module 0 skipped: module 1 is visited *)
Example D13_last_function_skipped_now :
  ci_run [[(0, 1); (1, 1)]; [(0, 1)]] [[1]; []] None false = [V 0 0 0 true true; V 1 0 0 true true].
Proof. vm_compute. reflexivity. Qed.
(* a module without local functions is stepped over (also as the first and as the last module) *)
Example D13_module_without_functions_now :
  ci_run [[(0, 1)]; []] [[]; []] None true = [V 0 0 0 true true; EAfter]
  /\ ci_run [[]; [(0, 1)]; []; [(3, 1)]] [[]; []; []; []] None false = [V 1 0 0 true true; V 3 3 0 true true]
  /\ ci_run [[]] [[]] (Some 2%nat) true = [EReset; EAfter].
Proof. vm_compute. auto. Qed.
(* reset() restores module 0's own skip list *)
Example D13_reset_now :
  ci_run [[(0, 1); (1, 1)]; [(0, 1); (1, 1)]] [[]; [0]] (Some 9%nat) false
  = [V 0 0 0 true true; V 0 1 0 true true; V 1 1 0 true true; EReset; V 0 0 0 true true; V 0 1 0 true true; V 1 1 0 true true].
Proof. vm_compute. reflexivity. Qed.

(* ------------------------------------------------------------------------------------------ *)
(* The specification says what the property says: [expected_mod] contains exactly the instructions of the
   unskipped local functions, each with the right end flag, each once, in function and instruction order. *)
From Coq Require Import Sorted.

Lemma instrs_In : forall m f n i0 x,
  In x (instrs m f n i0) <-> exists i, x = V m f i (i + 1 =? i0 + N.of_nat n) true /\ i0 <= i < i0 + N.of_nat n.
Proof.
  induction n as [|n IH]; intros i0 x.
  - cbn [instrs In]. split; [tauto|]. intros (i & _ & H). cbn [N.of_nat] in H. lia.
  - cbn [instrs In]. rewrite IH. split.
    + intros [<-|(i & -> & Hi)].
      * exists i0. split; [|lia]. f_equal. destruct n; symmetry; [apply N.eqb_eq|apply N.eqb_neq]; lia.
      * exists i. split; [|lia]. f_equal. f_equal. lia.
    + intros (i & -> & Hi). destruct (N.eq_dec i i0) as [->|Hne].
      * left. f_equal. destruct n; symmetry; [apply N.eqb_eq|apply N.eqb_neq]; lia.
      * right. exists i. split; [|lia]. f_equal. f_equal. lia.
Qed.

Theorem expected_mod_In : forall m mt skip x,
  In x (expected_mod m mt skip) <->
  exists f n i, In (f, n) mt /\ skipped skip f = false /\ i < n /\ x = V m f i (i + 1 =? n) true.
Proof.
  intros. unfold expected_mod. rewrite in_flat_map. split.
  - intros ([f n] & Hf & Hx). apply filter_In in Hf. destruct Hf as [Hin Hs]. cbn [fst] in Hs. apply negb_true_iff in Hs.
    unfold func_visits in Hx. cbn [fst snd] in Hx. apply instrs_In in Hx. destruct Hx as (i & -> & Hi).
    rewrite N2Nat.id, N.add_0_l in *. exists f, n, i. repeat split; try assumption; lia.
  - intros (f & n & i & Hin & Hs & Hi & ->). exists (f, n). split.
    + apply filter_In. split; [assumption|]. cbn [fst]. rewrite Hs. reflexivity.
    + unfold func_visits. cbn [fst snd]. apply instrs_In. exists i. rewrite N2Nat.id, N.add_0_l. split; [reflexivity|lia].
Qed.

Definition ev_lt (a b : ev) : Prop :=
  match a, b with
  | V _ f i _ _, V _ f' i' _ _ => f < f' \/ (f = f' /\ i < i')
  | _, _ => False
  end.

Lemma sorted_app : forall {A} (R : A -> A -> Prop) l1 l2,
  StronglySorted R l1 -> StronglySorted R l2 -> (forall x y, In x l1 -> In y l2 -> R x y) -> StronglySorted R (l1 ++ l2).
Proof.
  induction l1 as [|a l1 IH]; intros l2 H1 H2 Hc; [exact H2|].
  inversion H1; subst. cbn [app]. constructor.
  - apply IH; [assumption|assumption|]. intros; apply Hc; [right|]; assumption.
  - apply Forall_app. split; [assumption|]. apply Forall_forall. intros y Hy. apply Hc; [left; reflexivity|assumption].
Qed.

Lemma instrs_sorted : forall m f n i0, StronglySorted ev_lt (instrs m f n i0).
Proof.
  induction n as [|n IH]; intros i0; cbn [instrs]; constructor; [apply IH|].
  apply Forall_forall. intros x Hx. apply instrs_In in Hx. destruct Hx as (i & -> & Hi). cbn [ev_lt]. right. split; [reflexivity|lia].
Qed.

(* strictly increasing in (function id, instruction index): in order, and no location twice *)
Theorem expected_mod_sorted : forall m mt skip, ascending (map fst mt) = true -> StronglySorted ev_lt (expected_mod m mt skip).
Proof.
  intros m mt skip. unfold expected_mod. induction mt as [|[f n] mt IH]; intros Ha; [constructor|].
  cbn [map fst] in Ha. pose proof (ascending_head _ _ Ha) as Hh. specialize (IH (ascending_tail _ _ Ha)).
  cbn [filter fst]. destruct (negb (skipped skip f)); [|exact IH].
  cbn [flat_map]. apply sorted_app; [apply instrs_sorted|exact IH|].
  intros x y Hx Hy. unfold func_visits in Hx. cbn [fst snd] in Hx. apply instrs_In in Hx. destruct Hx as (i & -> & _).
  fold (expected_mod m mt skip) in Hy. apply expected_mod_In in Hy. destruct Hy as (f' & n' & i' & Hin & _ & _ & ->).
  cbn [ev_lt]. left. rewrite Forall_forall in Hh. apply Hh. apply in_map_iff. exists (f', n'). auto.
Qed.

