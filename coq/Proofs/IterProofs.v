(* Iterator engine, proofs (all inputs, no size bound):
     ci_run_exact : outside the input classes D12 / D13 the model of the ComponentIterator script yields
                    exactly the specified event list;
     mi_is_ci     : the ModuleIterator model is the ComponentIterator model on a one-module component;
     mi_run_exact : hence the same for the ModuleIterator outside D12;
     checker soundness for C25 / C26 and vm_compute refutations for every shape of D12 / D13. *)
From Coq Require Import List NArith Bool Lia Arith.
Import ListNotations.
From Orca Require Import Util Iter CheckIter.
Local Open Scope N_scope.

(* ------------------------------------------------------------------------------------------ *)
(* small facts *)

Lemma memN_skipped : forall x l, memN x l = skipped l x.
Proof.
  intros x l. unfold memN, skipped. induction l as [|a l IH]; cbn [existsb]; [reflexivity|].
  rewrite IH, (N.eqb_sym x a). reflexivity.
Qed.

Lemma ev_eqb_eq : forall a b, ev_eqb a b = true <-> a = b.
Proof.
  intros a b; split.
  - destruct a, b; cbn [ev_eqb]; try discriminate; try reflexivity.
    rewrite !andb_true_iff. intros [[[[H1 H2] H3] H4] H5].
    apply N.eqb_eq in H1, H2, H3. apply Bool.eqb_prop in H4, H5. subst. reflexivity.
  - intros <-. destruct a; cbn [ev_eqb]; try reflexivity.
    rewrite !N.eqb_refl, !Bool.eqb_reflx. reflexivity.
Qed.
Lemma evs_eqb_eq : forall a b, evs_eqb a b = true <-> a = b.
Proof.
  induction a as [|x a IH]; destruct b as [|y b]; cbn [evs_eqb]; split; try discriminate; try reflexivity.
  - rewrite andb_true_iff. intros [H1 H2]. apply ev_eqb_eq in H1. apply IH in H2. subst. reflexivity.
  - intros H. injection H as -> ->. rewrite andb_true_iff. split; [apply ev_eqb_eq|apply IH]; reflexivity.
Qed.

Lemma nlist_eqb_eq : forall a b, nlist_eqb a b = true -> a = b.
Proof.
  induction a as [|x a IH]; destruct b as [|y b]; cbn [nlist_eqb]; try discriminate; try reflexivity.
  rewrite andb_true_iff. intros [H1 H2]. apply N.eqb_eq in H1. apply IH in H2. subst. reflexivity.
Qed.

Lemma skipn_cons_inv : forall {A} i (l : list A) x r,
  skipn i l = x :: r -> nth_error l i = Some x /\ skipn (S i) l = r /\ length l = (i + S (length r))%nat.
Proof.
  induction i as [|i IH]; intros l x r H.
  - cbn [skipn] in H. subst l. cbn. auto.
  - destruct l as [|a l]; [discriminate|]. cbn [skipn] in H. destruct (IH _ _ _ H) as (H1 & H2 & H3).
    cbn [nth_error length]. repeat split; try assumption. lia.
Qed.
Lemma skipn_nil_inv : forall {A} i (l : list A), skipn i l = [] -> (length l <= i)%nat.
Proof.
  induction i as [|i IH]; intros l H.
  - cbn in H. subst. cbn. lia.
  - destruct l; cbn [length]; [lia|]. cbn [skipn] in H. apply IH in H. lia.
Qed.
Lemma skipn_hd_nth : forall {A} n (l : list A) d, hd d (skipn n l) = nth n l d.
Proof. induction n; destruct l; cbn; auto. Qed.
Lemma skipn_tl : forall {A} n (l : list A), tl (skipn n l) = skipn (S n) l.
Proof. induction n; destruct l; cbn [skipn tl]; auto. rewrite IHn. reflexivity. Qed.
Lemma skipn_last : forall {A} n (l : list A) x r d, skipn n l = x :: r -> last l d = last (x :: r) d.
Proof.
  induction n as [|n IH]; intros l x r d H.
  - cbn in H. subst. reflexivity.
  - destruct l as [|a l]; [discriminate|]. cbn [skipn] in H. rewrite <- (IH _ _ _ d H).
    destruct l; [destruct n; discriminate|reflexivity].
Qed.

(* ------------------------------------------------------------------------------------------ *)
(* skipping *)

Fixpoint drop_skipped (skip : list N) (l : meta) : meta :=
  match l with
  | [] => []
  | (f, n) :: l' => if memN f skip then drop_skipped skip l' else l
  end.

Lemma skip_from_spec : forall skip l idx (mt : meta),
  skipn idx mt = l -> skipn (skip_from skip l idx) mt = drop_skipped skip l.
Proof.
  induction l as [|[f n] l IH]; intros idx mt H; cbn [skip_from drop_skipped].
  - exact H.
  - destruct (memN f skip); [|exact H].
    apply IH. apply skipn_cons_inv in H. tauto.
Qed.

Lemma drop_skipped_head : forall skip l f n r, drop_skipped skip l = (f, n) :: r ->
  memN f skip = false /\ (length r < length l)%nat.
Proof.
  induction l as [|[g m] l IH]; intros f n r H; cbn [drop_skipped] in H; [discriminate|].
  destruct (memN g skip) eqn:E.
  - destruct (IH _ _ _ H). cbn [length]. split; [assumption|lia].
  - injection H as -> -> ->. cbn [length]. split; [assumption|lia].
Qed.

Lemma expected_drop : forall m skip l, expected_mod m l skip = expected_mod m (drop_skipped skip l) skip.
Proof.
  intros m skip. unfold expected_mod. induction l as [|[f n] l IH]; cbn [drop_skipped]; [reflexivity|].
  destruct (memN f skip) eqn:E; [|reflexivity].
  cbn [filter fst]. rewrite <- memN_skipped, E. cbn [negb]. exact IH.
Qed.
Lemma expected_cons_unskipped : forall m skip f n l, memN f skip = false ->
  expected_mod m ((f, n) :: l) skip = func_visits m (f, n) ++ expected_mod m l skip.
Proof.
  intros. unfold expected_mod. cbn [filter fst]. rewrite <- memN_skipped, H. cbn [negb flat_map]. reflexivity.
Qed.
Lemma expected_all_skipped : forall m skip l, drop_skipped skip l = [] -> expected_mod m l skip = [].
Proof. intros. rewrite expected_drop, H. reflexivity. Qed.

Lemma drop_skipped_find : forall skip l,
  find (fun fn => negb (skipped skip (fst fn))) l = hd_error (drop_skipped skip l).
Proof.
  induction l as [|[f n] l IH]; cbn [find drop_skipped fst]; [reflexivity|].
  rewrite <- memN_skipped. destruct (memN f skip); cbn [negb]; [exact IH|reflexivity].
Qed.

Lemma drop_skipped_nil_last : forall skip l, l <> [] -> drop_skipped skip l = [] ->
  skipped skip (fst (last l (0, 0))) = true.
Proof.
  induction l as [|[f n] l IH]; intros Hne H; [congruence|].
  cbn [drop_skipped] in H. destruct (memN f skip) eqn:E; [|discriminate].
  destruct l as [|b l].
  - cbn [last fst]. rewrite <- memN_skipped. exact E.
  - change (last ((f, n) :: b :: l) (0, 0)) with (last (b :: l) (0, 0)). apply IH; [discriminate|exact H].
Qed.

(* ------------------------------------------------------------------------------------------ *)
(* the specification: shape of one function's visits *)

Fixpoint pre (m f : N) (d : nat) (i : N) : list ev :=
  match d with O => [] | S d' => V m f i false true :: pre m f d' (i + 1) end.

Lemma instrs_split : forall m f d i, instrs m f (S d) i = pre m f d i ++ [V m f (i + N.of_nat d) true true].
Proof.
  induction d as [|d IH]; intros i.
  - cbn. rewrite N.add_0_r. reflexivity.
  - change (instrs m f (S (S d)) i) with (V m f i false true :: instrs m f (S d) (i + 1)).
    rewrite IH. cbn [pre app]. replace (i + 1 + N.of_nat d) with (i + N.of_nat (S d)) by lia. reflexivity.
Qed.
Lemma pre_length : forall m f d i, length (pre m f d i) = d.
Proof. induction d; intros; cbn [pre length]; auto. Qed.

Lemma func_visits_split : forall m f n, 1 <= n ->
  func_visits m (f, n) = pre m f (N.to_nat (n - 1)) 0 ++ [V m f (n - 1) true true].
Proof.
  intros. unfold func_visits. cbn [fst snd].
  replace (N.to_nat n) with (S (N.to_nat (n - 1))) by lia.
  rewrite instrs_split. replace (0 + N.of_nat (N.to_nat (n - 1))) with (n - 1) by lia. reflexivity.
Qed.

(* ------------------------------------------------------------------------------------------ *)
(* body_len under ascending ids *)

Lemma ascending_head : forall a l, ascending (a :: l) = true -> Forall (fun b => a < b) l.
Proof.
  intros a l. revert a. induction l as [|b l IH]; intros a H; [constructor|].
  cbn [ascending] in H. apply andb_true_iff in H. destruct H as [H1 H2]. apply N.ltb_lt in H1.
  constructor; [assumption|]. specialize (IH _ H2).
  eapply Forall_impl; [|exact IH]. cbn. intros; lia.
Qed.
Lemma ascending_tail : forall a l, ascending (a :: l) = true -> ascending l = true.
Proof. intros a [|b l] H; [reflexivity|]. cbn [ascending] in H. apply andb_true_iff in H. tauto. Qed.

Lemma body_len_nth : forall (mt : meta) idx f n, ascending (map fst mt) = true ->
  nth_error mt idx = Some (f, n) -> body_len mt f = Some n.
Proof.
  unfold body_len. induction mt as [|[g k] mt IH]; intros idx f n Ha Hn; [destruct idx; discriminate|].
  destruct idx as [|idx].
  - injection Hn as -> ->. cbn [find fst]. rewrite N.eqb_refl. reflexivity.
  - cbn [nth_error] in Hn. cbn [map fst] in Ha. cbn [find fst].
    assert (g < f) as Hlt.
    { pose proof (ascending_head _ _ Ha) as HF. rewrite Forall_forall in HF. apply HF.
      apply in_map_iff. exists (f, n). split; [reflexivity|]. eapply nth_error_In; eassumption. }
    replace (g =? f) with false by (symmetry; apply N.eqb_neq; lia).
    eapply IH; [eapply ascending_tail; eassumption|eassumption].
Qed.

(* ------------------------------------------------------------------------------------------ *)
(* generic facts about the script *)

Section Walk.
  Context {S : Type} (M : mach S).

  Lemma walk_more : forall fuel s v s', k_op M s = Ok true -> k_loc M s = Ok v -> k_next M s = Ok (s', true) ->
    walk M (Datatypes.S fuel) None s = (ev_of v :: fst (walk M fuel None s'), snd (walk M fuel None s')).
  Proof. intros * H1 H2 H3. cbn [walk]. rewrite H1, H2, H3. cbn [lim_pred]. destruct (walk M fuel None s'). reflexivity. Qed.

  Lemma walk_end : forall fuel s v s', k_op M s = Ok true -> k_loc M s = Ok v -> k_next M s = Ok (s', false) ->
    walk M (Datatypes.S fuel) None s = ([ev_of v], WEnd s').
  Proof. intros * H1 H2 H3. cbn [walk]. rewrite H1, H2, H3. reflexivity. Qed.

  (* a traversal limited to k next() calls yields the first k+1 events of the unlimited one *)
  Lemma walk_lim : forall fuel k s E sf, walk M fuel None s = (E, WEnd sf) ->
    exists w, walk M fuel (Some k) s = (firstn (Datatypes.S k) E, w)
              /\ match w with WStopped _ | WEnd _ => True | _ => False end.
  Proof.
    induction fuel as [|fuel IH]; intros k s E sf H; [discriminate|].
    cbn [walk] in *. destruct (k_op M s) as [[|]|]; try discriminate.
    2:{ injection H; intros; subst. eexists. split; [reflexivity|exact I]. }
    destruct (k_loc M s) as [v|]; [|discriminate].
    destruct (k_next M s) as [[s' [|]]|] eqn:En; try discriminate.
    - cbn [lim_pred] in H. destruct (walk M fuel None s') as [t w] eqn:Ew. injection H; intros; subst.
      destruct k as [|k].
      + eexists. split; [reflexivity|exact I].
      + destruct (IH k _ _ _ Ew) as (w' & Hw & Hok). cbn [lim_pred pred]. rewrite Hw.
        eexists. split; [reflexivity|exact Hok].
    - injection H; intros; subst. destruct k as [|k].
      + eexists. split; [reflexivity|exact I].
      + eexists. split; [reflexivity|exact I].
  Qed.

  (* an invariant of next() holds in the state where a traversal stops *)
  Lemma walk_inv : forall (Inv : S -> Prop),
    (forall s s' b, Inv s -> k_next M s = Ok (s', b) -> Inv s') ->
    forall fuel lim s t w, Inv s -> walk M fuel lim s = (t, w) ->
    match w with WStopped s' | WEnd s' => Inv s' | _ => True end.
  Proof.
    intros Inv Hstep. induction fuel as [|fuel IH]; intros lim s t w Hs H.
    - cbn in H. injection H; intros; subst. exact I.
    - cbn [walk] in H. destruct (k_op M s) as [[|]|].
      2:{ injection H; intros; subst. exact Hs. }
      2:{ injection H; intros; subst. exact I. }
      destruct (k_loc M s) as [v|]; [|injection H; intros; subst; exact I].
      assert (match k_next M s with
              | Panic => ([ev_of v; EPanic], WPanic)
              | Ok (s', false) => ([ev_of v], WEnd s')
              | Ok (s', true) => let '(t, w) := walk M fuel (lim_pred lim) s' in (ev_of v :: t, w)
              end = (t, w) -> match w with WStopped s' | WEnd s' => Inv s' | _ => True end) as Hgo.
      { destruct (k_next M s) as [[s' [|]]|] eqn:En.
        - destruct (walk M fuel (lim_pred lim) s') as [t' w'] eqn:Ew. intros H'. injection H'; intros; subst.
          eapply IH; [|exact Ew]. eapply Hstep; eassumption.
        - intros H'. injection H'; intros; subst. eapply Hstep; eassumption.
        - intros H'. injection H'; intros; subst. exact I. }
      destruct lim as [[|k]|]; [injection H; intros; subst; exact Hs|exact (Hgo H)|exact (Hgo H)].
  Qed.
End Walk.

(* ------------------------------------------------------------------------------------------ *)
(* steps of the ModuleSubIterator *)

Ltac prj := cbn [m_idx m_meta m_fi m_skip f_cur f_num c_mod c_num c_it c_metas c_skips k_op k_loc k_next k_reset] in *.

Lemma f_has_next_true : forall c n, c + 1 < n -> f_has_next (mkF c n) = true.
Proof. intros. unfold f_has_next. prj. apply N.ltb_lt. assumption. Qed.
Lemma f_has_next_false : forall c n, n <= c + 1 -> f_has_next (mkF c n) = false.
Proof. intros. unfold f_has_next. prj. apply N.ltb_ge. assumption. Qed.

Lemma m_next_in : forall idx mt c n skip, c + 1 < n ->
  m_next (mkM idx mt (mkF c n) skip) = Ok (mkM idx mt (mkF (c + 1) n) skip, true).
Proof.
  intros. unfold m_next, f_next. prj. rewrite (f_has_next_true _ _ H). prj. reflexivity.
Qed.

(* next() on the last instruction of a function *)
Lemma m_next_fend : forall idx mt c n skip fn post, skipn idx mt = fn :: post -> n <= c + 1 ->
  m_next (mkM idx mt (mkF c n) skip) =
  match post with
  | [] => Ok (mkM idx mt (mkF c n) skip, false)
  | _ => match drop_skipped skip post with
         | (_, n') :: _ => Ok (mkM (skip_from skip post (S idx)) mt (mkF 0 n') skip, true)
         | [] => Ok (mkM (skip_from skip post (S idx)) mt (mkF c n) skip, false)
         end
  end.
Proof.
  intros * Hs Hc. unfold m_next. prj. rewrite (f_has_next_false _ _ Hc).
  destruct (skipn_cons_inv _ _ _ _ Hs) as (Hn & Hs' & Hl).
  unfold m_next_function, m_has_next_function. prj.
  destruct post as [|p post'].
  - assert (Nat.ltb (S idx) (length mt) = false) as -> by (apply Nat.ltb_ge; cbn [length] in Hl; lia). reflexivity.
  - assert (Nat.ltb (S idx) (length mt) = true) as -> by (apply Nat.ltb_lt; cbn [length] in Hl; lia). cbn [negb].
    unfold handle_skips. prj. rewrite Hs'. prj.
    pose proof (skip_from_spec skip (p :: post') (S idx) mt Hs') as Hd.
    set (idx' := skip_from skip (p :: post') (S idx)) in *.
    destruct (drop_skipped skip (p :: post')) as [|[f' n'] r] eqn:Ed.
    + apply skipn_nil_inv in Hd.
      assert (Nat.ltb idx' (length mt) = false) as -> by (apply Nat.ltb_ge; lia). reflexivity.
    + destruct (skipn_cons_inv _ _ _ _ Hd) as (Hn' & _ & Hl').
      assert (Nat.ltb idx' (length mt) = true) as -> by (apply Nat.ltb_lt; lia).
      unfold get_curr_func. prj. rewrite Hn'. reflexivity.
Qed.

Lemma m_has_next_fend : forall idx mt c n skip fn post, skipn idx mt = fn :: post -> n <= c + 1 ->
  m_has_next (mkM idx mt (mkF c n) skip) = negb (nilb post).
Proof.
  intros * Hs Hc. unfold m_has_next, m_has_next_function. prj. rewrite (f_has_next_false _ _ Hc). cbn [orb].
  destruct (skipn_cons_inv _ _ _ _ Hs) as (_ & _ & Hl). rewrite Hl.
  destruct post; cbn [nilb negb length]; [apply Nat.ltb_ge|apply Nat.ltb_lt]; lia.
Qed.

(* new() outside D12: the cursor is on the first unskipped function, with that function's length *)
Lemma m_new_ok : forall mt skip, d12_mod mt skip = false ->
  exists idx f n post, m_new mt skip = Ok (mkM idx mt (mkF 0 n) skip)
                       /\ skipn idx mt = (f, n) :: post /\ drop_skipped skip mt = (f, n) :: post.
Proof.
  intros mt skip H. unfold d12_mod in H. destruct mt as [|[f0 n0] mt']; [discriminate|].
  rewrite drop_skipped_find in H.
  destruct (drop_skipped skip ((f0, n0) :: mt')) as [|[f n] post] eqn:Ed; cbn [hd_error] in H; [discriminate|].
  apply negb_false_iff, N.eqb_eq in H. subst n0.
  exists (skip_from skip ((f0, n) :: mt') 0), f, n, post.
  pose proof (skip_from_spec skip ((f0, n) :: mt') 0 ((f0, n) :: mt') eq_refl) as Hd. rewrite Ed in Hd.
  split; [|split; [exact Hd|reflexivity]].
  unfold m_new, handle_skips, f_new. prj. cbn [skipn]. reflexivity.
Qed.

(* reset() outside D12 gives the state new() gives *)
Lemma m_reset_new : forall i mt fi skip, d12_mod mt skip = false ->
  m_reset (mkM i mt fi skip) = m_new mt skip.
Proof.
  intros i mt fi skip H. destruct (m_new_ok _ _ H) as (idx & f & n & post & Hn & Hs & Hd). rewrite Hn.
  unfold m_new in Hn. destruct mt as [|[f0 n0] mt']; [discriminate|].
  unfold m_reset, handle_skips in *. prj. cbn [skipn] in *.
  remember (skip_from skip ((f0, n0) :: mt') 0) as j eqn:Ej.
  assert (j = idx) as -> by congruence.
  unfold get_curr_func. prj. destruct (skipn_cons_inv _ _ _ _ Hs) as (Hnth & _ & _). rewrite Hnth. reflexivity.
Qed.

Lemma m_next_keeps : forall s s' b, m_next s = Ok (s', b) -> m_meta s' = m_meta s /\ m_skip s' = m_skip s.
Proof.
  intros s s' b H. unfold m_next in H. destruct (f_has_next (m_fi s)).
  - destruct (f_next (m_fi s)). injection H; intros; subst. prj. auto.
  - unfold m_next_function in H. destruct (negb (m_has_next_function s)); [injection H; intros; subst; auto|].
    unfold handle_skips in H. prj. destruct (skipn (S (m_idx s)) (m_meta s)); [discriminate|].
    match type of H with context [Nat.ltb ?a ?b] => destruct (Nat.ltb a b) end.
    + unfold get_curr_func in H. prj. match type of H with context [nth_error ?a ?b] => destruct (nth_error a b) as [[? ?]|] end;
        [|discriminate]. injection H; intros; subst. prj. auto.
    + injection H; intros; subst. prj. auto.
Qed.
Lemma m_new_keeps : forall mt skip s, m_new mt skip = Ok s -> m_meta s = mt /\ m_skip s = skip.
Proof.
  intros mt skip s H. unfold m_new in H. destruct mt as [|[f0 n0] mt']; [discriminate|].
  unfold handle_skips in H. prj. cbn [skipn] in H. injection H; intros; subst. prj. auto.
Qed.

Lemma wf_meta_nth : forall mt i f n, wf_meta mt = true -> nth_error mt i = Some (f, n) -> 1 <= n.
Proof.
  intros mt i f n H Hn. unfold wf_meta in H. apply andb_true_iff in H. destruct H as [H _].
  rewrite forallb_forall in H. apply nth_error_In in Hn. specialize (H _ Hn). cbn [snd] in H.
  apply N.leb_le in H. exact H.
Qed.
Lemma wf_meta_asc : forall mt, wf_meta mt = true -> ascending (map fst mt) = true.
Proof. intros mt H. unfold wf_meta in H. apply andb_true_iff in H. tauto. Qed.

(* ------------------------------------------------------------------------------------------ *)
(* the ComponentIterator on a fixed component *)

Section Comp.
  Variable metas : list meta.
  Variable skips : list (list N).

  Definition cst (cm idx : nat) (mt : meta) (c n : N) (skip : list N) : csub :=
    mkC cm (length metas) (mkM idx mt (mkF c n) skip) metas skips.

  Lemma ci_op_loc : forall cm idx mt c n skip f post,
    nth_error metas cm = Some mt -> ascending (map fst mt) = true -> skipn idx mt = (f, n) :: post -> c < n ->
    ci_curr_op (cst cm idx mt c n skip) = Ok true
    /\ c_curr_loc (cst cm idx mt c n skip) = Ok (N.of_nat cm, f, c, n <=? c + 1).
  Proof.
    intros * Hm Ha Hs Hc.
    assert (cm < length metas)%nat as Hlt by (apply nth_error_Some; congruence).
    destruct (skipn_cons_inv _ _ _ _ Hs) as (Hn & _ & _).
    assert (c_curr_loc (cst cm idx mt c n skip) = Ok (N.of_nat cm, f, c, n <=? c + 1)) as Hloc.
    { unfold c_curr_loc, m_curr_loc, get_curr_func, cst, f_is_end. prj. rewrite Hn. reflexivity. }
    split; [|exact Hloc].
    unfold ci_curr_op. rewrite Hloc. unfold c_end, cst. prj.
    assert (Nat.eqb cm (length metas) = false) as -> by (apply Nat.eqb_neq; lia).
    rewrite Hm, (body_len_nth _ _ _ _ Ha Hn).
    assert (c <? n = true) as -> by (apply N.ltb_lt; exact Hc). reflexivity.
  Qed.

  Lemma ci_next_in : forall cm idx mt c n skip f post,
    nth_error metas cm = Some mt -> ascending (map fst mt) = true -> skipn idx mt = (f, n) :: post -> c + 1 < n ->
    ci_next (cst cm idx mt c n skip) = Ok (cst cm idx mt (c + 1) n skip, true).
  Proof.
    intros * Hm Ha Hs Hc. unfold ci_next, c_next, cst. prj.
    unfold m_has_next. prj. rewrite (f_has_next_true _ _ Hc). cbn [orb].
    rewrite (m_next_in _ _ _ _ _ Hc).
    change (mkC cm (length metas) (mkM idx mt (mkF (c + 1) n) skip) metas skips) with (cst cm idx mt (c + 1) n skip).
    destruct (ci_op_loc cm idx mt (c + 1) n skip f post Hm Ha Hs Hc) as [-> _]. reflexivity.
  Qed.

  (* d steps inside a function *)
  Lemma walk_pre : forall cm idx mt n skip f post,
    nth_error metas cm = Some mt -> ascending (map fst mt) = true -> skipn idx mt = (f, n) :: post ->
    forall d c fuel, c + N.of_nat d < n ->
    walk CI (d + fuel) None (cst cm idx mt c n skip)
    = (pre (N.of_nat cm) f d c ++ fst (walk CI fuel None (cst cm idx mt (c + N.of_nat d) n skip)),
       snd (walk CI fuel None (cst cm idx mt (c + N.of_nat d) n skip))).
  Proof.
    intros * Hm Ha Hs. induction d as [|d IH]; intros c fuel Hc.
    - cbn [Nat.add pre app N.of_nat]. rewrite N.add_0_r. destruct (walk CI fuel None (cst cm idx mt c n skip)). reflexivity.
    - assert (c + 1 < n) as Hc1 by lia.
      destruct (ci_op_loc cm idx mt c n skip f post Hm Ha Hs ltac:(lia)) as [Hop Hloc].
      change (S d + fuel)%nat with (S (d + fuel)).
      rewrite (walk_more CI (d + fuel) _ _ _ Hop Hloc (ci_next_in _ _ _ _ _ _ _ _ Hm Ha Hs Hc1)).
      rewrite IH by lia. cbn [fst snd ev_of pre app].
      assert (n <=? c + 1 = false) as -> by (apply N.leb_gt; lia).
      replace (c + 1 + N.of_nat d) with (c + N.of_nat (S d)) by lia. reflexivity.
  Qed.

  (* next() on the last instruction of a function that is followed by an unskipped function *)
  Lemma ci_next_fnext : forall cm idx mt c n skip f post f' n' post'',
    nth_error metas cm = Some mt -> wf_meta mt = true -> skipn idx mt = (f, n) :: post -> n <= c + 1 ->
    drop_skipped skip post = (f', n') :: post'' ->
    exists idx', skipn idx' mt = (f', n') :: post''
                 /\ ci_next (cst cm idx mt c n skip) = Ok (cst cm idx' mt 0 n' skip, true).
  Proof.
    intros * Hm Hwf Hs Hc Ed.
    destruct (skipn_cons_inv _ _ _ _ Hs) as (_ & Hs' & _).
    pose proof (skip_from_spec skip post (S idx) mt Hs') as Hd. rewrite Ed in Hd.
    exists (skip_from skip post (S idx)). split; [exact Hd|].
    unfold ci_next, c_next, cst. prj.
    rewrite (m_has_next_fend _ _ _ _ _ _ _ Hs Hc), (m_next_fend _ _ _ _ _ _ _ Hs Hc).
    destruct post as [|p post']; [discriminate|]. cbn [nilb negb]. rewrite Ed.
    change (mkC cm (length metas) (mkM (skip_from skip (p :: post') (S idx)) mt (mkF 0 n') skip) metas skips)
      with (cst cm (skip_from skip (p :: post') (S idx)) mt 0 n' skip).
    destruct (skipn_cons_inv _ _ _ _ Hd) as (Hn' & _ & _).
    pose proof (wf_meta_nth _ _ _ _ Hwf Hn') as H1.
    destruct (ci_op_loc cm _ mt 0 n' skip f' post'' Hm (wf_meta_asc _ Hwf) Hd ltac:(lia)) as [-> _]. reflexivity.
  Qed.

  (* ... followed only by skipped functions: next() returns false although the module cursor had "more" *)
  Lemma ci_next_tailskip : forall cm idx mt c n skip fn post,
    skipn idx mt = fn :: post -> n <= c + 1 -> post <> [] -> drop_skipped skip post = [] ->
    ci_next (cst cm idx mt c n skip)
    = Ok (mkC cm (length metas) (mkM (skip_from skip post (S idx)) mt (mkF c n) skip) metas skips, false).
  Proof.
    intros * Hs Hc Hne Ed. unfold ci_next, c_next, cst. prj.
    rewrite (m_has_next_fend _ _ _ _ _ _ _ Hs Hc), (m_next_fend _ _ _ _ _ _ _ Hs Hc).
    destruct post as [|p post']; [congruence|]. cbn [nilb negb]. rewrite Ed. reflexivity.
  Qed.

  (* ... that is the last function of the last module *)
  Lemma ci_next_last : forall cm idx mt c n skip fn,
    skipn idx mt = [fn] -> n <= c + 1 -> length metas = S cm ->
    ci_next (cst cm idx mt c n skip)
    = Ok (mkC (S cm) (length metas) (mkM idx mt (mkF c n) skip) metas skips, false).
  Proof.
    intros * Hs Hc Hl. unfold ci_next, c_next, cst. prj.
    rewrite (m_has_next_fend _ _ _ _ _ _ _ Hs Hc). cbn [nilb negb].
    unfold c_next_module. prj.
    assert (Nat.ltb (S cm) (length metas) = false) as -> by (apply Nat.ltb_ge; lia). reflexivity.
  Qed.

  (* ... that is the last function of a module followed by a module outside D12 *)
  Lemma ci_next_module : forall cm idx mt c n skip fn mt',
    skipn idx mt = [fn] -> n <= c + 1 -> nth_error metas (S cm) = Some mt' -> wf_meta mt' = true ->
    d12_mod mt' (nth (S cm) skips []) = false ->
    exists it', m_new mt' (nth (S cm) skips []) = Ok it'
                /\ ci_next (cst cm idx mt c n skip) = Ok (mkC (S cm) (length metas) it' metas skips, true).
  Proof.
    intros * Hs Hc Hm' Hwf Hd.
    destruct (m_new_ok _ _ Hd) as (idx' & f' & n' & post' & Hnew & Hs' & _).
    eexists. split; [exact Hnew|].
    unfold ci_next, c_next, cst. prj.
    rewrite (m_has_next_fend _ _ _ _ _ _ _ Hs Hc). cbn [nilb negb].
    unfold c_next_module. prj.
    assert (S cm < length metas)%nat as Hlt by (apply nth_error_Some; congruence).
    assert (Nat.ltb (S cm) (length metas) = true) as -> by (apply Nat.ltb_lt; exact Hlt).
    rewrite Hm', Hnew.
    change (mkC (S cm) (length metas) (mkM idx' mt' (mkF 0 n') (nth (S cm) skips [])) metas skips)
      with (cst (S cm) idx' mt' 0 n' (nth (S cm) skips [])).
    destruct (skipn_cons_inv _ _ _ _ Hs') as (Hn' & _ & _).
    pose proof (wf_meta_nth _ _ _ _ Hwf Hn') as H1.
    destruct (ci_op_loc (S cm) idx' mt' 0 n' _ f' post' Hm' (wf_meta_asc _ Hwf) Hs' ltac:(lia)) as [-> _]. reflexivity.
  Qed.
