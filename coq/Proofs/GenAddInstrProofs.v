(* The translated InstrumentationFlag::add_instr (Gen/GenAddInstr.v, regenerated from /repo/src/ir/types.rs on every
   check) IS the model's Flat.add_instr for all arguments, and the operator lists of is_block_style_op /
   is_branching_op are exactly the model's classification of its operator constructors. *)
From Coq Require Import String.
From Coq Require Import List NArith ZArith Bool.
Import ListNotations.
From Orca Require Import Flat GenAddInstr.
Local Open Scope string_scope.

Theorem gen_add_instr_is_add_instr : forall op m x f, gen_add_instr op m x f = add_instr op m x f.
Proof. intros op m x f. destruct m; reflexivity. Qed.

(* the wasmparser operators a constructor of the model's operator type stands for ([FOther]: any operator that is
   none of these -- the harness decodes every block-style / branching operator to its own constructor) *)
Definition fop_names (o : fop) : list string :=
  match o with
  | FBlock _ => ["Block"] | FLoop _ => ["Loop"] | FIf _ => ["If"] | FElse => ["Else"] | FEnd => ["End"]
  | FBr _ => ["Br"] | FBrIf _ => ["BrIf"] | FBrTable _ _ => ["BrTable"]
  | FBrOn _ _ => ["BrOnCast"; "BrOnCastFail"; "BrOnNull"; "BrOnNonNull"]
  | FReturn => ["Return"] | FRetCall _ => ["ReturnCall"; "ReturnCallIndirect"; "ReturnCallRef"]
  | FUnreachable => ["Unreachable"] | FThrow _ => ["Throw"; "ThrowRef"; "Rethrow"; "ResumeThrow"]
  | FConst _ => ["I32Const"] | FLocalGet _ => ["LocalGet"] | FLocalSet _ => ["LocalSet"] | FLocalTee _ => ["LocalTee"]
  | FDrop => ["Drop"] | FOther _ => []
  end.
Definition mem (n : string) (l : list string) : bool := existsb (String.eqb n) l.

Theorem classification_is_the_source_lists : forall o n, In n (fop_names o) ->
  mem n gen_block_style_ops = is_block_style o /\ mem n gen_branching_ops = is_branching o /\ mem n gen_exit_ops = is_exit_op o.
Proof.
  intros o n H. destruct o; cbn [fop_names] in H;
    repeat (destruct H as [<-|H]; [vm_compute; repeat split; reflexivity|]); contradiction.
Qed.

(* no operator of the two source lists hides in [FOther]: each is the name of a dedicated constructor *)
Definition representative_ops : list fop :=
  [FBlock BtEmpty; FLoop BtEmpty; FIf BtEmpty; FElse; FEnd; FBr 0; FBrIf 0; FBrTable [] 0; FBrOn 0 0%N; FReturn; FRetCall 0%N;
   FUnreachable; FThrow 0%N; FConst 0%Z; FLocalGet 0%N; FLocalSet 0%N; FLocalTee 0%N; FDrop].
Theorem classified_names_have_constructors :
  forallb (fun n => existsb (fun o => mem n (fop_names o)) representative_ops)
          (gen_block_style_ops ++ gen_branching_ops ++ gen_exit_ops) = true.
Proof. vm_compute. reflexivity. Qed.
