(* Derived big-step rules for the plain (flag-free) interpreter: no fuel arithmetic leaks out. *)
From Coq Require Import List Arith NArith ZArith Bool Lia.
Import ListNotations.
From Orca Require Import Flat Tree TreeLower WasmP SemProofs.

Section EvalP.
Variable ftypes : list (nat * nat).
Definition nof : nat -> flags := fun _ => no_flags.
Notation Pl := (exec ftypes nof [] false).
Notation ar := (arity ftypes).

Definition evP (is : list instr) (c : cfg) (o : outcome) : Prop :=
  exists fuel, Pl fuel false is c = o /\ o <> OFuel.

Lemma Pl_mono fuel fuel' s is c o : fuel <= fuel' -> Pl fuel s is c = o -> o <> OFuel -> Pl fuel' s is c = o.
Proof. apply exec_mono. Qed.

(* the skip-before flag is irrelevant without flags *)
Lemma Pl_skipb : forall fuel s s' is c, Pl fuel s is c = Pl fuel s' is c.
Proof.
  induction fuel as [|f IH]; intros; [reflexivity|].
  cbn [exec]. unfold step_body.
  destruct is as [|ins rest]; [reflexivity|].
  destruct ins; reflexivity.
Qed.

Definition is_plain (o : fop) : bool :=
  match o with
  | FConst _ | FDrop | FLocalGet _ | FLocalSet _ | FLocalTee _ | FOther _ => true
  | _ => false
  end.

Lemma evP_nil c : evP [] c (ONormal c).
Proof. exists 1. split; [reflexivity|discriminate]. Qed.

Lemma evP_plain i o rest c c' r :
  is_plain o = true -> exec_plain o c = ONormal c' -> evP rest c' r -> evP (IPlain i o :: rest) c r.
Proof.
  intros Hp He [f [Hf Hn]]. exists (S f). split; [|exact Hn].
  cbn [exec]. unfold step_body, probes. cbn [nof no_flags f_before f_after f_sa].
  destruct o; try discriminate Hp; rewrite He; exact Hf.
Qed.

Lemma evP_plain_stop i o rest c r :
  is_plain o = true -> exec_plain o c = r -> (forall c', r <> ONormal c') -> r <> OFuel ->
  evP (IPlain i o :: rest) c r.
Proof.
  intros Hp He Hnn Hnf. exists 1. split; [|exact Hnf].
  cbn [exec]. unfold step_body, probes. cbn [nof no_flags f_before f_after f_sa].
  destruct o; try discriminate Hp; rewrite He; destruct r; try reflexivity; exfalso; eapply Hnn; reflexivity.
Qed.

(* straight-line probe code inserted as instructions *)
Definition pcode (code : list fop) : Prop := forallb is_plain code = true.

Lemma run_code_not_fuel code : forall c, run_code code c <> OFuel.
Proof.
  induction code as [|o code IH]; intros c; cbn [run_code]; [discriminate|].
  destruct (exec_plain o c) eqn:E; try discriminate; try apply IH.
  destruct o; cbn in E; repeat (match type of E with context [match ?x with _ => _ end] => destruct x end; try discriminate);
    try discriminate.
Qed.

Lemma evP_ins code : forall rest c,
  pcode code ->
  match run_code code c with
  | ONormal c' => forall r, evP rest c' r -> evP (ins code ++ rest) c r
  | r => evP (ins code ++ rest) c r
  end.
Proof.
  induction code as [|o code IH]; intros rest c Hp.
  - cbn. auto.
  - unfold pcode in Hp. cbn [forallb] in Hp. apply andb_prop in Hp as [Ho Hc].
    cbn [run_code ins map app].
    destruct (exec_plain o c) eqn:E.
    + specialize (IH rest c0 Hc). fold (ins code).
      destruct (run_code code c0) eqn:R; try (eapply evP_plain; eauto; fail).
      intros r Hr. eapply evP_plain; eauto.
    + apply evP_plain_stop; auto; [intros; discriminate|discriminate].
    + apply evP_plain_stop; auto; [intros; discriminate|discriminate].
    + apply evP_plain_stop; auto; [intros; discriminate|discriminate].
    + exfalso. destruct o; cbn in E; repeat (match type of E with context [match ?x with _ => _ end] => destruct x end; try discriminate); discriminate.
    + apply evP_plain_stop; auto; [intros; discriminate|discriminate].
Qed.

Lemma run_pend_false p : forall c k, run_pend false p c k = k c.
Proof. induction p as [|b p IH]; intros; cbn [run_pend]; [reflexivity|]. unfold probes. apply IH. Qed.

Lemma evP_br i n rest c : evP (IPlain i (FBr n) :: rest) c (OBr n [] c).
Proof. exists 1. split; [reflexivity|discriminate]. Qed.
Lemma evP_return i rest c : evP (IPlain i FReturn :: rest) c (OReturn c).
Proof. exists 1. split; [reflexivity|discriminate]. Qed.
Lemma evP_unreachable i rest c : evP (IPlain i FUnreachable :: rest) c (OTrap c).
Proof. exists 1. split; [reflexivity|discriminate]. Qed.
Lemma evP_brif_trap i n rest c : stack c = [] -> evP (IPlain i (FBrIf n) :: rest) c (OTrap c).
Proof. intros H. exists 1. split; [|discriminate]. cbn [exec]. unfold step_body, probes. cbn. rewrite H. reflexivity. Qed.
Lemma evP_brif_taken i n rest c v s :
  stack c = v :: s -> Z.eqb v 0 = false -> evP (IPlain i (FBrIf n) :: rest) c (OBr n [] (with_stack c s)).
Proof. intros H Hv. exists 1. split; [|discriminate]. cbn [exec]. unfold step_body, probes. cbn. rewrite H, Hv. reflexivity. Qed.
Lemma evP_brif_not i n rest c v s r :
  stack c = v :: s -> Z.eqb v 0 = true -> evP rest (with_stack c s) r -> evP (IPlain i (FBrIf n) :: rest) c r.
Proof.
  intros H Hv [f [Hf Hn]]. exists (S f). split; [|exact Hn].
  cbn [exec]. unfold step_body, probes. cbn. rewrite H, Hv. exact Hf.
Qed.
Lemma evP_brtable_trap i ts d rest c : stack c = [] -> evP (IPlain i (FBrTable ts d) :: rest) c (OTrap c).
Proof. intros H. exists 1. split; [|discriminate]. cbn [exec]. unfold step_body, probes. cbn. rewrite H. reflexivity. Qed.
Lemma evP_brtable i ts d rest c v s :
  stack c = v :: s ->
  evP (IPlain i (FBrTable ts d) :: rest) c
      (OBr (if (v <? Z.of_nat (length ts))%Z then nth (Z.to_nat v) ts d else d) [] (with_stack c s)).
Proof. intros H. exists 1. split; [|discriminate]. cbn [exec]. unfold step_body, probes. cbn. rewrite H. reflexivity. Qed.

(* what a block/if does with the outcome of its body *)
Definition after_block (below : list Z) (nr : nat) (rest : list instr) (ob r : outcome) : Prop :=
  match ob with
  | ONormal c' | OBr O _ c' => evP rest (with_stack c' (firstn nr (stack c') ++ below)) r
  | OBr (S n) p c' => r = OBr n p c'
  | OFuel => False
  | o => r = o
  end.

Lemma evP_block i e bt body rest c ob r :
  evP body (with_stack c (firstn (fst (ar bt)) (stack c))) ob ->
  after_block (skipn (fst (ar bt)) (stack c)) (snd (ar bt)) rest ob r ->
  evP (IBlock i e bt body :: rest) c r.
Proof.
  intros [f1 [H1 N1]] HA. destruct (ar bt) as [np nr] eqn:EA. cbn [fst snd] in *.
  destruct ob as [c'|n p c'|c'|c'| |]; cbn [after_block] in HA; try contradiction.
  - destruct HA as [f2 [H2 N2]]. exists (S (max f1 f2)). split; [|exact N2].
    cbn [exec]. unfold step_body. rewrite EA. unfold probes. cbn [nof no_flags f_before f_after f_be f_bx f_sa app].
    rewrite (Pl_mono f1 (max f1 f2) false body _ _ (Nat.le_max_l _ _) H1 N1).
    rewrite run_pend_false. apply (Pl_mono f2); [apply Nat.le_max_r|exact H2|exact N2].
  - destruct n as [|n].
    + destruct HA as [f2 [H2 N2]]. exists (S (max f1 f2)). split; [|exact N2].
      cbn [exec]. unfold step_body. rewrite EA. unfold probes. cbn [nof no_flags f_before f_after f_be f_bx f_sa app].
      rewrite (Pl_mono f1 (max f1 f2) false body _ _ (Nat.le_max_l _ _) H1 N1).
      rewrite run_pend_false. apply (Pl_mono f2); [apply Nat.le_max_r|exact H2|exact N2].
    + subst r. exists (S f1). split; [|discriminate].
      cbn [exec]. unfold step_body. rewrite EA. unfold probes. cbn [nof no_flags f_before f_after f_be f_bx f_sa app].
      rewrite H1. reflexivity.
  - subst r. exists (S f1). split; [|discriminate].
    cbn [exec]. unfold step_body. rewrite EA. unfold probes. cbn [nof no_flags f_before f_after f_be f_bx f_sa app].
    rewrite H1. reflexivity.
  - subst r. exists (S f1). split; [|discriminate].
    cbn [exec]. unfold step_body. rewrite EA. unfold probes. cbn [nof no_flags f_before f_after f_be f_bx f_sa app].
    rewrite H1. reflexivity.
  - subst r. exists (S f1). split; [|discriminate].
    cbn [exec]. unfold step_body. rewrite EA. unfold probes. cbn [nof no_flags f_before f_after f_be f_bx f_sa app].
    rewrite H1. reflexivity.
Qed.

Definition after_loop (i e : nat) (bt : blockty) (body : list instr) (np : nat) (below : list Z) (nr : nat)
                      (rest : list instr) (ob r : outcome) : Prop :=
  match ob with
  | ONormal c' => evP rest (with_stack c' (firstn nr (stack c') ++ below)) r
  | OBr O _ c' => evP (ILoop i e bt body :: rest) (with_stack c' (firstn np (stack c') ++ below)) r
  | OBr (S n) p c' => r = OBr n p c'
  | OFuel => False
  | o => r = o
  end.

Lemma evP_loop i e bt body rest c ob r :
  evP body (with_stack c (firstn (fst (ar bt)) (stack c))) ob ->
  after_loop i e bt body (fst (ar bt)) (skipn (fst (ar bt)) (stack c)) (snd (ar bt)) rest ob r ->
  evP (ILoop i e bt body :: rest) c r.
Proof.
  intros [f1 [H1 N1]] HA. destruct (ar bt) as [np nr] eqn:EA. cbn [fst snd] in *.
  destruct ob as [c'|n p c'|c'|c'| |]; cbn [after_loop] in HA; try contradiction.
  - destruct HA as [f2 [H2 N2]]. exists (S (max f1 f2)). split; [|exact N2].
    cbn [exec]. unfold step_body. rewrite EA. unfold probes. cbn [nof no_flags f_before f_after f_be f_bx f_sa app].
    rewrite (Pl_mono f1 (max f1 f2) false body _ _ (Nat.le_max_l _ _) H1 N1).
    apply (Pl_mono f2); [apply Nat.le_max_r|exact H2|exact N2].
  - destruct n as [|n].
    + destruct HA as [f2 [H2 N2]]. exists (S (max f1 f2)). split; [|exact N2].
      cbn [exec]. unfold step_body. rewrite EA. unfold probes. cbn [nof no_flags f_before f_after f_be f_bx f_sa app].
      rewrite (Pl_mono f1 (max f1 f2) false body _ _ (Nat.le_max_l _ _) H1 N1).
      rewrite (Pl_skipb (max f1 f2) true false).
      apply (Pl_mono f2); [apply Nat.le_max_r|exact H2|exact N2].
    + subst r. exists (S f1). split; [|discriminate].
      cbn [exec]. unfold step_body. rewrite EA. unfold probes. cbn [nof no_flags f_before f_after f_be f_bx f_sa app].
      rewrite H1. reflexivity.
  - subst r. exists (S f1). split; [|discriminate].
    cbn [exec]. unfold step_body. rewrite EA. unfold probes. cbn [nof no_flags f_before f_after f_be f_bx f_sa app].
    rewrite H1. reflexivity.
  - subst r. exists (S f1). split; [|discriminate].
    cbn [exec]. unfold step_body. rewrite EA. unfold probes. cbn [nof no_flags f_before f_after f_be f_bx f_sa app].
    rewrite H1. reflexivity.
  - subst r. exists (S f1). split; [|discriminate].
    cbn [exec]. unfold step_body. rewrite EA. unfold probes. cbn [nof no_flags f_before f_after f_be f_bx f_sa app].
    rewrite H1. reflexivity.
Qed.

Lemma evP_if_trap i el e bt thn els rest c : stack c = [] -> evP (IIf i el e bt thn els :: rest) c (OTrap c).
Proof.
  intros H. exists 1. split; [|discriminate]. cbn [exec]. unfold step_body. destruct (ar bt). unfold probes.
  cbn [nof no_flags f_before]. rewrite H. reflexivity.
Qed.

Lemma evP_if_arm (taken : bool) i el e bt thn els rest c v s ob r :
  stack c = v :: s ->
  negb (Z.eqb v 0) = taken ->
  (taken = false -> el <> None) ->
  evP (if taken then thn else els) (with_stack c (firstn (fst (ar bt)) s)) ob ->
  after_block (skipn (fst (ar bt)) s) (snd (ar bt)) rest ob r ->
  evP (IIf i el e bt thn els :: rest) c r.
Proof.
  intros Hs Hv Hel [f1 [H1 N1]] HA. destruct (ar bt) as [np nr] eqn:EA. cbn [fst snd] in *.
  assert (Hstep : forall f, Pl (S f) false (IIf i el e bt thn els :: rest) c =
     match Pl f false (if taken then thn else els) (with_stack c (firstn np s)) with
     | ONormal c' | OBr O _ c' => Pl f false rest (with_stack c' (firstn nr (stack c') ++ skipn np s))
     | OBr (S n) p c' => OBr n p c'
     | o => o
     end).
  { intros f. cbn [exec]. unfold step_body. rewrite EA. unfold probes.
    cbn [nof no_flags f_before f_after f_be f_bx f_sa app]. rewrite Hs, Hv.
    destruct taken.
    - destruct (Pl f false thn _) as [c'|n p c'|c'|c'| |]; try reflexivity;
        try (destruct el; rewrite run_pend_false; reflexivity);
        try (destruct n; [rewrite run_pend_false|]; reflexivity).
    - destruct el as [x|]; [|exfalso; apply Hel; reflexivity].
      destruct (Pl f false els _) as [c'|n p c'|c'|c'| |]; try reflexivity;
        try (rewrite run_pend_false; reflexivity);
        try (destruct n; [rewrite run_pend_false|]; reflexivity). }
  destruct ob as [c'|n p c'|c'|c'| |]; cbn [after_block] in HA; try contradiction.
  - destruct HA as [f2 [H2 N2]]. exists (S (max f1 f2)). split; [|exact N2].
    rewrite Hstep. rewrite (Pl_mono f1 (max f1 f2) false _ _ _ (Nat.le_max_l _ _) H1 N1).
    apply (Pl_mono f2); [apply Nat.le_max_r|exact H2|exact N2].
  - destruct n as [|n].
    + destruct HA as [f2 [H2 N2]]. exists (S (max f1 f2)). split; [|exact N2].
      rewrite Hstep. rewrite (Pl_mono f1 (max f1 f2) false _ _ _ (Nat.le_max_l _ _) H1 N1).
      apply (Pl_mono f2); [apply Nat.le_max_r|exact H2|exact N2].
    + subst r. exists (S f1). split; [|discriminate]. rewrite Hstep, H1. reflexivity.
  - subst r. exists (S f1). split; [|discriminate]. rewrite Hstep, H1. reflexivity.
  - subst r. exists (S f1). split; [|discriminate]. rewrite Hstep, H1. reflexivity.
  - subst r. exists (S f1). split; [|discriminate]. rewrite Hstep, H1. reflexivity.
Qed.

Lemma evP_if_skip i e bt thn els rest c v s r :
  stack c = v :: s -> Z.eqb v 0 = true ->
  evP rest (with_stack c (firstn (snd (ar bt)) (firstn (fst (ar bt)) s) ++ skipn (fst (ar bt)) s)) r ->
  evP (IIf i None e bt thn els :: rest) c r.
Proof.
  intros Hs Hv [f [Hf Hn]]. destruct (ar bt) as [np nr] eqn:EA. cbn [fst snd] in *.
  exists (S f). split; [|exact Hn].
  cbn [exec]. unfold step_body. rewrite EA. unfold probes.
  cbn [nof no_flags f_before f_after f_be f_bx f_sa app]. rewrite Hs, Hv. cbn [negb].
  rewrite run_pend_false. exact Hf.
Qed.

Lemma exec_plain_shape o c :
  match exec_plain o c with ONormal _ | OTrap _ | OUnsupported => True | _ => False end.
Proof.
  destruct o; cbn [exec_plain]; try exact I;
  repeat (match goal with
          | |- context [match ?x with _ => _ end] =>
              lazymatch x with
              | context [match _ with _ => _ end] => fail
              | _ => destruct x
              end
          end; cbn [with_stack]; try exact I).
Qed.

(* the plain interpreter never produces pending probes *)
Definition okp (o : outcome) : Prop := match o with OBr _ p _ => p = [] | _ => True end.

Lemma step_okp rec :
  (forall s i c, okp (rec s i c)) -> forall s is c, okp (step_body ftypes nof [] false rec s is c).
Proof.
  intros H s is c. unfold step_body, probes, sa_pend.
  destruct is as [|x rest]; [exact I|].
  destruct x as [i o|i e bt body|i e bt body|i el e bt thn els]; cbv zeta;
  repeat first
    [ exact I | reflexivity | apply H
    | rewrite run_pend_false
    | match goal with
      | |- okp (match exec_plain ?o ?c with _ => _ end) =>
          let Hx := fresh "Hx" in pose proof (exec_plain_shape o c) as Hx; destruct (exec_plain o c); try contradiction
      | |- okp (match ?r ?a ?b ?c with _ => _ end) =>
          let Hx := fresh "Hx" in pose proof (H a b c) as Hx; destruct (r a b c); cbn [okp] in Hx
      | |- okp (match ?x with _ => _ end) => destruct x
      | |- okp (if ?x then _ else _) => destruct x
      | |- okp (let '(_, _) := ?x in _) => destruct x
      end
    | cbn [okp]; assumption ].
Qed.

Lemma Pl_okp : forall fuel s is c, okp (Pl fuel s is c).
Proof. induction fuel as [|f IH]; intros; [exact I|]. cbn [exec]. apply step_okp, IH. Qed.

Lemma evP_pend_nil is c n p c' : evP is c (OBr n p c') -> p = [].
Proof. intros [f [Hf _]]. pose proof (Pl_okp f false is c) as H. rewrite Hf in H. exact H. Qed.
End EvalP.
