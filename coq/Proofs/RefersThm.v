(* Theorems over the *generated* tables (Gen/GenRefers.v, regenerated from /repo/src/ir/wrappers.rs and from
   the operator table of the pinned wasmparser on every check): which operators fix_op_id_mapping rewrites. *)
From Coq Require Import List NArith Bool.
Import ListNotations.
From Orca Require Import GenRefers.
Open Scope N_scope.

Definition mem (x : N) (l : list N) := existsb (N.eqb x) l.
Definition missing (need have : list N) := filter (fun k => negb (mem k have)) need.

(* complete and exact for functions and globals: the operators with a `function_index` / `global_index`
   field are exactly the listed ones *)
Theorem refers_to_func_complete : missing ops_with_func_index refers_to_func_list = [] /\ missing refers_to_func_list ops_with_func_index = [].
Proof. vm_compute. split; reflexivity. Qed.
Theorem refers_to_global_complete : missing ops_with_global_index refers_to_global_list = [] /\ missing refers_to_global_list ops_with_global_index = [].
Proof. vm_compute. split; reflexivity. Qed.
(* memories: every operator with a memarg / mem / src_mem / dst_mem immediate is classified, and nothing else *)
Theorem refers_to_memory_complete : missing ops_with_memory_index refers_to_memory_list = [] /\ missing refers_to_memory_list ops_with_memory_index = [].
Proof. vm_compute. split; reflexivity. Qed.
(* the classifiers and the rewriters agree with each other (an operator classified but not rewritten would
   hit the `_ => panic!` arm; one rewritten but not classified would never be reached) *)
Theorem refers_update_agree :
  (missing refers_to_memory_list update_memory_list = [] /\ missing update_memory_list refers_to_memory_list = []) /\
  (missing refers_to_func_list update_fn_list = [] /\ missing update_fn_list refers_to_func_list = []) /\
  (missing refers_to_global_list update_global_list = [] /\ missing update_global_list refers_to_global_list = []).
Proof. vm_compute. repeat split; reflexivity. Qed.
(* in the form used by clients: for every operator code *)
Theorem memory_operator_covered : forall k, In k ops_with_memory_index -> mem k refers_to_memory_list = true /\ mem k update_memory_list = true.
Proof.
  assert (H : forallb (fun k => mem k refers_to_memory_list && mem k update_memory_list) ops_with_memory_index = true) by (vm_compute; reflexivity).
  intros k Hk. rewrite forallb_forall in H. specialize (H k Hk). apply andb_prop in H. exact H.
Qed.
