From Coq Require Import List NArith Bool.
Import ListNotations.
From Orca Require Import GenRefers.
Open Scope N_scope.

Definition mem (x : N) (l : list N) := existsb (N.eqb x) l.
Definition missing (need have : list N) := filter (fun k => negb (mem k have)) need.

(* complete and exact for functions and globals *)
Theorem refers_to_func_complete : missing ops_with_func_index refers_to_func_list = [] /\ missing refers_to_func_list ops_with_func_index = [].
Proof. vm_compute. split; reflexivity. Qed.
Theorem refers_to_global_complete : missing ops_with_global_index refers_to_global_list = [] /\ missing refers_to_global_list ops_with_global_index = [].
Proof. vm_compute. split; reflexivity. Qed.
(* the classifier and the rewriter agree with each other *)
Theorem refers_update_agree :
  missing refers_to_memory_list update_memory_list = [] /\ missing update_memory_list refers_to_memory_list = [].
Proof. vm_compute. split; reflexivity. Qed.
(* memory: refuted today *)
Eval vm_compute in (length (missing ops_with_memory_index refers_to_memory_list), missing ops_with_memory_index refers_to_memory_list).
Theorem refers_to_memory_refuted : exists k, In k ops_with_memory_index /\ mem k refers_to_memory_list = false.
Proof. exists (hd 0 (missing ops_with_memory_index refers_to_memory_list)). vm_compute. split; [tauto|reflexivity]. Qed.
