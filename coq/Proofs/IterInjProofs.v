(* C26, injection half: for every interpretation of the trait-method tables, every component, skip map and
   injection plan, the ComponentIterator run leaves exactly the modules that one ModuleIterator per module leaves,
   provided the two method tables are equal -- which Props/C26.v evaluates on the tables the translator regenerates
   from the two source files on every check. *)
From Coq Require Import String.
From Coq Require Import List NArith Bool Lia.
Import ListNotations.
From Orca Require Import Iter CheckIter IterProofs IterInj.
Local Open Scope N_scope.

Lemma entry_eqb_eq : forall a b, entry_eqb a b = true -> a = b.
Proof.
  intros [[[[t1 n1] l1] s1] a1] [[[[t2 n2] l2] s2] a2] H. unfold entry_eqb in H.
  destruct (list_eq_dec string_dec a1 a2) as [Ha|Ha]; [|rewrite andb_false_r in H; discriminate].
  rewrite andb_true_r in H.
  apply andb_true_iff in H. destruct H as [H Hs]. apply andb_true_iff in H. destruct H as [H Hl].
  apply andb_true_iff in H. destruct H as [Ht Hn].
  apply String.eqb_eq in Ht, Hn, Hl, Hs. subst. reflexivity.
Qed.

Lemma table_eqb_eq : forall a b, table_eqb a b = true -> a = b.
Proof.
  induction a as [|x a IH]; intros [|y b] H; cbn [table_eqb] in H; try discriminate; [reflexivity|].
  apply andb_true_iff in H. destruct H as [Hx Hr]. rewrite (entry_eqb_eq _ _ Hx), (IH _ Hr). reflexivity.
Qed.

Lemma upd_app : forall (X : Type) (g : X -> X) (pre : list X) x xs,
  upd (length pre) g (pre ++ x :: xs) = pre ++ g x :: xs.
Proof. induction pre as [|p pre IH]; intros x xs; cbn [length app upd]; [reflexivity|]. rewrite IH. reflexivity. Qed.

Section Injection.
  Variable M : Type.
  Variable C : Type.
  Variable api : method_table -> C -> N -> N -> M -> M.

  (* the part of the component run that is module m's ModuleIterator run touches comp.modules[m] only, and does to
     it what the ModuleIterator run does *)
  Lemma fold_visit_comp_retag : forall tbl plan m tr pre x xs,
    length pre = N.to_nat m ->
    fold_left (visit_comp M C api tbl plan) (map (retag m) tr) (pre ++ x :: xs)
    = pre ++ fold_left (visit_mod M C api tbl (plan m)) tr x :: xs.
  Proof.
    intros tbl plan m tr. induction tr as [|e tr IH]; intros pre x xs Hlen; cbn [map fold_left]; [reflexivity|].
    destruct e as [m' f i en ok| | |]; cbn [retag visit_comp visit_mod]; try (apply IH; exact Hlen).
    rewrite <- Hlen, upd_app. apply IH. exact Hlen.
  Qed.

  Lemma fold_concat_module_runs : forall tbl plan metas m skips pre st,
    length pre = N.to_nat m -> length st = length metas ->
    fold_left (visit_comp M C api tbl plan) (concat_module_runs m metas skips) (pre ++ st)
    = pre ++ run_mods M C api tbl m metas skips plan st.
  Proof.
    intros tbl plan. induction metas as [|mt r IH]; intros m skips pre st Hpre Hlen.
    - destruct st; [reflexivity | discriminate].
    - destruct st as [|x xs]; [discriminate|]. cbn [length] in Hlen. injection Hlen as Hlen.
      cbn [concat_module_runs run_mods]. rewrite fold_left_app, (fold_visit_comp_retag tbl plan m _ pre x xs Hpre).
      unfold run_mod_plan.
      set (x' := fold_left (visit_mod M C api tbl (plan m)) (mi_run mt (hd [] skips) None false) x).
      change (pre ++ x' :: xs) with (pre ++ [x'] ++ xs). rewrite app_assoc.
      rewrite (IH (m + 1) (tl skips) (pre ++ [x']) xs); [|rewrite app_length; cbn [length]; lia | exact Hlen].
      rewrite <- app_assoc. reflexivity.
  Qed.

  (* For every interpretation [api], component, skip map, plan and initial modules: *)
  Theorem comp_injection_as_module_iterators : forall tblC tblM metas skips plan st,
    tblC = tblM ->
    forallb wf_meta metas = true -> length st = length metas ->
    run_comp_plan M C api tblC metas skips plan st = run_mods M C api tblM 0 metas skips plan st.
  Proof.
    intros tblC tblM metas skips plan st Htbl Hwf Hlen. subst tblM. unfold run_comp_plan.
    rewrite (ci_run_as_module_runs metas skips Hwf).
    exact (fold_concat_module_runs tblC plan metas 0 skips [] st eq_refl Hlen).
  Qed.

  Variable B : Type.
  Variable enc : M -> B.
  Corollary comp_injection_same_encoded_modules : forall tblC tblM metas skips plan st,
    table_eqb tblC tblM = true ->
    forallb wf_meta metas = true -> length st = length metas ->
    encode_modules M B enc (run_comp_plan M C api tblC metas skips plan st)
    = encode_modules M B enc (run_mods M C api tblM 0 metas skips plan st).
  Proof.
    intros tblC tblM metas skips plan st Htbl Hwf Hlen.
    rewrite (comp_injection_as_module_iterators tblC tblM metas skips plan st (table_eqb_eq _ _ Htbl) Hwf Hlen). reflexivity.
  Qed.

  (* modules the plan never touches are left alone (what must NOT change) *)
  Lemma run_mod_plan_untouched : forall tbl mt skip pl x,
    (forall f i, pl f i = []) -> run_mod_plan M C api tbl mt skip pl x = x.
  Proof.
    intros tbl mt skip pl x Hpl. unfold run_mod_plan. generalize (mi_run mt skip None false). intros tr. revert x.
    induction tr as [|e tr IH]; intros x; cbn [fold_left]; [reflexivity|].
    destruct e as [m' f i en ok| | |]; cbn [visit_mod]; try apply IH. rewrite Hpl. cbn [apply_calls fold_left]. apply IH.
  Qed.
End Injection.
