(* Simulation: the specification interpreter (probes run by the interpreter at the semantic moments)
   agrees with the plain interpreter on the lowered tree (probes spliced in as instructions).
   Covers before / after / block-entry / block-exit / semantic-after on block, if, else.
   Semantic-after on branches (flag locals) and function entry/exit are separate. *)
From Coq Require Import List Arith NArith ZArith Bool Lia.
Import ListNotations.
From Orca Require Import Flat Tree TreeLower WasmP SemProofs EvalP.

Section Sim.
Variable ftypes : list (nat * nat).
Variable F : nat -> flags.
Variable X : list fop.
Hypothesis HX : pcode X.

Notation E := (exec ftypes F X true).
Notation evP := (evP ftypes).
Notation ar := (arity ftypes).

Notation bef := (bef F). Notation aft := (aft F). Notation be_ := (be_ F).
Notation bx_ := (bx_ F). Notation sa_ := (sa_ F). Notation else_sa := (else_sa F). Notation lower := (lower F X).

Hypothesis Hcode : forall i, pcode (bef i) /\ pcode (aft i) /\ pcode (be_ i) /\ pcode (bx_ i) /\ pcode (sa_ i).

(* on loop re-entry the before-probes of the loop are not run again *)
Definition lowerL (sb : bool) (is : list instr) : list instr :=
  match sb, is with
  | true, ILoop i e bt body :: r =>
      [ILoop i e bt (ins (aft i ++ be_ i) ++ flat_map lower body ++ ins (bef e ++ bx_ i))]
      ++ ins (aft e ++ sa_ i) ++ flat_map lower r
  | _, _ => flat_map lower is
  end.

(* no semantic-after probes on branch instructions in this theorem *)
Fixpoint nb (x : instr) : Prop :=
  match x with
  | IPlain i (FBr _) | IPlain i (FBrIf _) | IPlain i (FBrTable _ _) => sa_ i = []
  | IPlain _ _ => True
  | IBlock _ _ _ b | ILoop _ _ _ b => fold_right (fun y acc => nb y /\ acc) True b
  | IIf _ _ _ _ t e => fold_right (fun y acc => nb y /\ acc) True t /\ fold_right (fun y acc => nb y /\ acc) True e
  end.
Definition nbl (is : list instr) : Prop := fold_right (fun y acc => nb y /\ acc) True is.

Lemma ins_app a b : ins (a ++ b) = ins a ++ ins b.
Proof. apply map_app. Qed.
Lemma pcode_app a b : pcode a -> pcode b -> pcode (a ++ b).
Proof. unfold pcode. intros. rewrite forallb_app. apply andb_true_intro; auto. Qed.

Lemma exec_plain_not_fuel o c : exec_plain o c <> OFuel.
Proof.
  destruct o; cbn; try discriminate;
  repeat (match goal with |- context [match ?x with _ => _ end] => destruct x end; try discriminate).
Qed.

(* result shape of the theorem, relative to a continuation program B *)
Definition G (B P : list instr) (c : cfg) (ob : outcome) : Prop :=
  match ob with
  | ONormal c' => forall r, evP B c' r -> evP P c r
  | _ => evP P c ob
  end.

(* the spec runs [code] then [k]; the program runs [ins code] then CONT *)
Lemma sim_probe code c k o CONT B FULL :
  pcode code ->
  probes true code c k = o -> o <> OFuel ->
  FULL = ins code ++ CONT ->
  (forall c', run_code code c = ONormal c' -> k c' = o -> G B CONT c' o) ->
  G B FULL c o.
Proof.
  intros Hp Hk Hn -> H. unfold probes in Hk.
  pose proof (evP_ins ftypes code CONT c Hp) as HI.
  destruct (run_code code c) as [c'| | | | |] eqn:R.
  - specialize (H c' eq_refl Hk). unfold G in *. destruct o; auto.
  - subst o. exact HI.
  - subst o. exact HI.
  - subst o. exact HI.
  - exfalso. eapply run_code_not_fuel; eauto.
  - subst o. exact HI.
Qed.

Lemma G_step B CONT2 c2 CONT c ob :
  (forall r, evP CONT2 c2 r -> evP CONT c r) -> G B CONT2 c2 ob -> G B CONT c ob.
Proof. intros T HG. unfold G in *. destruct ob; auto. Qed.

Lemma G_fail B P c ob : (forall c', ob <> ONormal c') -> evP P c ob -> G B P c ob.
Proof. intros Hn H. unfold G. destruct ob; auto. exfalso. eapply Hn; reflexivity. Qed.

Definition IHty (f : nat) : Prop :=
  forall sb is c ob, E f sb is c = ob -> ob <> OFuel -> nbl is ->
    (sb = true -> exists i e bt b r, is = ILoop i e bt b :: r) ->
    forall B, G B (lowerL sb is ++ B) c ob.

Lemma lowerL_cons_false x rest : lowerL false (x :: rest) = lower x ++ flat_map lower rest.
Proof. reflexivity. Qed.

(* ---------- plain instructions ---------- *)
Lemma sim_plain f i o rest c ob B :
  IHty f ->
  step_body ftypes F X true (E f) false (IPlain i o :: rest) c = ob -> ob <> OFuel ->
  nb (IPlain i o) -> nbl rest ->
  G B (lower (IPlain i o) ++ flat_map lower rest ++ B) c ob.
Proof.
  intros IH H Hn Hnb Hnr. unfold step_body in H. fold (bef i) in H.
  destruct (Hcode i) as [Pb [Pa [_ [_ Ps]]]].
  cbn [lower]. rewrite <- !app_assoc.
  eapply sim_probe; [exact Pb|exact H|exact Hn|reflexivity|].
  intros c1 _ Hk. cbn [app]. clear H.
  assert (Hrest : forall c3, E f false rest c3 = ob -> G B (flat_map lower rest ++ B) c3 ob).
  { intros c3 H3. apply (IH false rest c3 ob H3 Hn Hnr); discriminate. }
  assert (Hafter : forall c2, probes true (f_after (F i)) c2 (fun c => E f false rest c) = ob ->
                              G B (ins (aft i) ++ flat_map lower rest ++ B) c2 ob).
  { intros c2 H2. eapply sim_probe; [exact Pa|exact H2|exact Hn|reflexivity|].
    intros c3 _ H3. apply Hrest, H3. }
  destruct (is_plain o) eqn:Hpl.
  { (* ordinary instruction: the default branch of the interpreter *)
    assert (Hex : is_exit_op o = false) by (destruct o; try discriminate Hpl; reflexivity).
    rewrite Hex. cbn [app].
    assert (Hk' : match exec_plain o c1 with
                  | ONormal c' => probes true (f_after (F i)) c' (fun c => E f false rest c)
                  | r => r end = ob).
    { rewrite <- Hk. destruct o; try discriminate Hpl; reflexivity. }
    clear Hk.
    destruct (exec_plain o c1) as [c2| | | | |] eqn:Ex.
    - eapply G_step; [intros r Hr; eapply evP_plain; [exact Hpl|exact Ex|exact Hr]|]. apply Hafter; exact Hk'.
    - subst ob. apply G_fail; [intros; discriminate|]. apply evP_plain_stop; auto; try (intros; discriminate); try discriminate.
    - subst ob. apply G_fail; [intros; discriminate|]. apply evP_plain_stop; auto; try (intros; discriminate); try discriminate.
    - subst ob. apply G_fail; [intros; discriminate|]. apply evP_plain_stop; auto; try (intros; discriminate); try discriminate.
    - exfalso. eapply exec_plain_not_fuel; eauto.
    - subst ob. apply G_fail; [intros; discriminate|]. apply evP_plain_stop; auto; try (intros; discriminate); try discriminate. }
  destruct o; try discriminate Hpl; cbn [is_exit_op app];
    try (subst ob; apply G_fail; [intros; discriminate|];
         exists 1; split; [reflexivity|discriminate]; fail);
    (* return / return_call / unreachable / throw: the exit probes run first *)
    try (eapply sim_probe; [exact HX|exact Hk|exact Hn|reflexivity|];
         intros c2 _ Hk2; clear Hk; subst ob; apply G_fail; [intros; discriminate|];
         exists 1; split; [reflexivity|discriminate]; fail).
  - (* FBr *)
    cbn [nb] in Hnb. unfold sa_pend in Hk. fold (sa_ i) in Hk. rewrite Hnb in Hk. cbn in Hk.
    subst ob. apply G_fail; [intros; discriminate|]. apply evP_br.
  - (* FBrIf *)
    cbn [nb] in Hnb. unfold sa_pend in Hk. fold (sa_ i) in Hk. rewrite Hnb in Hk. cbn [is_nil] in Hk.
    destruct (stack c1) as [|v s] eqn:Hs.
    + subst ob. apply G_fail; [intros; discriminate|]. apply evP_brif_trap; exact Hs.
    + destruct (Z.eqb v 0) eqn:Hv.
      * eapply G_step; [intros r Hr; eapply evP_brif_not; [exact Hs|exact Hv|exact Hr]|].
        apply Hafter. exact Hk.
      * subst ob. apply G_fail; [intros; discriminate|]. eapply evP_brif_taken; eauto.
  - (* FBrTable *)
    cbn [nb] in Hnb. unfold sa_pend in Hk. fold (sa_ i) in Hk. rewrite Hnb in Hk. cbn [is_nil] in Hk.
    destruct (stack c1) as [|v s] eqn:Hs.
    + subst ob. apply G_fail; [intros; discriminate|]. apply evP_brtable_trap; exact Hs.
    + subst ob. apply G_fail; [intros; discriminate|]. apply evP_brtable; exact Hs.
Qed.

Lemma G_fail_or_normal P c ob : evP P c ob -> G [] P c ob.
Proof.
  unfold G. destruct ob; auto. intros H r [f [Hf Hn]].
  destruct f; cbn in Hf; [congruence|]. subst r. exact H.
Qed.

Lemma G_nil P c ob : G [] P c ob -> evP P c ob.
Proof. unfold G. destruct ob; auto. intros H. apply H, evP_nil. Qed.

Lemma run_code_shape code : forall c,
  match run_code code c with ONormal _ | OTrap _ | OUnsupported => True | _ => False end.
Proof.
  induction code as [|o code IH]; intros c; cbn [run_code]; [exact I|].
  destruct (exec_plain o c) eqn:Ex; try exact I; try apply IH;
  destruct o; cbn in Ex;
  repeat (match type of Ex with context [match ?x with _ => _ end] => destruct x end; try discriminate); discriminate.
Qed.

(* the body of a block-like construct with its entry and tail probes, as a plain outcome *)
Definition bodyS (f : nat) (entry : list fop) (body : list instr) (tail : list fop) (c0 : cfg) : outcome :=
  probes true entry c0 (fun c1 =>
    match E f false body c1 with
    | ONormal c' => probes true tail c' (fun c'' => ONormal c'')
    | r => r
    end).

Lemma sim_bodyS f entry body tail c0 ob :
  IHty f -> pcode entry -> pcode tail -> nbl body ->
  bodyS f entry body tail c0 = ob -> ob <> OFuel ->
  evP (ins entry ++ flat_map lower body ++ ins tail) c0 ob.
Proof.
  intros IH Pe Pt Hnb H Hn. apply G_nil. unfold bodyS in H.
  eapply sim_probe; [exact Pe|exact H|exact Hn|reflexivity|].
  intros c1 _ Hk. clear H. cbv beta in Hk.
  destruct (E f false body c1) as [c'|n p c'|c'|c'| |] eqn:Eb.
  - assert (Hb : G (ins tail) (lowerL false body ++ ins tail) c1 (ONormal c')).
    { apply (IH false body c1 _ Eb); [discriminate|exact Hnb|discriminate]. }
    cbn [G] in Hb. unfold lowerL in Hb.
    assert (Ht : evP (ins tail) c' ob).
    { apply G_nil. rewrite <- (app_nil_r (ins tail)).
      eapply sim_probe; [exact Pt|exact Hk|exact Hn|reflexivity|].
      intros c'' _ <-. cbn [G]. auto. }
    specialize (Hb ob Ht). apply G_fail_or_normal; exact Hb.
  - subst ob. assert (Hb := IH false body c1 _ Eb ltac:(discriminate) Hnb ltac:(discriminate) (ins tail)). exact Hb.
  - subst ob. assert (Hb := IH false body c1 _ Eb ltac:(discriminate) Hnb ltac:(discriminate) (ins tail)). exact Hb.
  - subst ob. assert (Hb := IH false body c1 _ Eb ltac:(discriminate) Hnb ltac:(discriminate) (ins tail)). exact Hb.
  - subst ob. contradiction.
  - subst ob. assert (Hb := IH false body c1 _ Eb ltac:(discriminate) Hnb ltac:(discriminate) (ins tail)). exact Hb.
Qed.

(* leaving a block-like construct: after(e), pending probes, semantic-after code, then the rest *)
Definition leaveS (f e : nat) (sa : list fop) (rest : list instr) (nr : nat) (below : list Z)
                  (pend : list (list fop)) (c' : cfg) : outcome :=
  probes true (aft e) (with_stack c' (firstn nr (stack c') ++ below)) (fun c2 =>
    run_pend true pend c2 (fun c3 => probes true sa c3 (fun c => E f false rest c))).

Lemma sim_leave f e sa rest nr below c' ob B :
  IHty f -> pcode sa -> nbl rest ->
  leaveS f e sa rest nr below [] c' = ob -> ob <> OFuel ->
  G B (ins (aft e ++ sa) ++ flat_map lower rest ++ B) (with_stack c' (firstn nr (stack c') ++ below)) ob.
Proof.
  intros IH Ps Hnr H Hn. unfold leaveS in H. destruct (Hcode e) as [_ [Pa _]].
  rewrite ins_app, <- app_assoc.
  eapply sim_probe; [exact Pa|exact H|exact Hn|reflexivity|].
  intros c2 _ H2. cbn [run_pend] in H2.
  eapply sim_probe; [exact Ps|exact H2|exact Hn|reflexivity|].
  intros c3 _ H3. apply (IH false rest c3 ob H3 Hn Hnr); discriminate.
Qed.

Lemma block_cps f i e bt body rest c :
  step_body ftypes F X true (E f) false (IBlock i e bt body :: rest) c =
  probes true (bef i) c (fun c =>
    match bodyS f (aft i ++ be_ i) body (bef e ++ bx_ i) (with_stack c (firstn (fst (ar bt)) (stack c))) with
    | ONormal c4 => leaveS f e (sa_ i) rest (snd (ar bt)) (skipn (fst (ar bt)) (stack c)) [] c4
    | OBr O p c3 => leaveS f e (sa_ i) rest (snd (ar bt)) (skipn (fst (ar bt)) (stack c)) p c3
    | OBr (S n) p c3 => OBr n p c3
    | r => r
    end).
Proof.
  unfold step_body, bodyS, leaveS, bef, aft, be_, bx_, sa_. destruct (ar bt) as [np nr]. cbn [fst snd].
  unfold probes.
  repeat (first
    [ reflexivity
    | match goal with
      | |- context [match run_code ?a ?b with _ => _ end] =>
          let Sh := fresh "Sh" in
          pose proof (run_code_shape a b) as Sh; destruct (run_code a b); try contradiction
      | |- context [match E ?f ?s ?is ?c with _ => _ end] => destruct (E f s is c)
      | |- context [match ?n with O => _ | S _ => _ end] => destruct n
      end ]).
Qed.

Lemma sim_block f i e bt body rest c ob B :
  IHty f ->
  step_body ftypes F X true (E f) false (IBlock i e bt body :: rest) c = ob -> ob <> OFuel ->
  nbl body -> nbl rest ->
  G B (lower (IBlock i e bt body) ++ flat_map lower rest ++ B) c ob.
Proof.
  intros IH H Hn Hb Hr. rewrite block_cps in H.
  destruct (Hcode i) as [Pb [Pa [Pe [Px Ps]]]]. destruct (Hcode e) as [Peb _].
  cbn [lower]. rewrite <- !app_assoc.
  eapply sim_probe; [exact Pb|exact H|exact Hn|reflexivity|].
  intros c1 _ Hk. clear H. cbv beta in Hk. cbn [app].
  set (c0 := with_stack c1 (firstn (fst (ar bt)) (stack c1))) in *.
  set (below := skipn (fst (ar bt)) (stack c1)) in *.
  destruct (bodyS f (aft i ++ be_ i) body (bef e ++ bx_ i) c0) as [c4|n p c3|c3|c3| |] eqn:Bd;
    try (subst ob; contradiction).
  - assert (evB := sim_bodyS f _ body _ c0 _ IH (pcode_app _ _ Pa Pe) (pcode_app _ _ Peb Px) Hb Bd ltac:(discriminate)).
    eapply G_step; [intros r Hr'; eapply evP_block; [exact evB|exact Hr']|].
    eapply sim_leave; [exact IH|exact Ps|exact Hr|exact Hk|exact Hn].
  - assert (evB := sim_bodyS f _ body _ c0 _ IH (pcode_app _ _ Pa Pe) (pcode_app _ _ Peb Px) Hb Bd ltac:(discriminate)).
    pose proof (evP_pend_nil _ _ _ _ _ _ evB) as ->.
    destruct n as [|n].
    + eapply G_step; [intros r Hr'; eapply evP_block; [exact evB|exact Hr']|].
      eapply sim_leave; [exact IH|exact Ps|exact Hr|exact Hk|exact Hn].
    + subst ob. apply G_fail; [intros; discriminate|]. eapply evP_block; [exact evB|reflexivity].
  - assert (evB := sim_bodyS f _ body _ c0 _ IH (pcode_app _ _ Pa Pe) (pcode_app _ _ Peb Px) Hb Bd ltac:(discriminate)).
    subst ob. apply G_fail; [intros; discriminate|]. eapply evP_block; [exact evB|reflexivity].
  - assert (evB := sim_bodyS f _ body _ c0 _ IH (pcode_app _ _ Pa Pe) (pcode_app _ _ Peb Px) Hb Bd ltac:(discriminate)).
    subst ob. apply G_fail; [intros; discriminate|]. eapply evP_block; [exact evB|reflexivity].
  - assert (evB := sim_bodyS f _ body _ c0 _ IH (pcode_app _ _ Pa Pe) (pcode_app _ _ Peb Px) Hb Bd ltac:(discriminate)).
    subst ob. apply G_fail; [intros; discriminate|]. eapply evP_block; [exact evB|reflexivity].
Qed.

(* ---------- loops ---------- *)
Lemma loop_cps f sb i e bt body rest c :
  step_body ftypes F X true (E f) sb (ILoop i e bt body :: rest) c =
  probes true (if sb then [] else bef i) c (fun c =>
    match bodyS f (aft i ++ be_ i) body (bef e ++ bx_ i) (with_stack c (firstn (fst (ar bt)) (stack c))) with
    | ONormal c4 => leaveS f e (sa_ i) rest (snd (ar bt)) (skipn (fst (ar bt)) (stack c)) [] c4
    | OBr O _ c3 => E f true (ILoop i e bt body :: rest)
                      (with_stack c3 (firstn (fst (ar bt)) (stack c3) ++ skipn (fst (ar bt)) (stack c)))
    | OBr (S n) p c3 => OBr n p c3
    | r => r
    end).
Proof.
  unfold step_body, bodyS, leaveS, bef, aft, be_, bx_, sa_. destruct (ar bt) as [np nr]. cbn [fst snd].
  unfold probes. cbn [run_pend].
  repeat (first
    [ reflexivity
    | match goal with
      | |- context [match run_code ?a ?b with _ => _ end] =>
          let Sh := fresh "Sh" in
          pose proof (run_code_shape a b) as Sh; destruct (run_code a b); try contradiction
      | |- context [match E ?f ?s ?is ?c with _ => _ end] => destruct (E f s is c)
      | |- context [match ?n with O => _ | S _ => _ end] => destruct n
      end ]).
Qed.

Lemma sim_loop f sb i e bt body rest c ob B :
  IHty f ->
  step_body ftypes F X true (E f) sb (ILoop i e bt body :: rest) c = ob -> ob <> OFuel ->
  nbl body -> nbl rest ->
  G B (lowerL sb (ILoop i e bt body :: rest) ++ B) c ob.
Proof.
  intros IH H Hn Hb Hr. rewrite loop_cps in H.
  destruct (Hcode i) as [Pb [Pa [Pe [Px Ps]]]]. destruct (Hcode e) as [Peb _].
  set (BODY := ins (aft i ++ be_ i) ++ flat_map lower body ++ ins (bef e ++ bx_ i)).
  set (REST := ins (aft e ++ sa_ i) ++ flat_map lower rest ++ B).
  assert (Hshape : lowerL sb (ILoop i e bt body :: rest) ++ B
                   = ins (if sb then [] else bef i) ++ [ILoop i e bt BODY] ++ REST).
  { unfold REST, BODY. destruct sb; cbn [lowerL lower flat_map ins map app]; rewrite <- ?app_assoc; reflexivity. }
  rewrite Hshape.
  assert (Pc : pcode (if sb then [] else bef i)) by (destruct sb; [reflexivity|exact Pb]).
  eapply sim_probe; [exact Pc|exact H|exact Hn|reflexivity|].
  intros c1 _ Hk. clear H. cbv beta in Hk. cbn [app].
  set (c0 := with_stack c1 (firstn (fst (ar bt)) (stack c1))) in *.
  set (below := skipn (fst (ar bt)) (stack c1)) in *.
  destruct (bodyS f (aft i ++ be_ i) body (bef e ++ bx_ i) c0) as [c4|n p c3|c3|c3| |] eqn:Bd;
    try (subst ob; contradiction);
    assert (evB := sim_bodyS f _ body _ c0 _ IH (pcode_app _ _ Pa Pe) (pcode_app _ _ Peb Px) Hb Bd ltac:(discriminate)).
  - eapply G_step; [intros r Hr'; eapply evP_loop; [exact evB|exact Hr']|].
    eapply sim_leave; [exact IH|exact Ps|exact Hr|exact Hk|exact Hn].
  - destruct n as [|n].
    + (* branch to the loop label: iterate *)
      eapply G_step; [intros r Hr'; eapply evP_loop; [exact evB|exact Hr']|].
      cbn [after_loop].
      assert (HI := IH true (ILoop i e bt body :: rest) _ ob Hk Hn (conj Hb Hr)
                       (fun _ => ex_intro _ i (ex_intro _ e (ex_intro _ bt (ex_intro _ body (ex_intro _ rest eq_refl))))) B).
      assert (Hshape2 : lowerL true (ILoop i e bt body :: rest) ++ B = ILoop i e bt BODY :: REST).
      { unfold REST, BODY. cbn [lowerL app]. rewrite <- ?app_assoc. reflexivity. }
      rewrite Hshape2 in HI. exact HI.
    + subst ob. apply G_fail; [intros; discriminate|]. eapply evP_loop; [exact evB|reflexivity].
  - subst ob. apply G_fail; [intros; discriminate|]. eapply evP_loop; [exact evB|reflexivity].
  - subst ob. apply G_fail; [intros; discriminate|]. eapply evP_loop; [exact evB|reflexivity].
  - subst ob. apply G_fail; [intros; discriminate|]. eapply evP_loop; [exact evB|reflexivity].
Qed.

(* ---------- if ---------- *)
Definition then_tail (i : nat) (el : option nat) (e : nat) : list fop :=
  match el with Some x => bef x ++ bx_ i | None => bef e ++ bx_ i end.

Definition armS (f e : nat) (sa : list fop) (rest : list instr) (nr : nat) (below : list Z) (ob : outcome) : outcome :=
  match ob with
  | ONormal c4 => leaveS f e sa rest nr below [] c4
  | OBr O p c3 => leaveS f e sa rest nr below p c3
  | OBr (S n) p c3 => OBr n p c3
  | r => r
  end.

Lemma if_cps f i el e bt thn els rest c :
  step_body ftypes F X true (E f) false (IIf i el e bt thn els :: rest) c =
  probes true (bef i) c (fun c =>
    match stack c with
    | [] => OTrap c
    | v :: s =>
        let np := fst (ar bt) in let nr := snd (ar bt) in
        let below := skipn np s in let c0 := with_stack c (firstn np s) in
        let sa := sa_ i ++ else_sa el in
        if negb (Z.eqb v 0)
        then armS f e sa rest nr below (bodyS f (aft i ++ be_ i) thn (then_tail i el e) c0)
        else match el with
             | Some x => armS f e sa rest nr below (bodyS f (aft x ++ be_ x) els (bef e ++ bx_ x) c0)
             | None => leaveS f e sa rest nr below [] c0
             end
    end).
Proof.
  unfold step_body, armS, bodyS, leaveS, then_tail, else_sa, bef, aft, be_, bx_, sa_.
  destruct (ar bt) as [np nr]. cbn [fst snd]. unfold probes. cbn [run_pend].
  destruct (run_code (f_before (F i)) c) as [c1| | | | |]; try reflexivity.
  destruct (stack c1) as [|v s]; [reflexivity|].
  destruct (Z.eqb v 0); cbn [negb]; destruct el as [x|];
  repeat (first
    [ reflexivity
    | match goal with
      | |- context [match run_code ?a ?b with _ => _ end] =>
          let Sh := fresh "Sh" in
          pose proof (run_code_shape a b) as Sh; destruct (run_code a b); try contradiction
      | |- context [match E ?f ?s ?is ?c with _ => _ end] => destruct (E f s is c)
      | |- context [match ?n with O => _ | S _ => _ end] => destruct n
      end ]).
Qed.

(* common ending of block / if arms *)
Lemma sim_arm f e sa rest nr below BODY c0 obB FULL c1 ob B :
  IHty f -> pcode sa -> nbl rest ->
  evP BODY c0 obB ->
  (forall r, after_block ftypes below nr (ins (aft e ++ sa) ++ flat_map lower rest ++ B) obB r -> evP FULL c1 r) ->
  armS f e sa rest nr below obB = ob -> ob <> OFuel ->
  G B FULL c1 ob.
Proof.
  intros IH Ps Hr evB Rule Hk Hn. unfold armS in Hk.
  destruct obB as [c4|n p c3|c3|c3| |].
  - eapply G_step; [intros r Hr'; apply Rule; exact Hr'|].
    eapply sim_leave; [exact IH|exact Ps|exact Hr|exact Hk|exact Hn].
  - pose proof (evP_pend_nil _ _ _ _ _ _ evB) as ->. destruct n as [|n].
    + eapply G_step; [intros r Hr'; apply Rule; exact Hr'|].
      eapply sim_leave; [exact IH|exact Ps|exact Hr|exact Hk|exact Hn].
    + subst ob. apply G_fail; [intros; discriminate|]. apply Rule. reflexivity.
  - subst ob. apply G_fail; [intros; discriminate|]. apply Rule. reflexivity.
  - subst ob. apply G_fail; [intros; discriminate|]. apply Rule. reflexivity.
  - subst ob. contradiction.
  - subst ob. apply G_fail; [intros; discriminate|]. apply Rule. reflexivity.
Qed.

Lemma sim_if f i el e bt thn els rest c ob B :
  IHty f ->
  step_body ftypes F X true (E f) false (IIf i el e bt thn els :: rest) c = ob -> ob <> OFuel ->
  nbl thn -> nbl els -> nbl rest ->
  G B (lower (IIf i el e bt thn els) ++ flat_map lower rest ++ B) c ob.
Proof.
  intros IH H Hn Ht He Hr. rewrite if_cps in H.
  destruct (Hcode i) as [Pb [Pa [Pe [Px Ps]]]]. destruct (Hcode e) as [Peb _].
  assert (Psa : pcode (sa_ i ++ else_sa el)).
  { apply pcode_app; [exact Ps|]. destruct el as [x|]; [apply (Hcode x)|reflexivity]. }
  assert (Ptt : pcode (then_tail i el e)).
  { unfold then_tail. destruct el as [x|]; apply pcode_app; try exact Px; [apply (Hcode x)|exact Peb]. }
  cbn [lower]. rewrite <- !app_assoc.
  eapply sim_probe; [exact Pb|exact H|exact Hn|reflexivity|].
  intros c1 _ Hk. clear H. cbv beta in Hk. cbn [app].
  destruct (stack c1) as [|v s] eqn:Hs.
  { subst ob. apply G_fail; [intros; discriminate|]. apply evP_if_trap; exact Hs. }
  cbv zeta in Hk. fold (then_tail i el e).
  destruct (negb (Z.eqb v 0)) eqn:Hv.
  - (* then-arm *)
    destruct (bodyS f (aft i ++ be_ i) thn (then_tail i el e) (with_stack c1 (firstn (fst (ar bt)) s))) eqn:Bd;
      try (cbn [armS] in Hk; subst ob; contradiction).
    all: eapply sim_arm; [exact IH|exact Psa|exact Hr
         | eapply sim_bodyS; [exact IH|exact (pcode_app _ _ Pa Pe)|exact Ptt|exact Ht|exact Bd|discriminate]
         | intros r HA; eapply (evP_if_arm ftypes true); [exact Hs|exact Hv|discriminate| |exact HA]
         | exact Hk | exact Hn ].
    all: cbn [andb]; match goal with |- evP _ _ ?o => idtac end.
    all: eapply sim_bodyS; [exact IH|exact (pcode_app _ _ Pa Pe)|exact Ptt|exact Ht|exact Bd|discriminate].
  - destruct el as [x|].
    + (* else-arm *)
      destruct (Hcode x) as [_ [Pxa [Pxe [Pxx _]]]].
      destruct (bodyS f (aft x ++ be_ x) els (bef e ++ bx_ x) (with_stack c1 (firstn (fst (ar bt)) s))) eqn:Bd;
        try (cbn [armS] in Hk; subst ob; contradiction).
      all: eapply sim_arm; [exact IH|exact Psa|exact Hr
           | eapply sim_bodyS; [exact IH|exact (pcode_app _ _ Pxa Pxe)|exact (pcode_app _ _ Peb Pxx)|exact He|exact Bd|discriminate]
           | intros r HA; eapply (evP_if_arm ftypes false); [exact Hs|exact Hv|intros _; discriminate| |exact HA]
           | exact Hk | exact Hn ].
      all: eapply sim_bodyS; [exact IH|exact (pcode_app _ _ Pxa Pxe)|exact (pcode_app _ _ Peb Pxx)|exact He|exact Bd|discriminate].
    + (* no else: skip *)
      apply negb_false_iff in Hv.
      eapply G_step; [intros r Hr'; eapply evP_if_skip; [exact Hs|exact Hv|]|].
      2:{ eapply sim_leave; [exact IH|exact Psa|exact Hr|exact Hk|exact Hn]. }
      cbn [with_stack stack] in Hr'. exact Hr'.
Qed.

(* ---------- the simulation theorem ---------- *)
Theorem sim : forall f, IHty f.
Proof.
  induction f as [|f IH]; intros sb is c ob H Hn Hnb Hsb B.
  - cbn in H. congruence.
  - cbn [exec] in H.
    destruct is as [|x rest].
    + cbn in H. subst ob. destruct sb; cbn [lowerL flat_map app G]; auto.
    + destruct Hnb as [Hx Hrest].
      destruct x as [i o|i e bt body|i e bt body|i el e bt thn els].
      * assert (sb = false) as -> by (destruct sb; [destruct (Hsb eq_refl) as (?&?&?&?&?&?); discriminate|reflexivity]).
        rewrite lowerL_cons_false, <- app_assoc. eapply sim_plain; eauto.
      * assert (sb = false) as -> by (destruct sb; [destruct (Hsb eq_refl) as (?&?&?&?&?&?); discriminate|reflexivity]).
        rewrite lowerL_cons_false, <- app_assoc. eapply sim_block; eauto.
      * eapply sim_loop; eauto.
      * assert (sb = false) as -> by (destruct sb; [destruct (Hsb eq_refl) as (?&?&?&?&?&?); discriminate|reflexivity]).
        destruct Hx as [Ht He].
        rewrite lowerL_cons_false, <- app_assoc. eapply sim_if; eauto.
Qed.

(* Corollary in closed form: whenever the specification interpreter produces a result, the plain
   interpreter produces the same result on the lowered body. *)
Corollary sim_closed fuel is c ob :
  exec ftypes F X true fuel false is c = ob -> ob <> OFuel -> nbl is ->
  exists fuel', exec ftypes (fun _ => no_flags) [] false fuel' false (flat_map lower is) c = ob.
Proof.
  intros H Hn Hnb.
  pose proof (sim fuel false is c ob H Hn Hnb ltac:(discriminate) []) as HG.
  rewrite app_nil_r in HG. apply G_nil in HG. destruct HG as [f' [Hf _]]. exists f'. exact Hf.
Qed.
End Sim.

Print Assumptions sim_closed.
