(* C22: no special-mode probe is lost.  On top of Flatten.model_flatten_real (the flat mirror's output is the
   flattening of the tree lowering): every block-entry, block-exit and semantic-after code list attached to a
   construct of the body, the function-entry code and the function-exit code all occur, as contiguous pieces, in
   the body the mirror emits -- for every body and plan in the fragment of the flattening theorem. *)
From Coq Require Import List Arith NArith ZArith Bool Lia.
Import ListNotations.
From Orca Require Import Util Flat Lowering Tree TreeLower WasmP EvalP Sim SimFn Peel SimFnReal Commute CheckLow CheckSem Flatten.

Definition infix {A} (a b : list A) : Prop := exists p s, b = p ++ a ++ s.

Lemma infix_here {A} (a s : list A) : infix a (a ++ s).
Proof. exists [], s. reflexivity. Qed.
Lemma infix_refl {A} (a : list A) : infix a a.
Proof. exists [], []. rewrite app_nil_r. reflexivity. Qed.
Lemma infix_skip {A} (a b c : list A) : infix a b -> infix a (c ++ b).
Proof. intros (p & s & ->). exists (c ++ p), s. rewrite app_assoc. reflexivity. Qed.
Lemma infix_cons {A} (a b : list A) x : infix a b -> infix a (x :: b).
Proof. intros H. apply (infix_skip a b [x]). exact H. Qed.
Lemma infix_left {A} (a b c : list A) : infix a b -> infix a (b ++ c).
Proof. intros (p & s & ->). exists p, (s ++ c). rewrite <- !app_assoc. reflexivity. Qed.
Lemma infix_nil {A} (b : list A) : infix [] b.
Proof. exists [], b. reflexivity. Qed.

(* the positions that carry constructs: block / loop / if openers and else *)
Fixpoint sites1 (x : instr) : list nat :=
  match x with
  | IPlain _ _ => []
  | IBlock i _ _ b | ILoop i _ _ b => i :: flat_map sites1 b
  | IIf i el _ _ t e =>
      i :: flat_map sites1 t ++ (match el with Some x => x :: flat_map sites1 e | None => [] end)
  end.
Definition sites (t : list instr) : list nat := flat_map sites1 t.

Section NoLoss.
Variable F : nat -> flags.
Variable X : list fop.

Definition kept (i : nat) (b : list fop) : Prop :=
  infix (be_ F i) b /\ infix (bx_ F i) b /\ infix (sa_ F i) b.

Lemma kept_skip i b c : kept i b -> kept i (c ++ b).
Proof. intros (H1 & H2 & H3). repeat split; apply infix_skip; assumption. Qed.
Lemma kept_left i b c : kept i b -> kept i (b ++ c).
Proof. intros (H1 & H2 & H3). repeat split; apply infix_left; assumption. Qed.
Lemma kept_cons i b x : kept i b -> kept i (x :: b).
Proof. intros (H1 & H2 & H3). repeat split; apply infix_cons; assumption. Qed.

Lemma kept_seq (t : list instr) :
  Forall (fun x => forall i, In i (sites1 x) -> kept i (flat (lower F X x))) t ->
  forall i, In i (flat_map sites1 t) -> kept i (flat (flat_map (lower F X) t)).
Proof.
  induction t as [|x t IH]; intros HF i Hin; [contradiction|].
  inversion HF as [|? ? Hx Ht]; subst. cbn [flat_map] in *.
  rewrite flat_app. apply in_app_or in Hin as [Hin|Hin].
  - apply kept_left. apply Hx. exact Hin.
  - apply kept_skip. apply IH; assumption.
Qed.

Ltac norm_app := repeat (progress (cbn [app]; rewrite <- ?app_assoc)).
Ltac find_kept := norm_app; solve [ repeat first [ (apply kept_left; apply kept_seq; assumption) | apply kept_cons | apply kept_skip ] ].
Ltac find_infix :=
  solve [ repeat first [ apply infix_here | apply infix_refl | apply infix_cons | apply infix_skip ] ].

Lemma kept_node : forall x i, In i (sites1 x) -> kept i (flat (lower F X x)).
Proof.
  induction x as [j o|j e bt b IHb|j e bt b IHb|j el e bt t els IHt IHe] using instr_ind2; intros i Hin.
  - contradiction.
  - cbn [sites1] in Hin. cbn [lower]. rewrite !flat_app, !flat_ins. cbn [flat flat_map flat1]. rewrite app_nil_r.
    fold (flat (ins (aft F j ++ be_ F j) ++ flat_map (lower F X) b ++ ins (bef F e ++ bx_ F j))).
    rewrite !flat_app, !flat_ins.
    destruct Hin as [<-|Hin].
    + unfold kept. norm_app. repeat split; find_infix.
    + find_kept.
  - cbn [sites1] in Hin. cbn [lower]. rewrite !flat_app, !flat_ins. cbn [flat flat_map flat1]. rewrite app_nil_r.
    fold (flat (ins (aft F j ++ be_ F j) ++ flat_map (lower F X) b ++ ins (bef F e ++ bx_ F j))).
    rewrite !flat_app, !flat_ins.
    destruct Hin as [<-|Hin].
    + unfold kept. norm_app. repeat split; find_infix.
    + find_kept.
  - cbn [sites1] in Hin. cbn [lower]. rewrite !flat_app, !flat_ins. cbn [flat flat_map flat1]. rewrite app_nil_r.
    destruct el as [x|].
    + fold (flat (ins (aft F j ++ be_ F j) ++ flat_map (lower F X) t ++ ins (bef F x ++ bx_ F j))).
      fold (flat (ins (aft F x ++ be_ F x) ++ flat_map (lower F X) els ++ ins (bef F e ++ bx_ F x))).
      rewrite !flat_app, !flat_ins. cbn [else_sa].
      destruct Hin as [<-|Hin]; [|apply in_app_or in Hin as [Hin|[<-|Hin]]].
      * unfold kept. norm_app. repeat split; find_infix.
      * find_kept.
      * unfold kept. norm_app. repeat split; find_infix.
      * find_kept.
    + fold (flat (ins (aft F j ++ be_ F j) ++ flat_map (lower F X) t ++ ins (bef F e ++ bx_ F j))).
      rewrite !flat_app, !flat_ins. cbn [else_sa]. rewrite !app_nil_r.
      destruct Hin as [<-|Hin]; [|rewrite app_nil_r in Hin].
      * unfold kept. norm_app. repeat split; find_infix.
      * find_kept.
Qed.
End NoLoss.

Lemma kept_tree F X t : forall i, In i (sites t) -> kept F i (flat (flat_map (lower F X) t)).
Proof.
  apply kept_seq. apply Forall_forall. intros x _. apply kept_node.
Qed.

Lemma with0_special c F i :
  f_be (with0 c F i) = f_be (F i) /\ f_bx (with0 c F i) = f_bx (F i) /\ f_sa (with0 c F i) = f_sa (F i).
Proof. unfold with0. destruct (Nat.eqb i 0); cbn; auto. Qed.
Lemma F0_special F i :
  f_be (TreeLower.F0 F i) = f_be (F i) /\ f_bx (TreeLower.F0 F i) = f_bx (F i) /\ f_sa (TreeLower.F0 F i) = f_sa (F i).
Proof.
  unfold TreeLower.F0. destruct (Nat.eqb i 0) eqn:E; cbn; auto.
  apply Nat.eqb_eq in E. subst i. auto.
Qed.

Lemma kept_change F G i b :
  f_be (F i) = f_be (G i) -> f_bx (F i) = f_bx (G i) -> f_sa (F i) = f_sa (G i) -> kept F i b -> kept G i b.
Proof. unfold kept, be_, bx_, sa_. intros -> -> ->. auto. Qed.

(* the lowering of a tree whose first node sits at position 0 starts with the before-code of position 0 *)
Lemma lower_head F X x rest : head_at_0 x ->
  exists s, flat (flat_map (lower F X) (x :: rest)) = bef F 0 ++ s.
Proof.
  intros H. cbn [flat_map]. rewrite flat_app.
  destruct x as [j o|j e bt b|j e bt b|j el e bt t els]; cbn [head_at_0] in H.
  - subst j. cbn [lower]. rewrite !flat_app, flat_ins. rewrite <- !app_assoc. eexists. reflexivity.
  - destruct H as (-> & _). cbn [lower]. rewrite !flat_app, flat_ins. rewrite <- !app_assoc. eexists. reflexivity.
  - destruct H as (-> & _). cbn [lower]. rewrite !flat_app, flat_ins. rewrite <- !app_assoc. eexists. reflexivity.
  - destruct H as (-> & _). cbn [lower]. rewrite !flat_app, flat_ins. rewrite <- !app_assoc. eexists. reflexivity.
Qed.

(* C22 on the mirror: in the fragment of the flattening theorem every special probe of every construct, the
   function-entry code and the function-exit code occur in the emitted body *)
Theorem special_probes_all_emitted (c : lcase) t fe fb sp n :
  parse_body (c_body c) = Some (t, fe) ->
  apply_plan false (c_plan c) (map (fun o => (o, no_flags)) (c_body c)) false = Some (fb, sp) ->
  forallb (fun x => nonreplacing (snd x)) fb = true ->
  let Fe := with0 (c_entry c) (flags_fn fb) in
  forallb (instr_no_branch_sa Fe n) t = true -> t <> [] ->
  exists body, model c = Some (body, c_groups c) /\
    (forall i, In i (sites t) ->
       infix (f_be (flags_fn fb i)) body /\ infix (f_bx (flags_fn fb i)) body /\ infix (f_sa (flags_fn fb i)) body) /\
    infix (c_entry c) body /\ infix (c_exit c) body.
Proof.
  intros Hp Ha Hnr Fe Hsa Hne.
  exists (tie_body Fe (c_exit c) (c_exit_ty c) t fe). split.
  { exact (model_flatten_real c t fe fb sp n Hp Ha Hnr Hsa Hne). }
  destruct t as [|x rest]; [congruence|].
  destruct (parse_body_positions _ _ _ _ Hp) as (Hh & _ & _).
  assert (Hentry : exists p, f_before (Fe 0) = p ++ c_entry c).
  { unfold Fe, with0. cbn [Nat.eqb]. unfold w_before. cbn [f_before]. eexists. reflexivity. }
  destruct Hentry as (pe & Hentry).
  unfold tie_body. destruct (c_exit c) as [|x0 X0] eqn:EX.
  - split; [|split].
    + intros i Hi. pose proof (kept_tree Fe [] (x :: rest) i Hi) as K.
      destruct (with0_special (c_entry c) (flags_fn fb) i) as (E1 & E2 & E3). fold Fe in E1, E2, E3.
      unfold kept, be_, bx_, sa_ in K. rewrite E1, E2, E3 in K. destruct K as (K1 & K2 & K3).
      repeat split; apply infix_left; assumption.
    + destruct (lower_head Fe [] x rest Hh) as (s & Hs). rewrite Hs. unfold bef. rewrite Hentry.
      rewrite <- !app_assoc. apply infix_skip. apply infix_here.
    + apply infix_nil.
  - split; [|split].
    + intros i Hi. pose proof (kept_tree (TreeLower.F0 Fe) (x0 :: X0) (x :: rest) i Hi) as K.
      destruct (with0_special (c_entry c) (flags_fn fb) i) as (E1 & E2 & E3). fold Fe in E1, E2, E3.
      destruct (F0_special Fe i) as (G1 & G2 & G3).
      unfold kept, be_, bx_, sa_ in K. rewrite G1, G2, G3, E1, E2, E3 in K. destruct K as (K1 & K2 & K3).
      repeat split; apply infix_skip; apply infix_cons; apply infix_left; apply infix_left; assumption.
    + rewrite Hentry. rewrite <- !app_assoc. apply infix_skip. apply infix_here.
    + apply infix_skip. apply infix_cons. apply infix_skip. apply infix_skip. apply infix_here.
Qed.

(* non-vacuity is shown in Props/C22.v on a concrete body *)
Print Assumptions special_probes_all_emitted.
