(* Tree-level lowering of the non-replacing instrumentation modes (before / after / block-entry /
   block-exit / semantic-after on block, if, else): probes spliced into the structured body.  This is
   the object of the simulation theorem (Proofs/Sim.v); CheckSem.v compares its flattening with the
   body the implementation really emitted. *)
From Coq Require Import List Arith NArith ZArith Bool.
Import ListNotations.
From Orca Require Import Flat Tree.

Definition ins (code : list fop) : list instr := map (IPlain 0) code.

Fixpoint flat1 (x : instr) : list fop :=
  match x with
  | IPlain _ o => [o]
  | IBlock _ _ bt b => FBlock bt :: flat_map flat1 b ++ [FEnd]
  | ILoop _ _ bt b => FLoop bt :: flat_map flat1 b ++ [FEnd]
  | IIf _ el _ bt t els =>
      FIf bt :: flat_map flat1 t ++ (match el with Some _ => FElse :: flat_map flat1 els | None => [] end) ++ [FEnd]
  end.
Definition flat (t : list instr) := flat_map flat1 t.

(* the flags with the before-probes of position 0 removed (the implementation emits those, and the function-entry
   probes filed behind them, in front of the wrapper block of the function-exit lowering) *)
Definition clear_before (f : flags) : flags := mkFlags [] (f_after f) (f_alt f) (f_sa f) (f_be f) (f_bx f) (f_balt f).
Definition F0 (F : nat -> flags) (p : nat) : flags := if Nat.eqb p 0 then clear_before (F 0) else F p.

Section Lower.
Variable F : nat -> flags.
Variable X : list fop.     (* function-exit probes, spliced before return / return_call / unreachable / throw *)
Definition bef i := f_before (F i).
Definition aft i := f_after (F i).
Definition be_ i := f_be (F i).
Definition bx_ i := f_bx (F i).
Definition sa_ i := f_sa (F i).


Definition else_sa (el : option nat) := match el with Some x => sa_ x | None => [] end.

Fixpoint lower (x : instr) : list instr :=
  match x with
  | IPlain i o => ins (bef i) ++ (if is_exit_op o then ins X else []) ++ [IPlain i o] ++ ins (aft i)
  | IBlock i e bt body =>
      ins (bef i)
      ++ [IBlock i e bt (ins (aft i ++ be_ i) ++ flat_map lower body ++ ins (bef e ++ bx_ i))]
      ++ ins (aft e ++ sa_ i)
  | ILoop i e bt body =>
      ins (bef i)
      ++ [ILoop i e bt (ins (aft i ++ be_ i) ++ flat_map lower body ++ ins (bef e ++ bx_ i))]
      ++ ins (aft e ++ sa_ i)
  | IIf i el e bt thn els =>
      ins (bef i)
      ++ [IIf i el e bt
            (ins (aft i ++ be_ i) ++ flat_map lower thn
             ++ ins (match el with Some x => bef x ++ bx_ i | None => bef e ++ bx_ i end))
            (match el with
             | Some x => ins (aft x ++ be_ x) ++ flat_map lower els ++ ins (bef e ++ bx_ x)
             | None => []
             end)]
      ++ ins (aft e ++ sa_ i ++ else_sa el)
  end.

End Lower.
