(* Locals engine (C14): executable mirror of the local-adding API.

   src/ir/module/module_functions.rs:255  add_local(ty, num_params, &mut num_locals, &mut locals)
       index = num_params + num_locals ; num_locals += 1 ;
       last group has type ty ? bump its count : push (1, ty)
   is already mirrored by [Lowering.add_local] / [Lowering.bump_last]; it is imported, not copied.

   Every public way of adding a local ends in that function:
     path 0  FunctionBuilder::add_local          (function.rs:164)   num_params = self.params.len()
     path 1  FunctionModifier::add_local         (function.rs:218)   num_params = self.args.len()
     path 2  ModuleIterator::add_local           (module_iterator.rs:355) -> Functions::add_local
                                                 -> LocalFunction::add_local, num_params = self.args.len()
     path 3  ComponentIterator::add_local        (component_iterator.rs:541) -> the same
     path 4  FunctionModifier::add_locals        (function.rs:208)   add_local per element, ids discarded
     path 5  LocalFunction::add_local            (module_functions.rs:179) via Functions::unwrap_local
   [args] is 0..nparams of the function's type for a parsed function (mod.rs:534) and 0..params.len()
   for a built one (mod.rs:1899), so num_params is the number of parameters on every path.

   Parse (mod.rs:321-331): locals = the declared (count, type) groups, num_locals = sum of the counts.
   Builder: Body::default() = no groups, num_locals 0.
   Encode (mod.rs:1575-1579): the groups are emitted as they are, in order. *)
From Coq Require Import List NArith Bool.
Import ListNotations.
From Orca Require Import Flat Lowering.
Local Open Scope N_scope.

(* the index space of the locals a list of run-length groups declares *)
Fixpoint expand (g : list (N * N)) : list N :=
  match g with
  | [] => []
  | (c, t) :: g' => repeat t (N.to_nat c) ++ expand g'
  end.

Fixpoint sum_counts (g : list (N * N)) : N :=
  match g with [] => 0 | (c, _) :: g' => c + sum_counts g' end.

(* Module::parse of one code entry / Body::default() of a builder (no groups) *)
Definition parse_locals (np : N) (g : list (N * N)) : locals := mkLocals np (sum_counts g) g.

(* one API call: (path, type).  The returned id is visible to the caller except on path 4. *)
Definition api_add (path ty : N) (l : locals) : option N * locals :=
  let '(id, l') := add_local ty l in
  (if N.eqb path 4 then None else Some id, l').

Fixpoint api_seq (ops : list (N * N)) (l : locals) : list (option N) * locals :=
  match ops with
  | [] => ([], l)
  | (p, ty) :: ops' =>
      let '(r, l1) := api_add p ty l in
      let '(rs, l2) := api_seq ops' l1 in
      (r :: rs, l2)
  end.

(* the same thing as a left fold over the types only (what the theorems are stated on) *)
Definition add_step (st : list N * locals) (ty : N) : list N * locals :=
  let '(id, l') := add_local ty (snd st) in (fst st ++ [id], l').
Definition add_seq (tys : list N) (l : locals) : list N * locals := fold_left add_step tys ([], l).

(* encode: the groups of the body, verbatim *)
Definition emit_locals (l : locals) : list (N * N) := groups l.
