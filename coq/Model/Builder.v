(* Model of FunctionBuilder (function.rs:28-61, 162-173): new(params, results), add_local, the Opcode helpers
   (each pushes one operator: body.push_op), set_name, finish_module = self.end(); Module::add_local_func_with_tag
   (mod.rs:1890-1909: types.add_func_type, LocalFunction::new, functions.add_local_func) followed by
   assert_eq!(functions.len(), num_local_functions + imports.num_funcs); and of what Module::encode emits for the
   function, code and name sections (mod.rs:1275-1304, 1553-1683, 1744-1761).
   Locals are those of Model/Locals.v (add_local), the type table that of Model/Types.v (add_type), the function index
   space that of Model/Reindex.v; operators are opaque tokens (mnemonic code, immediates). *)
From Coq Require Import List NArith ZArith Bool.
Import ListNotations.
From Orca Require Import Flat Lowering Locals Types Reindex.
Local Open Scope N_scope.

Definition tok := (N * list Z)%type.
Definition end_tok : tok := (1, []).

Record fpay := mkFP { fp_tid : N; fp_groups : list (N * N); fp_body : list tok; fp_name : option N }.
Record bstate := mkB { b_m : mst; b_ts : tstate; b_fpay : list (N * fpay) }.

Inductive bop :=
| BBuild (fp : N) (params results locs : list N) (body : list tok) (name : option N)
| BAddImpFunc (fp : N)                 (* add_import_func(.., TypeID(0)) *)
| BDelete (id : N)                     (* delete_func *)
| BLocalToImport (id : N) (fp : N).    (* convert_local_fn_to_import(.., TypeID(0)) *)

Definition func_type (params results : list N) : ctype := api_type 6 (mkT 0 params results None true false).
(* the body of a builder: FunctionBuilder::new starts from Body::default(); every add_local call goes through
   module_functions::add_local with num_params = params.len() *)
Definition built_locals (params locs : list N) : locals := snd (add_seq locs (mkLocals (lenN params) 0 [])).

Definition bstep (s : bstate) (o : bop) : res (bstate * option N) :=
  match o with
  | BBuild fp params results locs body name =>
      let '(tid, ts') := add_type (func_type params results) (b_ts s) in
      match step (b_m s) (AddLocal SF fp) with            (* Panic 2 = the assert_eq! of finish_module *)
      | Ok (m, r) =>
          Ok (mkB m ts' ((fp, mkFP tid (groups (built_locals params locs)) (body ++ [end_tok]) name) :: b_fpay s), r)
      | Panic w => Panic w
      end
  | BAddImpFunc fp =>
      match step (b_m s) (AddImport SF fp) with Ok (m, r) => Ok (mkB m (b_ts s) (b_fpay s), r) | Panic w => Panic w end
  | BDelete id =>
      match step (b_m s) (Delete SF id) with Ok (m, r) => Ok (mkB m (b_ts s) (b_fpay s), r) | Panic w => Panic w end
  | BLocalToImport id fp =>
      match step (b_m s) (LocalToImport id fp) with Ok (m, r) => Ok (mkB m (b_ts s) (b_fpay s), r) | Panic w => Panic w end
  end.

Fixpoint brun (s : bstate) (h : list bop) (rets : list (option N)) : bstate * list (option N) * bool :=
  match h with
  | [] => (s, rets, false)
  | o :: h' => match bstep s o with
               | Ok (s', r) => brun s' h' (rets ++ [r])
               | Panic _ => (s, rets, true)
               end
  end.

(* ---------- what the decoder of the output sees ---------- *)
Record fobs := mkFO { fo_fp : N; fo_params : list N; fo_results : list N; fo_groups : list (N * N);
                      fo_body : list tok; fo_name : option N }.
Record bobs := mkBO { bo_imports : list (N * N); bo_funcs : list fobs; bo_sites : list (N * N) }.

Fixpoint plook {A} (t : list (N * A)) (k : N) : option A :=
  match t with [] => None | (k', v) :: t' => if N.eqb k k' then Some v else plook t' k end.
Fixpoint number_items (n : N) (l : list item) : list (N * item) :=
  match l with [] => [] | x :: l' => (n, x) :: number_items (n + 1) l' end.
(* the name the function name map of the output gives to index [idx] (999998: more than one entry) *)
Definition name_at (names : list (N * N)) (idx : N) : option N :=
  match filter (fun kv => N.eqb (fst kv) idx) names with
  | [] => None
  | [kv] => Some (snd kv)
  | _ => Some 999998
  end.
Fixpoint rmapb {A B} (f : A -> res B) (l : list A) : res (list B) :=
  match l with
  | [] => Ok []
  | x :: l' => match f x with
               | Panic w => Panic w
               | Ok y => match rmapb f l' with Panic w => Panic w | Ok r => Ok (y :: r) end
               end
  end.

Definition emit_func (s : bstate) (names : list (N * N)) (nimp : N) (kit : N * item) : res fobs :=
  let '(k, it) := kit in
  match plook (b_fpay s) (it_fp it) with
  | Some p =>
      match nth_error (ts_types (b_ts s)) (N.to_nat (fp_tid p)) with
      | Some ty => Ok (mkFO (it_fp it) (t_xs ty) (t_ys ty) (fp_groups p) (fp_body p) (name_at names (nimp + k)))
      | None => Panic 80
      end
  | None => Panic 81
  end.
Definition emit_site (mf : list (N * N)) (ns : N * N) : res (N * N) :=
  match lookup mf (snd ns) with Some q => Ok (fst ns, q) | None => Panic 50 end.
Fixpoint numberN {A} (n : N) (l : list A) : list (N * A) :=
  match l with [] => [] | x :: l' => (n, x) :: numberN (n + 1) l' end.

Definition bencode (s : bstate) (sites : list N) : res bobs :=
  match index_space (m_f (b_m s)) with
  | Ok (lf, mf) =>
      let live := filter (fun ki => is_local (snd ki) && negb (it_del (snd ki))) (number_items 0 lf) in
      (* function_names.append(rel_func_idx, name): the position in the function vector *)
      let names := flat_map (fun ki => match plook (b_fpay s) (it_fp (snd ki)) with
                                       | Some p => match fp_name p with Some n => [(fst ki, n)] | None => [] end
                                       | None => []
                                       end) live in
      (* the import section in index order (Reindex.emitted_imports, since the repair of D02) *)
      let lg := match index_space (m_g (b_m s)) with Ok (l, _) => l | Panic _ => [] end in
      let lm := match index_space (m_m (b_m s)) with Ok (l, _) => l | Panic _ => [] end in
      let imps := map (import_at (m_imports (b_m s))) (emitted_imports (m_imports (b_m s)) lf lg lm) in
      let nimp := lenN (filter (fun i => N.eqb (fst i) 0) imps) in
      match rmapb (emit_func s names nimp) (numberN 0 (map snd live)), rmapb (emit_site mf) (numberN 0 sites) with
      | Ok fs, Ok ss => Ok (mkBO imps fs ss)
      | Panic w, _ | _, Panic w => Panic w
      end
  | Panic w => Panic w
  end.
