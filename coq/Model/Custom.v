(* Custom engine (C28): executable mirror of how wirm collects, edits and emits custom sections.

   Strings and byte strings are hash-consed by the harness: a custom section is (name token, data token).
   Name token 0 is the string "name", name token 1 is the string "producers" (fixed by the harness).

   Parse (src/ir/module/mod.rs:375-460): the payload loop looks at every custom section through
   wasmparser's [as_known]:
     "name"       -> consumed; function names are collected and attached to the imports / code bodies once every
                     section has been read (a name for a function that does not exist is dropped), so the position
                     of the name section does not matter; a reader error makes Module::parse return Err;
                     the section is NOT stored in custom_sections;
     "producers"  -> pushed like every other custom section, its fields are not looked at (the former
                     `.next().unwrap().expect(..)` check, D09b-d, is gone);
     anything else-> pushed, in order of appearance.
   Edits (src/ir/types.rs:1903-1966, CustomSections): add = push + return old length; delete = Vec::remove
   when id < len, else nothing; get_section_data_mut = Some(&mut data) when id < len, else None;
   get_id = first index whose name matches; get_by_id panics on an invalid id; len.
   Encode (mod.rs:1743-1769): a freshly built name section, then custom_sections in vector order; no other
   field of the module is read or written by any of the above. *)
From Coq Require Import List NArith Bool.
Import ListNotations.
Local Open Scope N_scope.

Definition csec := (N * N)%type.              (* (name token, data token) *)
Definition NAME : N := 0.
Definition PRODUCERS : N := 1.

(* what the parser needs to know about the content of a custom section *)
Inductive cinfo :=
| CPlain                                      (* content is never looked at *)
| CNameOk (fnames : list N)                   (* well-formed name section; function indices it names, in order *)
| CNameBad                                    (* name section whose subsections cannot be read *)
| CProd (status : N).                         (* producers: 0 = >=1 field and the first one is well-formed,
                                                 1 = zero fields or malformed first field, 2 = unreadable header
                                                 (the parser no longer looks at it) *)

(* the section layout of the input binary, in file order *)
Inductive item :=
| IStd (id : N) (n : N)                       (* standard section; n = function imports (id 2) / code bodies (id 10) *)
| ICustom (name data : N) (info : cinfo).

Inductive outcome (A : Type) := Done (a : A) | Panic | ParseErr.
Arguments Done {A} a.
Arguments Panic {A}.
Arguments ParseErr {A}.

Record pstate := mkP { p_nimp : N; p_ncode : N; p_customs : list csec }.

Definition parse_item (st : pstate) (it : item) : outcome pstate :=
  match it with
  | IStd id n =>
      if N.eqb id 2 then Done (mkP (p_nimp st + n) (p_ncode st) (p_customs st))
      else if N.eqb id 10 then Done (mkP (p_nimp st) (p_ncode st + n) (p_customs st))
      else Done st
  | ICustom name data info =>
      if N.eqb name NAME then
        match info with
        | CNameBad => ParseErr
        | _ => Done st
        end
      else Done (mkP (p_nimp st) (p_ncode st) (p_customs st ++ [(name, data)]))
  end.

Fixpoint parse_items (st : pstate) (l : list item) : outcome pstate :=
  match l with
  | [] => Done st
  | it :: l' => match parse_item st it with
                | Done st' => parse_items st' l'
                | Panic => Panic
                | ParseErr => ParseErr
                end
  end.
Definition parse_customs (l : list item) : outcome (list csec) :=
  match parse_items (mkP 0 0 []) l with
  | Done st => Done (p_customs st)
  | Panic => Panic
  | ParseErr => ParseErr
  end.

(* ---------- the public API of CustomSections ---------- *)
Inductive cop :=
| OAdd (name data : N)          (* add(CustomSection::new(name, data)) -> id *)
| ODelete (id : N)              (* delete(id) *)
| OModify (id data : N)         (* get_section_data_mut(id) -> Some: the caller rewrites the bytes to [data] *)
| OGetId (name : N)             (* get_id(name) -> Option<id> *)
| OGet (id : N)                 (* get_by_id(id) -> &CustomSection, panics on an invalid id *)
| OLen.                         (* len() *)

Fixpoint remove_at {A} (n : nat) (l : list A) : list A :=
  match n, l with
  | _, [] => []
  | O, _ :: t => t
  | S n', x :: t => x :: remove_at n' t
  end.
Fixpoint set_data_at (n : nat) (d : N) (l : list csec) : list csec :=
  match n, l with
  | _, [] => []
  | O, (nm, _) :: t => (nm, d) :: t
  | S n', x :: t => x :: set_data_at n' d t
  end.
Fixpoint find_name (name : N) (i : N) (l : list csec) : option N :=
  match l with
  | [] => None
  | (nm, _) :: t => if N.eqb nm name then Some i else find_name name (i + 1) t
  end.
Definition len (l : list csec) : N := N.of_nat (length l).

(* one call: what the caller sees (a list of numbers) and the new vector; None = panic *)
Definition apply_op (o : cop) (l : list csec) : option (list N * list csec) :=
  match o with
  | OAdd name data => Some ([len l], l ++ [(name, data)])
  | ODelete id => Some ([], if id <? len l then remove_at (N.to_nat id) l else l)
  | OModify id data => if id <? len l then Some ([1], set_data_at (N.to_nat id) data l) else Some ([0], l)
  | OGetId name => Some (match find_name name 0 l with Some i => [i] | None => [] end, l)
  | OGet id => if id <? len l
              then match nth_error l (N.to_nat id) with Some (nm, d) => Some ([nm; d], l) | None => None end
              else None
  | OLen => Some ([len l], l)
  end.

Definition estate := option (list (list N) * list csec).   (* results so far (in call order), vector *)
Definition step (st : estate) (o : cop) : estate :=
  match st with
  | None => None
  | Some (rs, l) => match apply_op o l with
                    | Some (r, l') => Some (rs ++ [r], l')
                    | None => None
                    end
  end.
Definition run_ops (ops : list cop) (l : list csec) : estate := fold_left step ops (Some ([], l)).

(* encode: after the rebuilt name section, the vector in order *)
Definition emit_customs (l : list csec) : list csec := l.
