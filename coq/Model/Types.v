(* Types engine (C13): executable mirror of ModuleTypes (src/ir/module/module_types.rs), of the type-section
   arm of Module::parse (mod.rs:174-253) and of the type-section emission (mod.rs:1202-1236, encode_type).

   A type ([Types] in Rust, tag excluded: Hash and PartialEq skip it) is
     mkT kind xs ys sup fin sh     kind 0 = func (xs params, ys results), 1 = array (xs = [element], ys = [mutable]),
                                   2 = struct (xs field types, ys mutabilities 0/1);
                                   sup = super type as a module-level index, fin = is_final, sh = shared.
   Value / storage types are tokens fixed by the harness (concrete references carry the referenced type index in the
   token), so that token equality = DataType equality.

   State: groups : Vec<RecGroup> = list (member ids, is_explicit);
          types  : HashMap<TypeID, Types>.  Both insertion sites use the key [types.len()] (parse: mod.rs:247,
                   add_type: module_types.rs:300 with id = self.types.len()), so the map is always a dense
                   vector: it is represented by the list of its values in key order, [get id] = nth_error;
          types_map : HashMap<Types, TypeID> = association list, first structurally equal key wins.
   ModuleTypes::new (module_types.rs:278) fills types_map with HashMap::insert (an existing key keeps its place,
   the value is overwritten: the last visited of several structurally equal types wins).  The order of the
   insertions is an explicit parameter [order] (a list of ids) of [build_map] / [parse_types].
   Since the repair of D11 ModuleTypes::new collects the keys of the HashMap, sorts them and inserts in
   *ascending id order*: the order is [asc_ids (number of types)], and [parse_types_asc] is the parse of a type
   section as the code performs it (of several structurally equal types the one with the highest id wins).
   Before the repair it iterated the HashMap directly, in an order that differed from process to process. *)
From Coq Require Import List NArith Bool.
Import ListNotations.
From Orca Require Import Flat.
Local Open Scope N_scope.

Record ctype := mkT { t_kind : N; t_xs : list N; t_ys : list N; t_sup : option N; t_fin : bool; t_sh : bool }.

Definition optN_eqb (a b : option N) : bool :=
  match a, b with Some x, Some y => N.eqb x y | None, None => true | _, _ => false end.
Definition ctype_eqb (a b : ctype) : bool :=
  N.eqb (t_kind a) (t_kind b) && list_eqb N.eqb (t_xs a) (t_xs b) && list_eqb N.eqb (t_ys a) (t_ys b)
  && optN_eqb (t_sup a) (t_sup b) && Bool.eqb (t_fin a) (t_fin b) && Bool.eqb (t_sh a) (t_sh b).

Record tstate := mkTS {
  ts_groups : list (list N * bool);
  ts_types : list ctype;
  ts_map : list (ctype * N) }.

Fixpoint lookup_map (ty : ctype) (m : list (ctype * N)) : option N :=
  match m with
  | [] => None
  | (t, id) :: m' => if ctype_eqb t ty then Some id else lookup_map ty m'
  end.
(* HashMap::insert *)
Fixpoint insert_map (ty : ctype) (id : N) (m : list (ctype * N)) : list (ctype * N) :=
  match m with
  | [] => [(ty, id)]
  | (t, i) :: m' => if ctype_eqb t ty then (t, id) :: m' else (t, i) :: insert_map ty id m'
  end.

Fixpoint ids_from (first : N) (n : nat) : list N :=
  match n with O => [] | S n' => first :: ids_from (first + 1) n' end.

(* the type section of the input: rec groups in order; every member gets the next id *)
Fixpoint parse_groups (base : list (bool * list ctype)) (groups : list (list N * bool)) (types : list ctype)
  : list (list N * bool) * list ctype :=
  match base with
  | [] => (groups, types)
  | (explicit, members) :: base' =>
      parse_groups base' (groups ++ [(ids_from (N.of_nat (length types)) (length members), explicit)])
                   (types ++ members)
  end.

(* ModuleTypes::new: for (id, ty) in types.iter() { types_map.insert(ty.clone(), *id) } *)
Definition build_map (types : list ctype) (order : list N) : list (ctype * N) :=
  fold_left (fun m id => match nth_error types (N.to_nat id) with
                         | Some ty => insert_map ty id m
                         | None => m
                         end) order [].

Definition parse_types (base : list (bool * list ctype)) (order : list N) : tstate :=
  let '(groups, types) := parse_groups base [] [] in
  mkTS groups types (build_map types order).

(* the order ModuleTypes::new uses: ids.sort_unstable() on the keys 0 .. len-1 *)
Definition asc_ids (n : nat) : list N := ids_from 0 n.
Definition parse_types_asc (base : list (bool * list ctype)) : tstate :=
  let '(groups, types) := parse_groups base [] [] in
  mkTS groups types (build_map types (asc_ids (length types))).

(* ModuleTypes::add_type(ty, id = self.types.len()) *)
Definition add_type (ty : ctype) (st : tstate) : N * tstate :=
  match lookup_map ty (ts_map st) with
  | Some id => (id, st)
  | None =>
      let id := N.of_nat (length (ts_types st)) in
      (id, mkTS (ts_groups st ++ [([id], false)]) (ts_types st ++ [ty]) (ts_map st ++ [(ty, id)]))
  end.

(* PackedIndex::from_module_index: None for indices that do not fit 20 bits *)
Definition pack (sup : option N) : option N :=
  match sup with Some i => if i <? 1048576 then Some i else None | None => None end.

(* the public calls; [raw] carries the arguments (for the calls without super/final/shared arguments those three
   fields of [raw] are ignored, as the Rust functions fix them):
     0 add_func_type            1 add_func_type_with_params
     2 add_array_type           3 add_array_type_with_params
     4 add_struct_type          5 add_struct_type_with_params
     6 FunctionBuilder::finish_module (Module::add_local_func_with_tag -> add_func_type) *)
Definition api_type (path : N) (raw : ctype) : ctype :=
  match path with
  | 0 | 6 => mkT 0 (t_xs raw) (t_ys raw) None true false
  | 1 => mkT 0 (t_xs raw) (t_ys raw) (pack (t_sup raw)) (t_fin raw) (t_sh raw)
  | 2 => mkT 1 (t_xs raw) (t_ys raw) None true false
  | 3 => mkT 1 (t_xs raw) (t_ys raw) (pack (t_sup raw)) (t_fin raw) (t_sh raw)
  | 4 => mkT 2 (t_xs raw) (t_ys raw) None true false
  | _ => mkT 2 (t_xs raw) (t_ys raw) (pack (t_sup raw)) (t_fin raw) (t_sh raw)
  end.

Definition api_step (acc : list N * tstate) (op : N * ctype) : list N * tstate :=
  let '(id, st') := add_type (api_type (fst op) (snd op)) (snd acc) in (fst acc ++ [id], st').
Definition api_run (ops : list (N * ctype)) (st : tstate) : list N * tstate := fold_left api_step ops ([], st).

(* emission: explicit groups as one rec group, every member of an implicit group as its own (implicit) entry;
   [types.get(ty_id).unwrap()] panics on a missing id *)
Fixpoint get_all (types : list ctype) (ids : list N) : option (list ctype) :=
  match ids with
  | [] => Some []
  | id :: ids' => match nth_error types (N.to_nat id), get_all types ids' with
                  | Some t, Some ts => Some (t :: ts)
                  | _, _ => None
                  end
  end.
Fixpoint emit_groups (types : list ctype) (groups : list (list N * bool)) : option (list (bool * list ctype)) :=
  match groups with
  | [] => Some []
  | (ids, explicit) :: groups' =>
      match get_all types ids, emit_groups types groups' with
      | Some ts, Some rest => Some ((if explicit then [(true, ts)] else map (fun t => (false, [t])) ts) ++ rest)
      | _, _ => None
      end
  end.
Definition emit_types (st : tstate) : option (list (bool * list ctype)) := emit_groups (ts_types st) (ts_groups st).
