(* Prototype model of the three re-indexed spaces (functions / globals / memories), the edit API and
   the index-relevant part of Module::encode_internal.  Mirrors mod.rs:980-1047, 1140-1171, 1799-2161. *)
From Coq Require Import List Arith NArith Bool Lia.
Import ListNotations.

Record item := mkItem { it_id : N; it_imp : option N; it_del : bool; it_fp : N }.
Definition is_local (i : item) := match it_imp i with None => true | Some _ => false end.
Definition is_import (i : item) := negb (is_local i).

Record imp := mkImp { i_sp : N; i_del : bool; i_fp : N }.   (* i_sp: 0 func 1 global 2 mem 3 table 4 tag *)

Record space := mkSpace {
  s_items : list item; s_recalc : bool;
  s_num : N; s_added : N;       (* imports.num_X, imports.num_X_added *)
  s_nlocal : N }.               (* Module::num_local_X *)

Record mst := mkM { m_f : space; m_g : space; m_m : space; m_imports : list imp }.
(* number of exports is tracked by the caller of [step] (it only matters for DeleteExport's bounds check) *)

Inductive res (A : Type) := Ok (a : A) | Panic (why : N).
Arguments Ok {A}. Arguments Panic {A}.

(* ---------- list helpers on N indices ---------- *)
Definition nthN {A} (l : list A) (n : N) : option A := nth_error l (N.to_nat n).
Definition lenN {A} (l : list A) : N := N.of_nat (length l).
Fixpoint upd {A} (n : nat) (f : A -> A) (l : list A) : list A :=
  match n, l with
  | _, [] => []
  | O, x :: t => f x :: t
  | S n', x :: t => x :: upd n' f t
  end.
Definition updN {A} (n : N) (f : A -> A) (l : list A) := upd (N.to_nat n) f l.
Fixpoint remove_at {A} (n : nat) (l : list A) : list A :=
  match n, l with
  | _, [] => []
  | O, _ :: t => t
  | S n', h :: t => h :: remove_at n' t
  end.
Fixpoint insert_at {A} (n : nat) (x : A) (l : list A) : list A :=
  match n, l with
  | O, _ => x :: l
  | S n', [] => [x]
  | S n', h :: t => h :: insert_at n' x t
  end.

Definition set_del (d : bool) (i : item) := mkItem (it_id i) (it_imp i) d (it_fp i).
Definition del_imp (i : imp) := mkImp (i_sp i) true (i_fp i).

Open Scope nat_scope.
(* ---------- reorganise_generic / get_mapping_generic / recalculate_ids ---------- *)
Definition rstep (orig idx : nat) (val : item) (st : list item * nat * nat) : list item * nat * nat :=
  let '(live, ni, nd) := st in
  if (idx <? orig) then
    (* a deleted item is dropped whatever its kind (is_deleted is tested first since the repair of D06 / D26) *)
    if it_del val then (remove_at (idx - nd) live, (ni - 1), (nd + 1))
    else if is_local val then
      match nth_error live (idx - nd) with
      | Some f => (remove_at (idx - nd) live ++ [f], (ni - 1), (nd + 1))
      | None => st
      end
    else st
  else
    if it_del val then (remove_at (idx - nd) live, ni, (nd + 1))
    else if is_import val then
      match nth_error live (idx - nd) with
      | Some i => (insert_at ni i (remove_at (idx - nd) live), (ni + 1), nd)
      | None => st
      end
    else st.
Fixpoint rloop (orig idx : nat) (snap : list item) (st : list item * nat * nat) :=
  match snap with
  | [] => st
  | v :: snap' => rloop orig (S idx) snap' (rstep orig idx v st)
  end.
Close Scope nat_scope.
Open Scope N_scope.
Definition reorganise (orig : N) (l : list item) : list item :=
  fst (fst (rloop (N.to_nat orig) 0 l (l, N.to_nat orig, 0%nat))).

(* HashMap insert in iteration order: later entries overwrite earlier ones *)
Fixpoint mapping_from (pos : N) (l : list item) (acc : list (N * N)) : list (N * N) :=
  match l with
  | [] => acc
  | i :: l' => mapping_from (pos + 1) l' ((it_id i, pos) :: filter (fun kv => negb (N.eqb (fst kv) (it_id i))) acc)
  end.
Definition mapping (l : list item) : list (N * N) := mapping_from 0 l [].
Fixpoint lookup (m : list (N * N)) (k : N) : option N :=
  match m with [] => None | (k', v) :: m' => if N.eqb k k' then Some v else lookup m' k end.

(* returns the (possibly reordered) vector and the map; Panic 100 = assert_eq!(len, map.len()) *)
Definition index_space (s : space) : res (list item * list (N * N)) :=
  if s_recalc s then
    let l := reorganise (s_num s - s_added s) (s_items s) in
    let m := mapping l in
    if N.eqb (lenN l) (lenN m) then Ok (l, m) else Panic 100
  else Ok (s_items s, mapping (s_items s)).

(* ---------- edit API ---------- *)
Inductive sp := SF | SG | SM.
Definition get_sp (m : mst) (s : sp) := match s with SF => m_f m | SG => m_g m | SM => m_m m end.
Definition set_sp (m : mst) (s : sp) (x : space) :=
  match s with
  | SF => mkM x (m_g m) (m_m m) (m_imports m)
  | SG => mkM (m_f m) x (m_m m) (m_imports m)
  | SM => mkM (m_f m) (m_g m) x (m_imports m)
  end.
Definition sp_code (s : sp) : N := match s with SF => 0 | SG => 1 | SM => 2 end.

Inductive op :=
| AddLocal (s : sp) (fp : N)            (* FunctionBuilder::finish_module / add_global / add_local_memory *)
| AddImport (s : sp) (fp : N)           (* add_import_func / add_imported_global / add_import_memory *)
| Delete (s : sp) (id : N)
| LocalToImport (id : N) (fp : N)       (* convert_local_fn_to_import *)
| ImportToLocal (imp_id : N) (fp : N)   (* FunctionBuilder::replace_import_in_module *)
| ItAddGlobal (fp : N)                  (* ModuleIterator::add_global *)
| AddExport (s : sp) (id : N)           (* exports.add_export_func / add_export_mem: no state of the index spaces changes *)
| DeleteExport (k : N)                  (* exports.delete(ExportsID k): Panic when out of range *)
| AddData (mem : N).                    (* add_data(active segment on memory id): no state of the index spaces changes *)

(* result of one API call: new state and the id the call returned (if any) *)
Definition push_import (m : mst) (s : sp) (fp : N) : mst * N * N :=
  (* Module::add_import: returns (state, id, imports_id) *)
  let x := get_sp m s in
  let id := if 0 <? s_nlocal x then lenN (s_items x) else s_num x in
  let x' := mkSpace (s_items x) (s_recalc x) (s_num x + 1) (s_added x + 1) (s_nlocal x) in
  let m' := set_sp m s x' in
  (mkM (m_f m') (m_g m') (m_m m') (m_imports m ++ [mkImp (sp_code s) false fp]), id, lenN (m_imports m)).

Definition delete_in (m : mst) (s : sp) (id : N) : res mst :=
  let x := get_sp m s in
  let items' := if id <? lenN (s_items x) then updN id (set_del true) (s_items x) else s_items x in
  let m1 := set_sp m s (mkSpace items' true (s_num x) (s_added x) (s_nlocal x)) in
  match nthN items' id with
  | None => Panic 1                                  (* get_kind: index out of bounds *)
  | Some it =>
      match it_imp it with
      | Some k => Ok (mkM (m_f m1) (m_g m1) (m_m m1) (updN k del_imp (m_imports m1)))
      | None => Ok m1
      end
  end.

(* position of the first item that carries import entry [k] (convert_import_fn_to_local: iter().position(..)) *)
Fixpoint find_imp (l : list item) (k : N) (pos : N) : option N :=
  match l with
  | [] => None
  | i :: l' => match it_imp i with
               | Some k' => if N.eqb k' k then Some pos else find_imp l' k (pos + 1)
               | None => find_imp l' k (pos + 1)
               end
  end.

Definition step (m : mst) (o : op) : res (mst * option N) :=
  match o with
  | AddLocal SF fp =>
      let x := m_f m in
      let id := lenN (s_items x) in
      let x' := mkSpace (s_items x ++ [mkItem id None false fp]) true (s_num x) (s_added x) (s_nlocal x + 1) in
      (* finish_module: assert_eq!(functions.len(), num_local_functions + imports.num_funcs) *)
      if N.eqb (lenN (s_items x')) (s_nlocal x' + s_num x') then Ok (set_sp m SF x', Some id) else Panic 2
  | AddLocal SG fp =>
      let x := m_g m in
      let id := lenN (s_items x) in
      Ok (set_sp m SG (mkSpace (s_items x ++ [mkItem id None false fp]) (s_recalc x) (s_num x) (s_added x) (s_nlocal x + 1)), Some id)
  | AddLocal SM fp =>
      let x := m_m m in
      let id := lenN (s_items x) in
      Ok (set_sp m SM (mkSpace (s_items x ++ [mkItem id None false fp]) true (s_num x) (s_added x) (s_nlocal x + 1)), Some id)
  | AddImport SG fp =>
      let '(m1, id, k) := push_import m SG fp in
      let x := m_g m1 in
      let real_id := lenN (s_items x) in            (* ModuleGlobals::add overrides the id *)
      Ok (set_sp m1 SG (mkSpace (s_items x ++ [mkItem real_id (Some k) false fp]) true (s_num x) (s_added x) (s_nlocal x + 1)),
          Some id)
  | AddImport s fp =>                               (* SF, SM *)
      let '(m1, id, k) := push_import m s fp in
      let x := get_sp m1 s in
      if N.eqb (lenN (s_items x)) id
      then Ok (set_sp m1 s (mkSpace (s_items x ++ [mkItem id (Some k) false fp]) true (s_num x) (s_added x) (s_nlocal x)), Some id)
      else Panic 3                                   (* assert_eq!(next_id, imp_id) *)
  | Delete s id =>
      match delete_in m s id with Ok m' => Ok (m', None) | Panic w => Panic w end
  | LocalToImport id fp =>
      match nthN (s_items (m_f m)) id with
      | None => Panic 4
      | Some it =>
          if is_import it then Ok (m, None)          (* warn, return false *)
          else
            match delete_in m SF id with
            | Panic w => Panic w
            | Ok m1 =>
                let '(m2, _, k) := push_import m1 SF fp in
                let x := m_f m2 in
                (* since the repair of D08: one local function fewer (num_local_functions.saturating_sub(1); N's
                   subtraction is the saturating one) *)
                Ok (set_sp m2 SF (mkSpace (updN id (fun _ => mkItem id (Some k) false fp) (s_items x))
                                          (s_recalc x) (s_num x) (s_added x) (s_nlocal x - 1)), None)
            end
      end
  | ImportToLocal k fp =>
      match nthN (m_imports m) k with
      | None => Panic 5                              (* imports.get: index out of bounds *)
      | Some im =>
          if negb (N.eqb (i_sp im) 0) then Panic 6   (* not a function import *)
          else
            (* since the repair of D07 the function is resolved through the import: the first function whose kind
               is Import with this import id *)
            match find_imp (s_items (m_f m)) k 0 with
            | None => Ok (m, None)                   (* warn, return false: already replaced by a local function *)
            | Some p =>
                match delete_in m SF p with
                | Panic w => Panic w
                | Ok m1 =>
                    let x := m_f m1 in
                    Ok (set_sp m1 SF (mkSpace (updN p (fun _ => mkItem p None false fp) (s_items x))
                                              (s_recalc x) (s_num x) (s_added x) (s_nlocal x)), None)
                end
            end
      end
  | AddExport _ _ | AddData _ => Ok (m, None)
  | DeleteExport _ => Ok (m, None)
  | ItAddGlobal fp =>
      let x := m_g m in
      let id := lenN (s_items x) in
      (* through Module::add_global_internal since the repair of D24: counted as a local global like AddLocal SG *)
      Ok (set_sp m SG (mkSpace (s_items x ++ [mkItem id None false fp]) (s_recalc x) (s_num x) (s_added x) (s_nlocal x + 1)), Some id)
  end.

Fixpoint run (m : mst) (h : list op) (rets : list (option N)) : res (mst * list (option N)) :=
  match h with
  | [] => Ok (m, rets)
  | o :: h' => match step m o with
               | Ok (m', r) => run m' h' (rets ++ [r])
               | Panic w => Panic w
               end
  end.

(* ---------- reference sites ---------- *)
(* where a reference lives: decides how (and whether) encode rewrites it *)
Inductive rk :=
| KCode        (* call / return_call / ref.func / global.get / i32.load ... in original, built or injected code *)
| KExport | KStart
| KElemFn      (* function-index item of an element segment *)
| KElemExpr    (* `ref.func f` expression item of an element segment (re-indexed since the repair of D05) *)
| KDataMem     (* memory index of an active data segment *)
| KDataOff     (* `global.get g` offset of an active data segment *)
| KInit        (* `global.get g` / `ref.func f` in the initialiser of a local global *)
| KElemOff     (* `global.get g` offset of an active element segment (kept as parsed; re-indexed since the repair of D05) *)
| KTableInit.  (* `ref.func f` initialiser of a table (kept as parsed; re-indexed since the repair of D05) *)
Inductive owner := ONone | OFunc (id : N) | OGlobal (id : N) | OExport (k : N).
Record rsite := mkSite { rs_k : rk; rs_sp : sp; rs_id : N; rs_owner : owner }.

Definition rk_code (k : rk) : N :=
  match k with KCode => 0 | KExport => 1 | KStart => 2 | KElemFn => 3 | KElemExpr => 4 | KDataMem => 5 | KDataOff => 6 | KInit => 7
  | KElemOff => 8 | KTableInit => 9 end.

(* ---------- encode: what the decoder of the output can see ---------- *)
Record emod := mkE {
  e_imports : list (N * N);                 (* (space code, fp) in import-section order *)
  e_funcs : list N; e_globals : list N; e_mems : list N;   (* fps of the locally defined entities, section order *)
  e_sites : list (N * N) }.                 (* (site number, emitted index) for every site present in the output *)

(* ---------- the import section (since the repair of D02) ----------
   An import's position in the import section is its index.  Every live slot of the import vector whose kind is
   function / global / memory is filled with the NEXT import of that kind in the order of the (reorganised) item
   vector of that kind; slots of the other kinds (tables, tags) and - the fallback - slots of a kind whose items are
   exhausted keep their own entry.  The result is the list of ImportsIDs in emission order. *)
(* the import entries carried by the live import items of a vector, in vector order *)
Definition live_imp_ks (l : list item) : list N :=
  flat_map (fun i => match it_imp i with Some k => if it_del i then [] else [k] | None => [] end) l.
Definition imp_queues (lf lg lm : list item) (c : N) : list N :=
  if N.eqb c 0 then live_imp_ks lf else if N.eqb c 1 then live_imp_ks lg else if N.eqb c 2 then live_imp_ks lm else [].
Definition q_set (qs : N -> list N) (c : N) (q : list N) : N -> list N := fun c' => if N.eqb c' c then q else qs c'.
Fixpoint import_order (pos : N) (imps : list imp) (qs : N -> list N) : list N :=
  match imps with
  | [] => []
  | s :: rest =>
      if i_del s then import_order (pos + 1) rest qs
      else match qs (i_sp s) with
           | k :: q' => k :: import_order (pos + 1) rest (q_set qs (i_sp s) q')
           | [] => pos :: import_order (pos + 1) rest qs
           end
  end.
Definition emitted_imports (imports : list imp) (lf lg lm : list item) : list N :=
  import_order 0 imports (imp_queues lf lg lm).
(* imports.get(id): an ImportsID taken from an item is always in range (Proofs/ReidxInv.v, wf_link) *)
Definition import_at (imports : list imp) (k : N) : N * N :=
  match nthN imports k with Some im => (i_sp im, i_fp im) | None => (0, 0) end.

Definition emitted_locals (l : list item) (check_deleted : bool) : list N :=
  map it_fp (filter (fun i => is_local i && (if check_deleted then negb (it_del i) else true)) l).

(* an item is looked up by its stored id (= its position when it was inserted) *)
Definition find_item (l : list item) (id : N) : option item := find (fun i => N.eqb (it_id i) id) l.
Definition live_local (l : list item) (id : N) : bool :=
  match find_item l id with Some i => is_local i && negb (it_del i) | None => false end.

Definition site_active (lf lg : list item) (dead_exports : list N) (s : rsite) : bool :=
  match rs_owner s with
  | ONone => true
  | OFunc id => live_local lf id
  | OGlobal id => live_local lg id
  | OExport k => negb (existsb (N.eqb k) dead_exports)
  end.

(* Ok (Some q) = emitted with index q; Ok None = the reference is dropped (deleted start function);
   Panic = encode panics.  Exports of functions, globals and memories go through the id maps (global exports
   since the repair of D03), and so do the constant expressions that are kept as parsed - element segment items
   and offsets, table initialisers - since the repair of D05 (ConstExprReindexer: "Deleted function!"). *)
Definition site_emit (mf mg mm : list (N * N)) (s : rsite) : res (option N) :=
  let m := match rs_sp s with SF => mf | SG => mg | SM => mm end in
  match rs_k s, rs_sp s with
  | KStart, _ => Ok (lookup m (rs_id s))                    (* warn!("Deleted the start function!") *)
  | _, _ => match lookup m (rs_id s) with Some q => Ok (Some q) | None => Panic 50 end
  end.

Fixpoint emit_sites (n : N) (lf lg : list item) (dead : list N) (mf mg mm : list (N * N)) (ss : list rsite)
  : res (list (N * N)) :=
  match ss with
  | [] => Ok []
  | s :: ss' =>
      if site_active lf lg dead s then
        match site_emit mf mg mm s with
        | Panic w => Panic w
        | Ok r =>
            match emit_sites (n + 1) lf lg dead mf mg mm ss' with
            | Panic w => Panic w
            | Ok rest => Ok (match r with Some q => (n, q) :: rest | None => rest end)
            end
        end
      else emit_sites (n + 1) lf lg dead mf mg mm ss'
  end.

Definition encode (m : mst) (dead_exports : list N) (sites : list rsite) : res emod :=
  match index_space (m_f m), index_space (m_g m), index_space (m_m m) with
  | Ok (lf, mf), Ok (lg, mg), Ok (lm, mm) =>
      match emit_sites 0 lf lg dead_exports mf mg mm sites with
      | Ok ss =>
          Ok (mkE (map (import_at (m_imports m)) (emitted_imports (m_imports m) lf lg lm))
                  (emitted_locals lf true) (emitted_locals lg true) (emitted_locals lm false) ss)
      | Panic w => Panic w
      end
  | Panic w, _, _ | _, Panic w, _ | _, _, Panic w => Panic w
  end.
