(* Model of the *glue* code of the parser: what Module::parse_internal (src/ir/module/mod.rs:128-606) and
   Component::parse_comp (src/ir/component.rs:170-474) do with the payloads that wasmparser hands them --
   when they return Ok, when they return Err, and where they panic.

   The input of the model is an *abstraction* of the byte string: the list of payloads in the order
   `Parser::parse_all` yields them, each carrying exactly what the glue code inspects (whether the items of a
   section can be read, the operator classes of every constant expression that InitExpr::eval walks, the
   function-name indices, the number of producers fields, type indices and kinds, counts, ...).  The harness
   (harness/src/bin/parsefuzz.rs, `abs_module` / `abs_component`) computes it with its own defensive wasmparser
   pass; wasmparser itself (framing, LEB decoding, operator decoding) is outside the model.

   Until the repairs of D09a-D09l (`fix:` commits of /repo) the glue code panicked at twelve sites (classes 901..912);
   every one of them now returns Err or -- where the data is optional metadata (producers fields, names of functions
   whose body comes later) -- handles the input.  `known_panic_sites` is the committed table of known panic sites: it
   is empty, and the model below has no panicking branch left. *)
From Coq Require Import List NArith Bool.
Import ListNotations.
Local Open Scope N_scope.

(* ---------------------------------------------------------------------------------------------- *)
(* outcomes and the table of known panic sites *)

Inductive outcome := OOk | OErr | OPanic (k : N) | OUnmodelled.

(* the former site classes, kept for reference (known_findings.json `fixed`):
   901 name-section function index (code_sections[rel_idx])      -> names are applied after the scan
   902/903/904 producers .unwrap() / .expect(..)                 -> a producers section is an opaque custom section
   905 tag section panic!                                        -> Err
   906 InitExpr::eval "Invalid constant expression"              -> Err
   907/908 types[&functions[index]] / Types::params              -> Err
   909/910 name map unwraps (module)                             -> Err
   911 component name map unwrap                                 -> Err
   912 &wasm[unchecked_range..] in parse_comp                    -> Err *)
Definition known_panic_sites : list N := [].

(* ---------------------------------------------------------------------------------------------- *)
(* the abstraction of a core module's payload stream *)

(* one operator of a constant expression as InitExpr::eval reads it *)
Inductive xop :=
| XOk        (* one of the 16 operators eval translates *)
| XEnd       (* `end` *)
| XBad       (* any other operator *)
| XReadErr.  (* the operators reader fails (never observed: ConstExpr::from_reader has read the same bytes before); eval returns Err *)
(* (operators in reading order up to and including the first that stops eval ; is there data after that `end`) *)
Definition cexpr := (list xop * bool)%type.

Inductive gitem := GErr | GInit (e : cexpr).                    (* global: reader error | initialiser *)
Inductive ditem := DErr | DPassive | DActive (e : cexpr).       (* data segment *)
Inductive nitem := NIErr | NIdx (i : N).                        (* one entry of the function-name map *)
Inductive iitem := IIErr | IIMap (ok : bool).                   (* one entry of an indirect name map: unreadable | inner map all readable? *)
Inductive nsub :=
| NSErr                        (* the subsection itself is unreadable *)
| NSFunc (l : list nitem)      (* function names; entries up to and including the first unreadable one *)
| NSMap (ok : bool)            (* type/table/memory/global/elem/data/tag names: all entries readable? *)
| NSInd (l : list iitem)       (* local/label/field names *)
| NSOther.                     (* module name, unknown subsection *)
Inductive prod := PNone | PFieldErr | PField (values_ok : bool).

Inductive mev :=
| MErr                                   (* parse_all yields Err *)
| MVersion (n : N)
| MImports (nfuncs : N) (ok : bool)      (* ok = every import readable *)
| MTypes (kinds : list bool) (ok : bool) (* kinds: is the k-th sub type of the section a function type *)
| MSimple (ok : bool)                    (* table / memory / export / element section: all items (and nested item lists) readable? *)
| MFuncs (tys : list N) (ok : bool)
| MGlobals (l : list gitem)              (* items up to and including the first unreadable one *)
| MData (l : list ditem)
| MStart
| MDataCount (n : N)
| MCodeStart (n : N)
| MCodeEntry (locals_ok ops_ok last_end nzmem : bool)
| MTags (l : list bool)
| MName (l : list nsub)
| MProducers (p : prod)
| MCustom
| MUnknown                               (* Payload::UnknownSection *)
| MIgnored                               (* component-model payloads, End *)
| MUnmodelled.

(* ---------------------------------------------------------------------------------------------- *)
(* InitExpr::eval *)

Fixpoint eval_ops (ops : list xop) (trailing : bool) : outcome :=
  match ops with
  | [] => OUnmodelled
  | XOk :: r => eval_ops r trailing
  | XEnd :: _ => if trailing then OErr (* "more data after the end of the constant expression" -- never observed *)
                 else OOk
  | XBad :: _ => OErr                        (* operator outside the 16 listed: Err(ConversionError) *)
  | XReadErr :: _ => OErr                    (* reader.read()? -- never observed *)
  end.
Definition eval_cexpr (e : cexpr) : outcome := eval_ops (fst e) (snd e).

(* first failing item of a lazily mapped, collected iterator *)
Fixpoint run_globals (l : list gitem) : outcome :=
  match l with
  | [] => OOk
  | GErr :: _ => OErr
  | GInit e :: r => match eval_cexpr e with OOk => run_globals r | o => o end
  end.
Fixpoint run_data (l : list ditem) : outcome * N :=
  match l with
  | [] => (OOk, 0)
  | DErr :: _ => (OErr, 0)
  | DPassive :: r => let '(o, n) := run_data r in (o, n + 1)
  | DActive e :: r => match eval_cexpr e with OOk => let '(o, n) := run_data r in (o, n + 1) | o => (o, 0) end
  end.
Fixpoint run_tags (l : list bool) : outcome :=
  match l with [] => OOk | true :: r => run_tags r | false :: _ => OErr end.

(* ---------------------------------------------------------------------------------------------- *)
(* the state of the scan that matters for the outcome *)

Record mstate := mkMS {
  ms_nimpf : N;            (* imports.num_funcs *)
  ms_types : list bool;    (* kinds of the types inserted so far, by id *)
  ms_funcs : list N;       (* type index of every entry of the function section(s) *)
  ms_code_count : N;       (* count of the last CodeSectionStart *)
  ms_ncode : N;            (* code_sections.len() *)
  ms_start : bool;
  ms_data_count : option N;
  ms_ndata : N }.          (* data.len() *)
Definition ms0 := mkMS 0 [] [] 0 0 false None 0.

(* function names are collected during the scan and attached afterwards, to the imports and code bodies that exist
   then; a name for a function that does not exist is dropped.  Only an unreadable entry stops the scan. *)
Fixpoint run_fnames (l : list nitem) : outcome :=
  match l with
  | [] => OOk
  | NIErr :: _ => OErr
  | NIdx _ :: r => run_fnames r
  end.
Fixpoint run_indirect (l : list iitem) : outcome :=
  match l with
  | [] => OOk
  | IIErr :: _ => OErr
  | IIMap true :: r => run_indirect r
  | IIMap false :: _ => OErr
  end.
Fixpoint run_name (l : list nsub) : outcome :=
  match l with
  | [] => OOk
  | NSErr :: _ => OErr
  | NSFunc f :: r => match run_fnames f with OOk => run_name r | o => o end
  | NSMap ok :: r => if ok then run_name r else OErr
  | NSInd i :: r => match run_indirect i with OOk => run_name r | o => o end
  | NSOther :: r => run_name r
  end.
(* a producers section is kept like every other custom section; its fields are not looked at *)
Definition run_producers (p : prod) : outcome := OOk.

(* one payload: either the scan goes on with a new state, or it stops with an outcome *)
Definition step (mm : bool) (st : mstate) (e : mev) : mstate + outcome :=
  let go := inl st in
  match e with
  | MErr => inr OErr
  | MVersion n => if n =? 1 then go else inr OErr
  | MImports nf ok => if ok then inl (mkMS nf (ms_types st) (ms_funcs st) (ms_code_count st) (ms_ncode st) (ms_start st) (ms_data_count st) (ms_ndata st))
                      else inr OErr
  | MTypes kinds ok => if ok then inl (mkMS (ms_nimpf st) (ms_types st ++ kinds) (ms_funcs st) (ms_code_count st) (ms_ncode st) (ms_start st) (ms_data_count st) (ms_ndata st))
                       else inr OErr
  | MSimple ok => if ok then go else inr OErr
  | MFuncs tys ok => if ok then inl (mkMS (ms_nimpf st) (ms_types st) (ms_funcs st ++ tys) (ms_code_count st) (ms_ncode st) (ms_start st) (ms_data_count st) (ms_ndata st))
                     else inr OErr
  | MGlobals l => match run_globals l with OOk => go | o => inr o end
  | MData l => match run_data l with
               | (OOk, n) => inl (mkMS (ms_nimpf st) (ms_types st) (ms_funcs st) (ms_code_count st) (ms_ncode st) (ms_start st) (ms_data_count st) n)
               | (o, _) => inr o
               end
  | MStart => if ms_start st then inr OErr
              else inl (mkMS (ms_nimpf st) (ms_types st) (ms_funcs st) (ms_code_count st) (ms_ncode st) true (ms_data_count st) (ms_ndata st))
  | MDataCount n => inl (mkMS (ms_nimpf st) (ms_types st) (ms_funcs st) (ms_code_count st) (ms_ncode st) (ms_start st) (Some n) (ms_ndata st))
  | MCodeStart n => inl (mkMS (ms_nimpf st) (ms_types st) (ms_funcs st) n (ms_ncode st) (ms_start st) (ms_data_count st) (ms_ndata st))
  | MCodeEntry locals_ok ops_ok last_end nzmem =>
      if negb locals_ok then inr OErr   (* includes wasmparser's own "too many locals": the running sum cannot overflow *)
      else if negb ops_ok then inr OErr
      else if negb last_end then inr OErr
      else if negb mm && nzmem then inr OErr
      else inl (mkMS (ms_nimpf st) (ms_types st) (ms_funcs st) (ms_code_count st) (ms_ncode st + 1) (ms_start st) (ms_data_count st) (ms_ndata st))
  | MTags l => match run_tags l with OOk => go | o => inr o end
  | MName l => match run_name l with OOk => go | o => inr o end
  | MProducers p => match run_producers p with OOk => go | o => inr o end
  | MCustom => go
  | MUnknown => inr OErr
  | MIgnored => go
  | MUnmodelled => inr OUnmodelled
  end.

(* after the scan: the count checks, then one Function per code body -- its type must be a defined function type *)
Fixpoint check_func_types (types : list bool) (funcs : list N) (n : nat) {struct n} : outcome :=
  match n, funcs with
  | O, _ => OOk
  | S n', [] => OUnmodelled   (* excluded by the count check *)
  | S n', t :: r =>
      match nth_error types (N.to_nat t) with
      | None => OErr
      | Some false => OErr
      | Some true => check_func_types types r n'
      end
  end.
Definition finish (st : mstate) : outcome :=
  if negb (ms_code_count st =? ms_ncode st) || negb (ms_code_count st =? N.of_nat (length (ms_funcs st))) then OErr
  else match ms_data_count st with
       | Some d => if negb (d =? ms_ndata st) then OErr else check_func_types (ms_types st) (ms_funcs st) (N.to_nat (ms_ncode st))
       | None => check_func_types (ms_types st) (ms_funcs st) (N.to_nat (ms_ncode st))
       end.

Fixpoint scan (mm : bool) (st : mstate) (l : list mev) : outcome :=
  match l with
  | [] => finish st
  | e :: r => match step mm st e with inl st' => scan mm st' r | inr o => o end
  end.

(* Module::parse(bytes, enable_multi_memory) *)
Definition parse_glue (mm : bool) (s : list mev) : outcome := scan mm ms0 s.

(* ---------------------------------------------------------------------------------------------- *)
(* Component::parse: the payload stream in document order; a nested module is parsed by the module glue when
   its section is met, a nested component recursively (its payloads follow inline).  None of the state kept
   by parse_comp (section run lengths, the nesting stack with its known undercount D14) influences whether
   the parse returns Ok, Err or panics: the outcome is that of the first payload that stops it. *)

Inductive csub := CSErr | CSMap (ok : bool) | CSOther.
Inductive cev :=
| CErr                                   (* parse_all yields Err (tested before the nesting stack is consulted) *)
| CItems (ok : bool)                     (* any of the eight component section kinds collected with `?` *)
| CModule (slice_ok : bool) (m : list mev)
| CEnter (slice_ok : bool)               (* nested component: is unchecked_range inside the enclosing slice *)
| CName (l : list csub)                  (* component-name section *)
| CUnknown
| CSkip                                  (* everything parse_comp ignores *)
| CUnmodelled.

Fixpoint run_cname (l : list csub) : outcome :=
  match l with
  | [] => OOk
  | CSErr :: _ => OErr
  | CSMap ok :: r => if ok then run_cname r else OErr
  | CSOther :: r => run_cname r
  end.
Definition cstep (mm : bool) (e : cev) : outcome :=
  match e with
  | CErr => OErr
  | CItems ok => if ok then OOk else OErr
  | CModule ok m => if ok then parse_glue mm m else OErr   (* the section is longer than the enclosing slice: unexpected end-of-file *)
  | CEnter ok => if ok then OOk else OErr
  | CName l => run_cname l
  | CUnknown => OErr
  | CSkip => OOk
  | CUnmodelled => OUnmodelled
  end.
Fixpoint parse_comp_glue (mm : bool) (l : list cev) : outcome :=
  match l with
  | [] => OOk
  | e :: r => match cstep mm e with OOk => parse_comp_glue mm r | o => o end
  end.
