(* Name-section engine (C29): how names are consumed while parsing, what the naming calls do, and which name
   section Module::encode_internal builds.  Mirrors mod.rs:99-108 (stored maps), 381-404 (function names are
   moved onto the import / code entries), 1239-1250 and 1677-1679 (function names are rebuilt from the import
   entries in import-vector order and from the bodies by position in the function vector), the name-section
   builder at the end of encode_internal (the local / label maps are re-indexed through the function id map, the
   memory / global maps through theirs, the custom names of imported globals taking precedence - wrappers.rs
   reindex_namemap / reindex_indirect_namemap -, the other maps
   are written back as parsed), Module::set_fn_name, forget_local_names, module_functions.rs:529-549,
   module_imports.rs:122-142, function.rs:46-100 (FunctionBuilder name handling).
   The index spaces and the edit API are the ones of Model/Reindex.v.
   Names are tokens: `n<k>` is k; the import field name `i<fp>` used as a name is [tok_import fp]. *)
From Coq Require Import List Arith NArith Bool.
Import ListNotations.
From Orca Require Import Reindex.
Local Open Scope N_scope.

Definition nmap := list (N * N).                 (* NameMap: (index, name token) in section order *)
Definition imap := list (N * nmap).              (* IndirectNameMap *)
Record names := mkNames {
  n_module : option N;
  n_funcs : nmap; n_locals : imap; n_labels : imap; n_types : nmap; n_tables : nmap; n_mems : nmap;
  n_globals : nmap; n_elems : nmap; n_datas : nmap; n_tags : nmap }.

Definition tok_import (fp : N) : N := 1000000 + fp.

(* association lists id -> token, latest binding first *)
Definition nset (m : nmap) (k v : N) : nmap := (k, v) :: filter (fun kv => negb (N.eqb (fst kv) k)) m.
Definition ndel (m : nmap) (k : N) : nmap := filter (fun kv => negb (N.eqb (fst kv) k)) m.

(* [ns_imp]: Import::custom_name by position in the import vector (= ImportsID);
   [ns_body]: LocalFunction::body.name by position in the function vector before recalculate_ids (= stored id);
   [ns_forgot]: the function ids whose entries were removed from Module::local_names / label_names
   (forget_local_names: the function was converted, its body - or signature - is another one now) *)
Record nst := mkNS { ns_m : mst; ns_imp : nmap; ns_body : nmap; ns_forgot : list N }.

(* ---------- parsing: function names go to the k-th function import / the code entry ---------- *)
Fixpoint nth_func_import (pos : N) (k : N) (l : list imp) : option N :=
  match l with
  | [] => None
  | i :: l' => if N.eqb (i_sp i) 0 then (if N.eqb k 0 then Some pos else nth_func_import (pos + 1) (k - 1) l')
               else nth_func_import (pos + 1) k l'
  end.
(* Panic 60: code_sections[rel_idx] out of bounds *)
Fixpoint parse_fnames (m : mst) (nlocal : N) (fn : nmap) (acc : nmap * nmap) : res (nmap * nmap) :=
  match fn with
  | [] => Ok acc
  | (idx, t) :: fn' =>
      let nimp := s_num (m_f m) in
      if idx <? nimp then
        match nth_func_import 0 idx (m_imports m) with
        | Some k => parse_fnames m nlocal fn' (nset (fst acc) k t, snd acc)
        | None => parse_fnames m nlocal fn' acc
        end
      else if idx - nimp <? nlocal then parse_fnames m nlocal fn' (fst acc, nset (snd acc) idx t)
      else Panic 60
  end.
Definition parse_names (m : mst) (nlocal : N) (n : names) : res nst :=
  match parse_fnames m nlocal (n_funcs n) ([], []) with
  | Ok (i, b) => Ok (mkNS m i b [])
  | Panic w => Panic w
  end.

(* ---------- the API ---------- *)
Inductive nop :=
| NEdit (o : op) (bname : option N)   (* an edit of Reindex.op; [bname] = FunctionBuilder::set_name before finish_module /
                                         replace_import_in_module (ignored by every other edit) *)
| NSetFn (id : N) (t : N)             (* Module::set_fn_name(FunctionID, name) *)
| NSetLocalFn (id : N) (t : N)        (* functions.set_local_fn_name(FunctionID, name) -> bool *)
| NImpSetFn (id : N) (t : N)          (* imports.set_fn_name(name, FunctionID) *)
| NImpSetName (k : N) (t : N).        (* imports.set_name(name, ImportsID) *)

(* imports.set_fn_name: the FunctionID is compared with the running count of *function* imports (deleted entries
   included), as the parser does: the id-th function entry of the import vector *)
Definition imp_set_fn_name (s : nst) (id t : N) : nst :=
  match nth_func_import 0 id (m_imports (ns_m s)) with
  | Some k => mkNS (ns_m s) (nset (ns_imp s) k t) (ns_body s) (ns_forgot s)
  | None => s
  end.

Definition nstep (s : nst) (o : nop) : res (nst * option N) :=
  let m := ns_m s in
  match o with
  | NEdit e bname =>
      match step m e with
      | Panic w => Panic w
      | Ok (m', r) =>
          let s' := mkNS m' (ns_imp s) (ns_body s) (ns_forgot s) in
          match e with
          | AddLocal SF _ =>
              (* add_local_func(.., name): set_local_fn_name(id, name) when the builder has a name *)
              match bname, r with
              | Some t, Some id => Ok (mkNS m' (ns_imp s) (nset (ns_body s) id t) (ns_forgot s), r)
              | _, _ => Ok (s', r)
              end
          | LocalToImport id _ =>
              match nthN (s_items (m_f m)) id with
              | Some it => if is_import it then Ok (s', r)
                           else
                             (* the body is dropped, its name becomes the custom_name of the new import entry (pushed at the
                                end of the import vector); the names of its locals and labels are forgotten *)
                             Ok (mkNS m' (match lookup (ns_body s) id with
                                          | Some t => nset (ns_imp s) (lenN (m_imports m)) t
                                          | None => ns_imp s
                                          end) (ndel (ns_body s) id) (id :: ns_forgot s), r)
              | None => Ok (s', r)
              end
          | ImportToLocal k _ =>
              (* the function is resolved through the import (since the repair of D07): the first function item that
                 carries import entry k *)
              match nthN (m_imports m) k, find_imp (s_items (m_f m)) k 0 with
              | Some im, Some p =>
                  Ok (mkNS m' (ns_imp s) (nset (ns_body s) p (match bname with Some t => t | None => tok_import (i_fp im) end))
                           (p :: ns_forgot s), r)
                  (* local_func.body.name = self.name.or_else(|| Some(imp.name)): the builder's name, else the import's field name *)
              | _, _ => Ok (s', r)                                                 (* refused *)
              end
          | _ => Ok (s', r)
          end
      end
  | NSetFn id t =>
      (* the branch is chosen by the kind of the function; the import entry is the function's own import_id *)
      match nthN (s_items (m_f m)) id with
      | None => Panic 61                                      (* functions[id]: index out of bounds *)
      | Some it =>
          match it_imp it with
          | Some k => if k <? lenN (m_imports m) then Ok (mkNS m (nset (ns_imp s) k t) (ns_body s) (ns_forgot s), None)
                      else Panic 64                           (* imports[import_id]: index out of bounds *)
          | None => Ok (mkNS m (ns_imp s) (nset (ns_body s) id t) (ns_forgot s), None)
          end
      end
  | NSetLocalFn id t =>
      match nthN (s_items (m_f m)) id with
      | None => Panic 61
      | Some it => if is_import it then Ok (s, Some 0)
                   else Ok (mkNS m (ns_imp s) (nset (ns_body s) id t) (ns_forgot s), Some 1)
      end
  | NImpSetFn id t => Ok (imp_set_fn_name s id t, None)
  | NImpSetName k t =>
      if k <? lenN (m_imports m) then Ok (mkNS m (nset (ns_imp s) k t) (ns_body s) (ns_forgot s), None)
      else Panic 64                                           (* imports[k]: index out of bounds *)
  end.

(* ---------- encode: the name section that is built ---------- *)
(* import loop: the imports are emitted in the order Reindex.emitted_imports (every function / global / memory slot
   is filled with the next import of its kind in index order, since the repair of D02); for every emitted function
   import `function_names.append(import_func_idx, custom_name)`, counting the emitted function imports *)
Fixpoint emit_imp_names (idx : N) (imports : list imp) (order : list N) (nm : nmap) : nmap :=
  match order with
  | [] => []
  | k :: o' =>
      if N.eqb (fst (import_at imports k)) 0 then
        match lookup nm k with
        | Some t => (idx, t) :: emit_imp_names (idx + 1) imports o' nm
        | None => emit_imp_names (idx + 1) imports o' nm
        end
      else emit_imp_names idx imports o' nm
  end.
(* code loop: `for rel_func_idx in 0..functions.len()`: deleted and imported entries are skipped, the name is
   appended under the *position in the vector* *)
Fixpoint emit_body_names (pos : N) (l : list item) (nm : nmap) : nmap :=
  match l with
  | [] => []
  | it :: l' =>
      if it_del it || is_import it then emit_body_names (pos + 1) l' nm
      else match lookup nm (it_id it) with
           | Some t => (pos, t) :: emit_body_names (pos + 1) l' nm
           | None => emit_body_names (pos + 1) l' nm
           end
  end.
(* the same loop collects the custom names of the emitted *global* imports under their global index (D202) *)
Fixpoint emit_imp_gnames (idx : N) (imports : list imp) (order : list N) (nm : nmap) : nmap :=
  match order with
  | [] => []
  | k :: o' =>
      if N.eqb (fst (import_at imports k)) 1 then
        match lookup nm k with
        | Some t => (idx, t) :: emit_imp_gnames (idx + 1) imports o' nm
        | None => emit_imp_gnames (idx + 1) imports o' nm
        end
      else emit_imp_gnames idx imports o' nm
  end.
(* reindex_namemap: a name given through the import entry replaces the parsed one of that (new) index *)
Fixpoint rename_all (l : nmap) (renamed : nmap) : nmap :=
  match renamed with
  | [] => l
  | (idx, t) :: r' => rename_all (filter (fun kv => negb (N.eqb (fst kv) idx)) l ++ [(idx, t)]) r'
  end.
Definition emit_fnames (s : nst) (lf lg lm : list item) : nmap :=
  emit_imp_names 0 (m_imports (ns_m s)) (emitted_imports (m_imports (ns_m s)) lf lg lm) (ns_imp s)
  ++ emit_body_names 0 lf (ns_body s).

Definition import_global_names (s : nst) (lf lg lm : list item) : nmap :=
  emit_imp_gnames 0 (m_imports (ns_m s)) (emitted_imports (m_imports (ns_m s)) lf lg lm) (ns_imp s).

(* reindex_names (wrappers.rs): every entry whose index has an entry in the id map moves to the new index, the others
   (names of deleted entities) are dropped; then a stable sort by the new index *)
Definition reindex {B} (mp : list (N * N)) (l : list (N * B)) : list (N * B) :=
  flat_map (fun kv => match lookup mp (fst kv) with Some q => [(q, snd kv)] | None => [] end) l.
Fixpoint insert_key {B} (x : N * B) (l : list (N * B)) : list (N * B) :=
  match l with
  | [] => [x]
  | y :: t => if fst x <=? fst y then x :: y :: t else y :: insert_key x t
  end.
Definition sort_key {B} (l : list (N * B)) : list (N * B) := fold_right insert_key [] l.
Definition remembered {B} (forgot : list N) (l : list (N * B)) : list (N * B) :=
  filter (fun kv => negb (existsb (N.eqb (fst kv)) forgot)) l.

(* the local / label maps follow their function, the memory / global maps their memory / global; every other map is
   the one that was parsed *)
Definition emit_names (base : names) (s : nst) (lf lg lm : list item) (mf mg mm : list (N * N)) : names :=
  mkNames (n_module base) (emit_fnames s lf lg lm)
          (sort_key (reindex mf (remembered (ns_forgot s) (n_locals base))))
          (sort_key (reindex mf (remembered (ns_forgot s) (n_labels base))))
          (n_types base) (n_tables base)
          (sort_key (reindex mm (n_mems base)))
          (sort_key (rename_all (reindex mg (n_globals base)) (import_global_names s lf lg lm)))
          (n_elems base) (n_datas base) (n_tags base).

Definition nencode (base : names) (s : nst) : res (emod * names) :=
  match encode (ns_m s) [] [] with
  | Panic w => Panic w
  | Ok e =>
      match index_space (m_f (ns_m s)), index_space (m_g (ns_m s)), index_space (m_m (ns_m s)) with
      | Ok (lf, mf), Ok (lg, mg), Ok (lm, mm) => Ok (e, emit_names base s lf lg lm mf mg mm)
      | Panic w, _, _ | _, Panic w, _ | _, _, Panic w => Panic w
      end
  end.
