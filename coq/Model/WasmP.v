(* Fuelled big-step interpreter over structured bodies.  With [spec = true] it is the *specification*
   of the instrumentation modes: it runs the probe code recorded in the flags of a flat position at
   the semantically defined moment.  With [spec = false] it is plain Wasm (flags ignored). *)
From Coq Require Import List Arith NArith ZArith Bool Lia.
Import ListNotations.
From Orca Require Import Flat Tree.

Record cfg := mkC { locals : list Z; globals : list Z; stack : list Z; trace : list Z }.
Inductive outcome :=
| ONormal (c : cfg) | OBr (n : nat) (pend : list (list fop)) (c : cfg)
| OReturn (c : cfg) | OTrap (c : cfg) | OFuel | OUnsupported.

Definition wrap (z : Z) : Z := Z.modulo z 4294967296.
Definition with_stack (c : cfg) s := mkC (locals c) (globals c) s (trace c).
Fixpoint set_nth (n : nat) (v : Z) (l : list Z) : list Z :=
  match n, l with
  | _, [] => []
  | O, _ :: t => v :: t
  | S n', h :: t => h :: set_nth n' v t
  end.

(* tokens of the opaque operators the generator uses *)
Definition T_NOP := 1%N. Definition T_ADD := 2%N. Definition T_LOG := 3%N. Definition T_GGET0 := 4%N.
Definition T_GSET0 := 5%N. Definition T_EQZ := 6%N. Definition T_SUB := 7%N.
(* memory 0 is modelled as a window of i32 cells kept behind global 0 in [globals]: cell k (address 4k) is
   [globals] position 1+k; an access outside the window or unaligned is outside the model (OUnsupported).
   T_CALL2 is the call of the helper function `$acc : i32 -> ()`
   (global.get 0; local.get 0; i32.add; global.set 0). *)
Definition T_LOAD := 9%N. Definition T_STORE := 10%N. Definition T_CALL2 := 11%N.
Definition cell_of (a : Z) (gs : list Z) : option nat :=
  if (Z.eqb (Z.modulo a 4) 0 && Z.leb 0 a && Z.ltb (Z.div a 4) (Z.of_nat (length gs) - 1))%bool
  then Some (S (Z.to_nat (Z.div a 4))) else None.

Definition exec_plain (o : fop) (c : cfg) : outcome :=
  match o with
  | FConst z => ONormal (with_stack c (wrap z :: stack c))
  | FDrop => match stack c with _ :: s => ONormal (with_stack c s) | [] => OTrap c end
  | FLocalGet i => match nth_error (locals c) (N.to_nat i) with
                   | Some v => ONormal (with_stack c (v :: stack c)) | None => OTrap c end
  | FLocalSet i => match stack c with
                   | v :: s => if (N.to_nat i <? length (locals c))%nat
                               then ONormal (mkC (set_nth (N.to_nat i) v (locals c)) (globals c) s (trace c))
                               else OTrap c
                   | [] => OTrap c end
  | FLocalTee i => match stack c with
                   | v :: s => if (N.to_nat i <? length (locals c))%nat
                               then ONormal (mkC (set_nth (N.to_nat i) v (locals c)) (globals c) (v :: s) (trace c))
                               else OTrap c
                   | [] => OTrap c end
  | FOther t =>
      if N.eqb t T_NOP then ONormal c
      else if N.eqb t T_ADD then match stack c with b :: a :: s => ONormal (with_stack c (wrap (a + b) :: s)) | _ => OTrap c end
      else if N.eqb t T_SUB then match stack c with b :: a :: s => ONormal (with_stack c (wrap (a - b) :: s)) | _ => OTrap c end
      else if N.eqb t T_EQZ then match stack c with a :: s => ONormal (with_stack c ((if Z.eqb a 0 then 1 else 0)%Z :: s)) | _ => OTrap c end
      else if N.eqb t T_LOG then match stack c with a :: s => ONormal (mkC (locals c) (globals c) s (trace c ++ [a])) | _ => OTrap c end
      else if N.eqb t T_GGET0 then match globals c with g :: _ => ONormal (with_stack c (g :: stack c)) | [] => OTrap c end
      else if N.eqb t T_GSET0 then match stack c, globals c with
                                   | a :: s, _ :: gs => ONormal (mkC (locals c) (a :: gs) s (trace c))
                                   | _, _ => OTrap c end
      else if N.eqb t T_LOAD then match stack c with
                                  | a :: s => match cell_of a (globals c) with
                                              | Some k => ONormal (with_stack c (nth k (globals c) 0%Z :: s))
                                              | None => OUnsupported end
                                  | [] => OTrap c end
      else if N.eqb t T_STORE then match stack c with
                                   | v :: a :: s => match cell_of a (globals c) with
                                                    | Some k => ONormal (mkC (locals c) (set_nth k v (globals c)) s (trace c))
                                                    | None => OUnsupported end
                                   | _ => OTrap c end
      else if N.eqb t T_CALL2 then match stack c, globals c with
                                   | a :: s, g :: gs => ONormal (mkC (locals c) (wrap (g + a) :: gs) s (trace c))
                                   | _, _ => OTrap c end
      else OUnsupported
  | _ => OUnsupported
  end.

(* probe code: straight-line plain operators *)
Fixpoint run_code (code : list fop) (c : cfg) : outcome :=
  match code with
  | [] => ONormal c
  | o :: code' => match exec_plain o c with ONormal c' => run_code code' c' | r => r end
  end.

Section Exec.
Variable ftypes : list (nat * nat).              (* arities of the function types *)
Variable flags_at : nat -> flags.
Variable fn_exit : list fop.
Variable spec : bool.

Definition arity (bt : blockty) : nat * nat :=
  match bt with
  | BtEmpty => (0, 0)%nat
  | BtVal _ => (0, 1)%nat
  | BtFunc i => nth (N.to_nat i) ftypes (0, 0)%nat
  end.

Definition probes (code : list fop) (c : cfg) (k : cfg -> outcome) : outcome :=
  if spec then match run_code code c with ONormal c' => k c' | r => r end else k c.

Fixpoint run_pend (p : list (list fop)) (c : cfg) (k : cfg -> outcome) : outcome :=
  match p with
  | [] => k c
  | b :: p' => probes b c (fun c' => run_pend p' c' k)
  end.

Definition sa_pend (i : nat) : list (list fop) :=
  if spec then (if is_nil (f_sa (flags_at i)) then [] else [f_sa (flags_at i)]) else [].

Definition step_body (rec : bool -> list instr -> cfg -> outcome) (skipb : bool) (is : list instr) (c : cfg) : outcome :=
    match is with
    | [] => ONormal c
    | ins :: rest =>
      let continue (c : cfg) := rec false rest c in
      match ins with
      | IPlain i o =>
          let F := flags_at i in
          probes (f_before F) c (fun c =>
          match o with
          | FBr n => OBr n (sa_pend i) c
          | FBrIf n =>
              match stack c with
              | [] => OTrap c
              | v :: s =>
                  if Z.eqb v 0
                  then probes (f_after F) (with_stack c s) (fun c => probes (f_sa F) c continue)
                  else OBr n (sa_pend i) (with_stack c s)
              end
          | FBrTable ts d =>
              match stack c with
              | [] => OTrap c
              | v :: s => OBr (if (v <? Z.of_nat (length ts))%Z then nth (Z.to_nat v) ts d else d) (sa_pend i) (with_stack c s)
              end
          | FReturn => probes fn_exit c (fun c => OReturn c)
          | FUnreachable => probes fn_exit c (fun c => OTrap c)
          | FRetCall _ | FThrow _ => probes fn_exit c (fun _ => OUnsupported)   (* exit probes run; the transfer itself is not modelled *)
          | FBrOn _ _ | FBlock _ | FLoop _ | FIf _ | FElse | FEnd => OUnsupported
          | _ => match exec_plain o c with
                 | ONormal c' => probes (f_after F) c' continue
                 | r => r
                 end
          end)
      | IBlock i e bt body =>
          let F := flags_at i in let Fe := flags_at e in
          let '(np, nr) := arity bt in
          probes (f_before F) c (fun c =>
          let below := skipn np (stack c) in
          probes (f_after F ++ f_be F) (with_stack c (firstn np (stack c))) (fun c1 =>
          let leave (pend : list (list fop)) (c' : cfg) :=
            probes (f_after Fe) (with_stack c' (firstn nr (stack c') ++ below)) (fun c2 =>
            run_pend pend c2 (fun c3 => probes (f_sa F) c3 continue)) in
          match rec false body c1 with
          | ONormal c' => probes (f_before Fe ++ f_bx F) c' (leave [])
          | OBr O pend c' => leave pend c'
          | OBr (S n) pend c' => OBr n pend c'
          | r => r
          end))
      | ILoop i e bt body =>
          let F := flags_at i in let Fe := flags_at e in
          let '(np, nr) := arity bt in
          probes (if skipb then [] else f_before F) c (fun c =>
          let below := skipn np (stack c) in
          probes (f_after F ++ f_be F) (with_stack c (firstn np (stack c))) (fun c1 =>
          match rec false body c1 with
          | ONormal c' =>
              probes (f_before Fe ++ f_bx F) c' (fun c' =>
              probes (f_after Fe) (with_stack c' (firstn nr (stack c') ++ below)) (fun c2 =>
              probes (f_sa F) c2 continue))
          | OBr O _ c' => rec true (ins :: rest) (with_stack c' (firstn np (stack c') ++ below))
          | OBr (S n) pend c' => OBr n pend c'
          | r => r
          end))
      | IIf i el e bt thn els =>
          let F := flags_at i in let Fe := flags_at e in
          let '(np, nr) := arity bt in
          probes (f_before F) c (fun c =>
          match stack c with
          | [] => OTrap c
          | v :: s =>
              let below := skipn np s in
              let c0 := with_stack c (firstn np s) in
              let sa_else := match el with Some x => f_sa (flags_at x) | None => [] end in
              let leave (pend : list (list fop)) (c' : cfg) :=
                probes (f_after Fe) (with_stack c' (firstn nr (stack c') ++ below)) (fun c2 =>
                run_pend pend c2 (fun c3 => probes (f_sa F ++ sa_else) c3 continue)) in
              let arm (r : outcome) (fall : cfg -> outcome) :=
                match r with
                | ONormal c' => fall c'
                | OBr O pend c' => leave pend c'
                | OBr (S n) pend c' => OBr n pend c'
                | r => r
                end in
              if negb (Z.eqb v 0) then
                probes (f_after F ++ f_be F) c0 (fun c1 =>
                arm (rec false thn c1)
                    (fun c' => match el with
                               | Some x => probes (f_before (flags_at x) ++ f_bx F) c' (leave [])
                               | None => probes (f_before Fe ++ f_bx F) c' (leave [])
                               end))
              else
                match el with
                | Some x =>
                    let Fx := flags_at x in
                    probes (f_after Fx ++ f_be Fx) c0 (fun c1 =>
                    arm (rec false els c1)
                        (fun c' => probes (f_before Fe ++ f_bx Fx) c' (leave [])))
                | None => leave [] c0
                end
          end)
      end
    end.

Fixpoint exec (fuel : nat) : bool -> list instr -> cfg -> outcome :=
  match fuel with
  | O => fun _ _ _ => OFuel
  | S fuel' => step_body (exec fuel')
  end.
End Exec.

(* whole function: entry probes, body, exit probes; [final_end] is the flat position of the last `end` *)
Definition exec_fn (ftypes : list (nat * nat)) (flags_at : nat -> flags) (fn_entry fn_exit : list fop)
                   (spec : bool) (fuel : nat) (body : list instr) (final_end : nat) (c : cfg) : outcome :=
  let P code c k := if spec then match run_code code c with ONormal c' => k c' | r => r end else k c in
  P fn_entry c (fun c =>
  match exec ftypes flags_at fn_exit spec fuel false body c with
  | ONormal c' => P (f_before (flags_at final_end)) c' (fun c => P fn_exit c (fun c => OReturn c))
  | OBr _ pend c' => P fn_exit c' (fun c => P (concat pend) c (fun c => OReturn c))
  | r => r
  end).
