(* Determinism engine (C04): the hash maps of the encode path with their iteration order made explicit.

   Every `HashMap` that Module::encode_internal iterates is modelled as (association list, the order in which the
   iteration happens to visit it); the order is a *parameter*, exactly as [order] is a parameter of
   Types.build_map (the HashMap<TypeID,Types> that ModuleTypes::new iterates).  The maps are:

   (1) resolve_on_end : HashMap<BlockID, HashMap<InstrumentationMode, InstrToInject>> (mod.rs:707).  The outer map
       is only looked up / removed by key (`resolve_on_end.remove(&block_id)`, mod.rs:888); the *inner* map is
       iterated: `for (mode, instr_to_inject) in to_resolve.iter() { resolve_bodies(builder, mode, ..) }`
       (mod.rs:889).  Its keys are InstrumentationMode::Before (block exit) and ::After (semantic after).
       Lowering.pend2 fixes the order Before, After; here the inner map is a list of (mode, pend) entries in
       *iteration order* and [resolve_entries] is the loop.
   (2) resolve_on_else_or_end : HashMap<BlockID, HashMap<InstrumentationMode, InstrToInject>> (mod.rs:705), keyed by
       the block id of the `if` that waits, exactly like resolve_on_end: the outer map is only looked up / removed
       by key (at the `else` / `end` of that `if`), the inner map is iterated.  Only plan_resolution_block_exit
       writes it, always under the mode Before, so an inner map has the single key Before: for the bodies [bs]
       registered for one `if` it is [roe_map bs], and Lowering models the entry as the pend2 whose Before part
       holds [bs] and whose After part is empty.
   (3) func / global / memory mapping : HashMap<u32,u32> (get_mapping_generic, mod.rs:1029): looked up only
       (Reindex.lookup (Reindex.mapping l)).
   (4) types : HashMap<TypeID,Types>.  ModuleTypes::new collects its keys (`types.keys()`, visited in hash order
       [o]), sorts them (`ids.sort_unstable()`, [sort_ids]) and inserts into types_map in that order:
       [build_map_sorted types o] = Types.build_map types (sort_ids o).  Before the repair of D11 it inserted in
       the visiting order itself (Types.build_map types o).
   (5) side_effects : HashMap<InjectType, Vec<Injection>>: returned to the caller, never iterated, never encoded.

   The former D11 class predicate (decided on the *input* of a scenario; D11 is repaired, the predicate is kept
   because the harness still reports how many scenarios ask for a duplicated type) is at the end.
   No proofs in this file. *)
From Coq Require Import List NArith Bool.
Import ListNotations.
From Orca Require Import Flat Lowering Types.

(* ---------- (1) the inner map of resolve_on_end, in iteration order ---------- *)
Inductive imode := IBefore | IAfter.
Definition imode_eqb (a b : imode) : bool :=
  match a, b with IBefore, IBefore | IAfter, IAfter => true | _, _ => false end.

(* resolve_bodies (mod.rs:2633): every push goes to the `before` (resp. `after`) list of the current instruction *)
Definition resolve_entry (e : imode * pend) (w : flags) : flags :=
  match fst e with
  | IBefore => w_before (bodies (snd e)) w
  | IAfter => w_after (bodies (snd e)) w
  end.
(* for (mode, instr_to_inject) in to_resolve.iter() { resolve_bodies(..) } *)
Definition resolve_entries (es : list (imode * pend)) (w : flags) : flags :=
  fold_left (fun w e => resolve_entry e w) es w.

Definition sel (m : imode) (p : pend2) : pend := match m with IBefore => pb p | IAfter => pa p end.
(* the inner map of Lowering's pend2, visited in the order [ord] *)
Definition entries_in (ord : list imode) (p : pend2) : list (imode * pend) := map (fun m => (m, sel m p)) ord.
(* resolve_pend2 with the iteration order as a parameter; Lowering.resolve_pend2 is the order [IBefore; IAfter] *)
Definition resolve_pend2_ord (ord : list imode) (p : pend2) (w : flags) : flags := resolve_entries (entries_in ord p) w.

(* ---------- (2) an inner map built by entry().and_modify().or_insert() ---------- *)
(* save_not_flagged_body_to_resolve_inner (mod.rs:2577): a new key is appended wherever the hash puts it -- the
   position is irrelevant for what follows, the list is only ever used through [resolve_entries] on maps with at
   most one key, or up to Permutation *)
Fixpoint inner_insert (m : imode) (b : list fop) (l : list (imode * pend)) : list (imode * pend) :=
  match l with
  | [] => [(m, mkPend [] [b])]
  | (m', p) :: l' => if imode_eqb m' m then (m', add_not b p) :: l' else (m', p) :: inner_insert m b l'
  end.
(* the inner map of one resolve_on_else_or_end entry after the block-exit bodies [bs] of its `if` were registered
   (all under Before) *)
Definition roe_map (bs : list (list fop)) : list (imode * pend) :=
  fold_left (fun l b => inner_insert IBefore b l) bs [].

(* ---------- (4) ModuleTypes::new after the repair of D11 ---------- *)
(* ids.sort_unstable(): the keys are distinct, so every sorting algorithm gives the same list; insertion sort here *)
Fixpoint ins_id (x : N) (l : list N) : list N :=
  match l with
  | [] => [x]
  | y :: l' => if N.leb x y then x :: l else y :: ins_id x l'
  end.
Definition sort_ids (l : list N) : list N := fold_right ins_id [] l.
(* [o] = the order in which `types.keys()` happens to visit the ids *)
Definition build_map_sorted (types : list ctype) (o : list N) : list (ctype * N) := build_map types (sort_ids o).

(* ---------- the former D11 class, decided on the input ---------- *)
Local Open Scope N_scope.
Fixpoint count_tok (t : N) (l : list N) : N :=
  match l with [] => 0 | x :: l' => (if N.eqb x t then 1 else 0) + count_tok t l' end.
(* [base]: one token per type of the input's type section, equal tokens = structurally equal types (what
   Types' Hash / PartialEq compare); [added]: the tokens of the types the scenario asks the library to add.
   (former) D11: some requested type is structurally equal to a type the input has (at least) twice. *)
Definition d11_pred (base added : list N) : bool := existsb (fun t => 2 <=? count_tok t base) added.
Definition has_dup (base : list N) : bool := existsb (fun t => 2 <=? count_tok t base) base.
