(* HAND-WRITTEN vocabulary of WebAssembly value types as wasmparser 0.235 / wasm-encoder 0.235 represent them.
   The conversion tables of /repo/src/ir/types.rs are *generated* over this vocabulary (Gen/GenDataTypeConv.v). *)
From Coq Require Import List NArith Bool.
Import ListNotations.
Local Open Scope N_scope.

(* wasmparser::AbstractHeapType / wasm_encoder::AbstractHeapType *)
Inductive aht := AFunc | AExtern | AAny | ANone | ANoExtern | ANoFunc | AEq | AStruct | AArray | AI31 | AExn | ANoExn | ACont | ANoCont.

(* wasmparser::HeapType: Abstract { shared, ty } | Concrete(UnpackedIndex::{Module, RecGroup, Id}).
   wasm_encoder::HeapType::Concrete(u32) is a module-level type index: HModule. *)
Inductive heap := HAbs (shared : bool) (t : aht) | HModule (idx : N) | HRecGroup (idx : N) | HId (idx : N).

(* ValType; VRef nullable heap = ValType::Ref(RefType { nullable, heap_type }) *)
Inductive valtype := VI32 | VI64 | VF32 | VF64 | VV128 | VRef (nullable : bool) (h : heap).

(* StorageType *)
Inductive storage := SI8 | SI16 | SVal (v : valtype).

Definition aht_code (t : aht) : N :=
  match t with AFunc => 0 | AExtern => 1 | AAny => 2 | ANone => 3 | ANoExtern => 4 | ANoFunc => 5 | AEq => 6 | AStruct => 7
             | AArray => 8 | AI31 => 9 | AExn => 10 | ANoExn => 11 | ACont => 12 | ANoCont => 13 end.
Definition aht_eqb (a b : aht) : bool := aht_code a =? aht_code b.
Definition heap_eqb (a b : heap) : bool :=
  match a, b with
  | HAbs s t, HAbs s' t' => Bool.eqb s s' && aht_eqb t t'
  | HModule i, HModule j | HRecGroup i, HRecGroup j | HId i, HId j => i =? j
  | _, _ => false
  end.
Definition valtype_eqb (a b : valtype) : bool :=
  match a, b with
  | VI32, VI32 | VI64, VI64 | VF32, VF32 | VF64, VF64 | VV128, VV128 => true
  | VRef n h, VRef n' h' => Bool.eqb n n' && heap_eqb h h'
  | _, _ => false
  end.
Definition opt_valtype_eqb (a b : option valtype) : bool :=
  match a, b with Some x, Some y => valtype_eqb x y | None, None => true | _, _ => false end.

(* the value types the *binary reader* can produce for a core module: concrete references are module indices
   (RecGroup / Id indices only exist after the validator's canonicalisation) *)
Definition reader_valtype (v : valtype) : bool :=
  match v with VRef _ (HRecGroup _) | VRef _ (HId _) => false | _ => true end.
