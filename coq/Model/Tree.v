(* Structured view of a flat body: nodes carry the flat positions of their markers. *)
From Coq Require Import List Arith NArith ZArith Bool Lia.
Import ListNotations.
From Orca Require Import Flat.

Inductive instr :=
| IPlain (i : nat) (o : fop)
| IBlock (i e : nat) (bt : blockty) (body : list instr)
| ILoop (i e : nat) (bt : blockty) (body : list instr)
| IIf (i : nat) (el : option nat) (e : nat) (bt : blockty) (thn els : list instr).

Inductive term := TEnd (e : nat) | TElse (e : nat) | TEof.

(* parse a sequence until the `end`/`else` that closes it; fuel bounds the recursion *)
Fixpoint parse_seq (fuel : nat) (idx : nat) (ops : list fop) : option (list instr * term * nat * list fop) :=
  match fuel with
  | O => None
  | S fuel' =>
      match ops with
      | [] => Some ([], TEof, idx, [])
      | FEnd :: rest => Some ([], TEnd idx, S idx, rest)
      | FElse :: rest => Some ([], TElse idx, S idx, rest)
      | FBlock bt :: rest =>
          match parse_seq fuel' (S idx) rest with
          | Some (body, TEnd e, idx', rest') =>
              match parse_seq fuel' idx' rest' with
              | Some (tl, t, idx'', rest'') => Some (IBlock idx e bt body :: tl, t, idx'', rest'')
              | None => None
              end
          | _ => None
          end
      | FLoop bt :: rest =>
          match parse_seq fuel' (S idx) rest with
          | Some (body, TEnd e, idx', rest') =>
              match parse_seq fuel' idx' rest' with
              | Some (tl, t, idx'', rest'') => Some (ILoop idx e bt body :: tl, t, idx'', rest'')
              | None => None
              end
          | _ => None
          end
      | FIf bt :: rest =>
          match parse_seq fuel' (S idx) rest with
          | Some (thn, TEnd e, idx', rest') =>
              match parse_seq fuel' idx' rest' with
              | Some (tl, t, idx'', rest'') => Some (IIf idx None e bt thn [] :: tl, t, idx'', rest'')
              | None => None
              end
          | Some (thn, TElse el, idx', rest') =>
              match parse_seq fuel' idx' rest' with
              | Some (els, TEnd e, idx2, rest2) =>
                  match parse_seq fuel' idx2 rest2 with
                  | Some (tl, t, idx3, rest3) => Some (IIf idx (Some el) e bt thn els :: tl, t, idx3, rest3)
                  | None => None
                  end
              | _ => None
              end
          | _ => None
          end
      | o :: rest =>
          match parse_seq fuel' (S idx) rest with
          | Some (tl, t, idx', rest') => Some (IPlain idx o :: tl, t, idx', rest')
          | None => None
          end
      end
  end.

(* a function body: sequence closed by the final `end` with nothing after it; returns the tree and the
   position of the final end *)
Definition parse_body (ops : list fop) : option (list instr * nat) :=
  match parse_seq (S (length ops)) 0 ops with
  | Some (body, TEnd e, _, []) => Some (body, e)
  | _ => None
  end.
