(* Side-effect engine (C23): which records `Module::pull_side_effects()` (= encode_internal(true).1) returns.
   Mirrors the `pull_side_effects` branches of mod.rs:1140-1772 (types 1209, imports 1257, functions 1281,
   memories 1350, globals 1400, exports 1452, data 1693/1721, probes 1674 -> module_functions.rs:243 ->
   types.rs:1205-1240; function entry / exit 687 -> types.rs:970-1003) and the tag handling of the addition API.
   The index spaces and the edit API are those of Model/Reindex.v; the instrumentation flags after
   resolve_special_instrumentation are those of Model/Lowering.v (the composition lives in Check/CheckSideFx.v).
   A tag is a token: 0 = the empty tag (Tag::default(), what the plain addition API attaches), k >= 1 = data.
   Index-bearing operators are the tokens IDXB + kind * KSH + id (1 call, 2 global.get, 3 memory.size, 4 i32.load). *)
From Coq Require Import List Arith NArith ZArith Bool.
Import ListNotations.
From Orca Require Import Flat Reindex.
Local Open Scope N_scope.

Definition tg := option N.                        (* InjectTag: None = no tag at all *)

(* one record of the report: content fields, code body (Func / probe records), tag *)
Record srec := mkRec { r_fields : list N; r_body : list fop; r_tag : N }.

(* InjectType codes *)
Definition K_TYPE : N := 0.   Definition K_IMPORT : N := 1. Definition K_EXPORT : N := 2. Definition K_MEMORY : N := 3.
Definition K_DATA : N := 4.   Definition K_GLOBAL : N := 5. Definition K_FUNC : N := 6.   Definition K_PROBE : N := 10.

Record sexport := mkX { x_name : N; x_kind : N; x_index : N; x_tag : tg; x_del : bool }.
Record sdata := mkD { d_active : bool; d_byte : N; d_mem : N; d_tag : tg }.

Record sst := mkSt {
  t_m : mst;
  t_types : list (N * tg);          (* signature code (number of i32 parameters), tag; TypeID = position *)
  t_imp_tag : list (N * N);         (* position in the import vector -> tag (present = Some) *)
  t_ftag : list (N * N);            (* stored function id -> tag of the LocalFunction *)
  t_gtag : list (N * N);            (* stored global id -> tag *)
  t_mtag : list (N * N);            (* stored memory id -> tag *)
  t_fbody : list (N * list fop);    (* stored function id -> body of a built function (with the final end) *)
  t_exports : list sexport;
  t_data : list sdata }.

Inductive sop :=
| SAddType (code : N) (t : tg)                          (* types.add_func_type([i32; code], [], tag) *)
| SAddImport (s : sp) (fp : N) (t : N)                  (* add_import_func / add_imported_global / add_import_memory [_with_tag] *)
| SAddLocal (s : sp) (fp : N) (body : list fop) (t : N) (* FunctionBuilder::finish_module / add_global / add_local_memory [_with_tag] *)
| SItAddGlobal (fp : N) (t : tg)                        (* ModuleIterator::add_global(Global::new(.., tag)) *)
| SDelete (s : sp) (id : N)
| SAddExport (s : sp) (id : N) (name : N) (t : tg)      (* exports.add_export_func / add_export_mem(name, id, tag) *)
| SDeleteExport (k : N)
| SAddData (active : bool) (mem : N) (byte : N) (t : tg).

Definition aset (m : list (N * N)) (k v : N) : list (N * N) := (k, v) :: filter (fun kv => negb (N.eqb (fst kv) k)) m.
Fixpoint bget (m : list (N * list fop)) (k : N) : option (list fop) :=
  match m with [] => None | (k', v) :: m' => if N.eqb k k' then Some v else bget m' k end.

Fixpoint find_type (pos : N) (code : N) (l : list (N * tg)) : option N :=
  match l with [] => None | (c, _) :: l' => if N.eqb c code then Some pos else find_type (pos + 1) code l' end.

Definition with_m (s : sst) (m : mst) : sst :=
  mkSt m (t_types s) (t_imp_tag s) (t_ftag s) (t_gtag s) (t_mtag s) (t_fbody s) (t_exports s) (t_data s).

Definition sstep (s : sst) (o : sop) : res (sst * option N) :=
  let m := t_m s in
  match o with
  | SAddType code t =>
      match find_type 0 code (t_types s) with
      | Some id => Ok (s, Some id)                       (* types_map already has the (tag-blind) type *)
      | None => Ok (mkSt m (t_types s ++ [(code, t)]) (t_imp_tag s) (t_ftag s) (t_gtag s) (t_mtag s) (t_fbody s) (t_exports s) (t_data s),
                    Some (lenN (t_types s)))
      end
  | SAddImport x fp t =>
      match step m (AddImport x fp) with
      | Panic w => Panic w
      | Ok (m', r) =>
          Ok (mkSt m' (t_types s) (aset (t_imp_tag s) (lenN (m_imports m)) t) (t_ftag s) (t_gtag s) (t_mtag s) (t_fbody s) (t_exports s) (t_data s), r)
      end
  | SAddLocal x fp body t =>
      match step m (AddLocal x fp) with
      | Panic w => Panic w
      | Ok (m', r) =>
          match r with
          | None => Ok (with_m s m', r)
          | Some id =>
              match x with
              | SF => Ok (mkSt m' (t_types s) (t_imp_tag s) (aset (t_ftag s) id t) (t_gtag s) (t_mtag s) ((id, body ++ [FEnd]) :: t_fbody s) (t_exports s) (t_data s), r)
              | SG => Ok (mkSt m' (t_types s) (t_imp_tag s) (t_ftag s) (aset (t_gtag s) id t) (t_mtag s) (t_fbody s) (t_exports s) (t_data s), r)
              | SM => Ok (mkSt m' (t_types s) (t_imp_tag s) (t_ftag s) (t_gtag s) (aset (t_mtag s) id t) (t_fbody s) (t_exports s) (t_data s), r)
              end
          end
      end
  | SItAddGlobal fp t =>
      match step m (ItAddGlobal fp) with
      | Panic w => Panic w
      | Ok (m', r) =>
          match r, t with
          | Some id, Some k => Ok (mkSt m' (t_types s) (t_imp_tag s) (t_ftag s) (aset (t_gtag s) id k) (t_mtag s) (t_fbody s) (t_exports s) (t_data s), r)
          | _, _ => Ok (with_m s m', r)
          end
      end
  | SDelete x id =>
      match step m (Delete x id) with
      | Panic w => Panic w
      | Ok (m', r) => Ok (with_m s m', r)
      end
  | SAddExport x id name t =>
      Ok (mkSt m (t_types s) (t_imp_tag s) (t_ftag s) (t_gtag s) (t_mtag s) (t_fbody s)
               (t_exports s ++ [mkX name (sp_code x) id t false]) (t_data s), None)
  | SDeleteExport k =>
      if k <? lenN (t_exports s)
      then Ok (mkSt m (t_types s) (t_imp_tag s) (t_ftag s) (t_gtag s) (t_mtag s) (t_fbody s)
                    (updN k (fun e => mkX (x_name e) (x_kind e) (x_index e) (x_tag e) true) (t_exports s)) (t_data s), None)
      else Panic 70
  | SAddData active mem byte t =>
      Ok (mkSt m (t_types s) (t_imp_tag s) (t_ftag s) (t_gtag s) (t_mtag s) (t_fbody s) (t_exports s)
               (t_data s ++ [mkD active byte mem t]), Some (lenN (t_data s)))
  end.

(* ---------- index-bearing operators ---------- *)
Definition IDXB : N := 1073741824.
Definition KSH : N := 1048576.
Definition remap_fop (mf mg mm : list (N * N)) (o : fop) : option fop :=
  match o with
  | FOther t =>
      if t <? IDXB then Some o else
      let k := (t - IDXB) / KSH in
      let id := (t - IDXB) mod KSH in
      match (if N.eqb k 1 then lookup mf id else if N.eqb k 2 then lookup mg id else lookup mm id) with
      | Some q => Some (FOther (IDXB + k * KSH + q))
      | None => None                                     (* "Deleted function / global / memory": encode panics *)
      end
  | _ => Some o
  end.
Fixpoint remap_all (mf mg mm : list (N * N)) (l : list fop) : option (list fop) :=
  match l with
  | [] => Some []
  | o :: l' => match remap_fop mf mg mm o, remap_all mf mg mm l' with
               | Some o', Some r => Some (o' :: r)
               | _, _ => None
               end
  end.

(* ---------- the records of the module-level additions ---------- *)
Definition opt_rec (t : tg) (fields : list N) (body : list fop) : list srec :=
  match t with Some k => [mkRec fields body k] | None => [] end.

Definition fx_types (s : sst) : list srec := flat_map (fun ct => opt_rec (snd ct) [fst ct] []) (t_types s).

(* the import loop builds the record inside `if !import.deleted`, next to the emission of the import *)
Fixpoint fx_imports_from (pos : N) (l : list imp) (tags : list (N * N)) : list srec :=
  match l with
  | [] => []
  | i :: l' => (if i_del i then [] else opt_rec (lookup tags pos) [i_sp i; i_fp i] []) ++ fx_imports_from (pos + 1) l' tags
  end.
Definition fx_imports (s : sst) : list srec := fx_imports_from 0 (m_imports (t_m s)) (t_imp_tag s).

Definition fx_exports (s : sst) : list srec :=
  flat_map (fun e => if x_del e then [] else opt_rec (x_tag e) [x_name e; x_kind e; x_index e] []) (t_exports s).
Definition fx_data (s : sst) : list srec :=
  flat_map (fun d => opt_rec (d_tag d) [if d_active d then 1 else 0; d_byte d; if d_active d then d_mem d else 0] []) (t_data s).

(* function section loop: not deleted, local, tagged; the body is cloned here, i.e. *before* the code loop
   rewrites the operators in place: stale ids *)
Definition fx_funcs (s : sst) (lf : list item) : list srec :=
  flat_map (fun it => if it_del it || is_import it then []
                      else opt_rec (lookup (t_ftag s) (it_id it)) [it_fp it; it_id it]
                                   (match bget (t_fbody s) (it_id it) with Some b => b | None => [] end)) lf.
(* memory loop: `if memory.is_local()` (no deleted test) *)
Definition fx_mems (s : sst) (lm : list item) : list srec :=
  flat_map (fun it => if is_import it then [] else opt_rec (lookup (t_mtag s) (it_id it)) [it_fp it; it_id it] []) lm.
Definition fx_globals (s : sst) (lg : list item) : list srec :=
  flat_map (fun it => if it_del it || is_import it then [] else opt_rec (lookup (t_gtag s) (it_id it)) [it_fp it; it_id it] []) lg.

(* ---------- the records of the probes of a function without special instrumentation ---------- *)
(* add_opcode_injections: per instruction before / after / alternate, empty lists are skipped.  At the function's
   final `end` ([last]) the encoder emits the before list only, and only that list is reported *)
Fixpoint fx_loc_probes (pos : N) (last idx : nat) (body : list (fop * flags)) (tagof : nat -> mode -> N)
                       (remap : list fop -> option (list fop)) : option (list srec) :=
  match body with
  | [] => Some []
  | (_, f) :: body' =>
      let at_end := Nat.leb last idx in
      let one (m : mode) (code : N) (l : list fop) : option (list srec) :=
        match l with
        | [] => Some []
        | _ => match remap l with
               | Some l' => Some [mkRec [1; code; N.of_nat idx; pos] l' (tagof idx m)]
               | None => None
               end
        end in
      match one MBefore 0 (f_before f), one MAfter 1 (if at_end then [] else f_after f),
            one MAlternate 2 (if at_end then [] else match f_alt f with Some a => a | None => [] end),
            fx_loc_probes pos last (S idx) body' tagof remap with
      | Some a, Some b, Some c, Some rest => Some (a ++ b ++ c ++ rest)
      | _, _, _, _ => None
      end
  end.
(* ---------- the records of a function with special instrumentation ---------- *)
(* resolve_special_instrumentation reports the probes of such a function itself (add_unresolved_injections), from the
   flags as they are *before* the special modes are lowered: before / after code for every instruction, alternate and
   special code once it is certain that the instruction stays (what sits on an instruction inside a region that a
   block-alt removes is dropped by the lowering and not reported).  [site_step] mirrors the part of the
   resolver that decides this (block_stack / delete_block / retain_end; Lowering.rstep has the same skeleton). *)
Inductive site := SKeep | SAlt | SDrop.      (* reaches the instruction-level stage | opener replaced by its block-alt | removed *)
Record sitest := mkSite { z_stack : list nat; z_del : option nat; z_retain : bool }.   (* head of z_stack = top *)
Definition site_alt (is_else : bool) (f : flags) (st : sitest) : sitest * site :=
  match f_balt f, z_del st with
  | Some _, None => (mkSite (z_stack st) (Some (hd 0%nat (z_stack st))) is_else, SAlt)
  | _, Some _ => (st, SDrop)
  | None, None => (st, SKeep)
  end.
Definition site_step (op : fop) (f : flags) (st : sitest) : sitest * site :=
  match op with
  | FBlock _ | FLoop _ | FIf _ =>
      site_alt false f (mkSite (length (z_stack st) :: z_stack st) (z_del st) (z_retain st))
  | FElse => site_alt true f st
  | FEnd =>
      match z_stack st with
      | [] => (st, SKeep)
      | block_id :: rest =>
          match z_del st with
          | Some d =>
              if Nat.eqb d block_id then
                (mkSite rest None true, if z_retain st then SKeep else SDrop)
              else (mkSite rest (Some d) (z_retain st), SDrop)
          | None => (mkSite rest None (z_retain st), SKeep)
          end
      end
  | _ => (st, match z_del st with Some _ => SDrop | None => SKeep end)
  end.

Definition mcode (m : mode) : N :=
  match m with MBefore => 0 | MAfter => 1 | MAlternate => 2 | MSemanticAfter => 3 | MBlockEntry => 4 | MBlockExit => 5 | MBlockAlt => 6 end.
Definition mode_list (f : flags) (m : mode) : list fop :=
  match m with
  | MBefore => f_before f | MAfter => f_after f | MAlternate => match f_alt f with Some a => a | None => [] end
  | MSemanticAfter => f_sa f | MBlockEntry => f_be f | MBlockExit => f_bx f
  | MBlockAlt => match f_balt f with Some a => a | None => [] end
  end.
(* add_unresolved_injections: the lists of [modes], empty ones skipped, after / alternate skipped at the final `end` *)
Fixpoint fx_modes (pos : N) (idx : nat) (at_end : bool) (f : flags) (modes : list mode) (tagof : nat -> mode -> N)
                  (remap : list fop -> option (list fop)) : option (list srec) :=
  match modes with
  | [] => Some []
  | m :: ms =>
      let l := if at_end && (match m with MAfter | MAlternate => true | _ => false end) then [] else mode_list f m in
      match (match l with
             | [] => Some []
             | _ => match remap l with Some l' => Some [mkRec [1; mcode m; N.of_nat idx; pos] l' (tagof idx m)] | None => None end
             end), fx_modes pos idx at_end f ms tagof remap with
      | Some a, Some rest => Some (a ++ rest)
      | _, _ => None
      end
  end.
Fixpoint fx_unresolved (pos : N) (last idx : nat) (body : list (fop * flags)) (st : sitest) (tagof : nat -> mode -> N)
                       (remap : list fop -> option (list fop)) : option (list srec) :=
  match body with
  | [] => Some []
  | (op, f) :: body' =>
      let '(st', what) := site_step op f st in
      let at_end := Nat.leb last idx in
      (* before / after code is encoded (and reported) for every instruction, also for one a block-alt removes; its
         alternate and special code only when the instruction stays *)
      let here :=
        match fx_modes pos idx at_end f [MBefore; MAfter] tagof remap,
              (match what with
               | SDrop => Some []
               | SAlt => fx_modes pos idx false f [MAlternate; MBlockAlt] tagof remap
               | SKeep => if has_instr f
                          then fx_modes pos idx at_end f [MAlternate; MSemanticAfter; MBlockEntry; MBlockExit] tagof remap
                          else Some []
               end) with
        | Some a, Some b => Some (a ++ b)
        | _, _ => None
        end in
      match here, fx_unresolved pos last (S idx) body' st' tagof remap with
      | Some a, Some rest => Some (a ++ rest)
      | _, _ => None
      end
  end.

(* add_corrected_special_injections (only reached for a function with has_special_instr) *)
Definition fx_func_probes (pos : N) (has_special : bool) (entry exit : list fop) (etag xtag : N)
                          (remap : list fop -> option (list fop)) : option (list srec) :=
  if negb has_special then Some [] else
  let one (code : N) (l : list fop) (t : N) : option (list srec) :=
    match l with
    | [] => Some []
    | _ => match remap l with Some l' => Some [mkRec [0; code; 0; pos] l' t] | None => None end
    end in
  match one 0 entry etag, one 1 exit xtag with
  | Some a, Some b => Some (a ++ b)
  | _, _ => None
  end.
