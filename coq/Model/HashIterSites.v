(* HAND-WRITTEN: the status of every hash-order (and other run-dependent) site of the encode path.

   Gen/GenHashIter.v (regenerated from /repo/src by `xlate GenHashIter` on every ./check C04) lists
     gen_hash_sites    every iteration (iter / iter_mut / into_iter / values / values_mut / keys / into_keys / into_values /
                       drain / retain / `for .. in`) over a hash-typed value in src/ir/module/*.rs, src/ir/function.rs,
                       src/ir/types.rs, src/ir/wrappers.rs, src/ir/helpers.rs, keyed by (file, function, receiver text,
                       method, number of occurrences in the function) -- never by line;
     gen_hash_decls    every declared binding whose written type mentions HashMap / HashSet;
     gen_other_sources every use of std::time / std::thread / std::env / RandomState and every pointer cast.
   This file gives every iteration a status
     OrderFree why     : the visiting order cannot reach the encoded bytes, for the reason given (with the theorem of
                         Proofs/DetermProofs.v that carries it, where there is one);
     OrderDependent k  : the visiting order reaches the encoded bytes; k is the known-finding class (none today; D11 = 11
                         was ModuleTypes::new before its repair);
     OffPath why       : the iteration is not executed by Module::encode (argument by reading);
   and repeats the declaration list and the (empty) list of other sources.  Proofs/DetermProofs.v proves by
   vm_compute that the three lists here are exactly the generated ones: a new HashMap iteration, a new hash-typed
   binding or a new clock / thread / environment / pointer-cast use in those files breaks that theorem until it is
   reviewed here. *)
From Coq Require Import List NArith String.
From Orca Require Import Gen.GenHashIter.
Import ListNotations.
Open Scope string_scope.
Open Scope N_scope.

Inductive hstatus := OrderFree (why : string) | OrderDependent (k : N) | OffPath (why : string).

Definition hash_site_status : list (hsite * hstatus) := [
  (mkHS "src/ir/module/mod.rs" "Module::encode_internal" "self.types.groups" "iter" 1,
      OrderFree "false positive of the syntactic taint: `self.types` is the ModuleTypes field of Module, `.groups` is a Vec<RecGroup> (insertion order = id order); the rec groups are emitted in Vec order");
  (mkHS "src/ir/module/mod.rs" "Module::encode_internal" "types" "iter" 1,
      OrderFree "false positive of the syntactic taint: `types` is the Vec<TypeID> of one RecGroup bound by the for pattern; each id is *looked up* in the HashMap (`self.types.types.get(ty_id)`)");
  (mkHS "src/ir/module/mod.rs" "Module::resolve_special_instrumentation" "to_resolve" "iter" 3,
      OrderFree "the three iterations over an inner map removed by key from resolve_on_else_or_end (at the `else` and at the `end` of the `if` that waits) and from resolve_on_end (at the `end`).  An inner map of resolve_on_else_or_end has at most the one key InstrumentationMode::Before (only plan_resolution_block_exit inserts, with that key): DetermProofs.roe_single_key.  Inner map of resolve_on_end: keys Before / After write to different lists of the instruction (before / after); any visiting order gives the same flags: DetermProofs.ron_modes_commute, ron_entries_permutation (the flag field current_mode, which does depend on the order, is not read by the encoder: mod.rs:1597 binds it to _current_mode)");
  (mkHS "src/ir/module/module_types.rs" "ModuleTypes::iter" "self.types" "values" 1,
      OffPath "public accessor returning the values in hash order; no caller inside src/ (only tests): not on the encode path.  A *caller* that acts on this order is outside the property as checked");
  (mkHS "src/ir/module/module_types.rs" "ModuleTypes::new" "ids" "for" 1,
      OrderFree "false positive of the syntactic taint: `ids` is the Vec<TypeID> of collected keys *after* `ids.sort_unstable()`; the insertions into types_map happen in ascending id order");
  (mkHS "src/ir/module/module_types.rs" "ModuleTypes::new" "types" "keys" 1,
      OrderFree "the keys are collected into a Vec and sorted before they are used: every visiting order gives the same sorted list (DetermProofs.sort_ids_canonical) and hence the same types_map (DetermProofs.types_map_order); this was the order-dependent iteration of D11 before the repair")
].

(* Every hash-typed declaration, reviewed: the three id maps (func_mapping / global_mapping / memory_mapping, built by
   get_mapping_generic and handed down by reference) and the side-effect map appear in *no* iteration site above --
   they are only looked up (`mapping.get(..)`, `.entry(..)`) or returned; resolve_on_end and resolve_on_else_or_end are only indexed by key
   (`entry`, `remove`), its inner maps are the `to_resolve` site; `types` / `types_map` of ModuleTypes: see the
   ModuleTypes::new sites; parse_internal's `types` is moved into ModuleTypes::new; the two fields of ConstExprReindexer
   (the re-indexer of constant expressions in element segments and table initialisers) are references to the func /
   global id maps and are only looked up (`.get(&id)`). *)
Definition hash_decls_reviewed : list (string * string * string * string) := [
    ("src/ir/module/mod.rs", "fn Module::encode_internal", "<return>", "(wasm_encoder::Module,HashMap<InjectType,Vec<Injection<'a>>>,)")
  ; ("src/ir/module/mod.rs", "fn Module::encode_internal", "side_effects", "HashMap::new()")
  ; ("src/ir/module/mod.rs", "fn Module::get_mapping_generic", "<return>", "HashMap<u32,u32>")
  ; ("src/ir/module/mod.rs", "fn Module::get_mapping_generic", "mapping", "HashMap::new()")
  ; ("src/ir/module/mod.rs", "fn Module::parse_internal", "types", "HashMap<TypeID,Types>")
  ; ("src/ir/module/mod.rs", "fn Module::recalculate_ids", "<return>", "HashMap<u32,u32>")
  ; ("src/ir/module/mod.rs", "fn Module::resolve_special_instrumentation", "func_mapping", "&HashMap<u32,u32>")
  ; ("src/ir/module/mod.rs", "fn Module::resolve_special_instrumentation", "global_mapping", "&HashMap<u32,u32>")
  ; ("src/ir/module/mod.rs", "fn Module::resolve_special_instrumentation", "memory_mapping", "&HashMap<u32,u32>")
  ; ("src/ir/module/mod.rs", "fn Module::resolve_special_instrumentation", "resolve_on_else_or_end", "HashMap<BlockID,HashMap<InstrumentationMode,InstrToInject>,>")
  ; ("src/ir/module/mod.rs", "fn Module::resolve_special_instrumentation", "resolve_on_end", "HashMap<BlockID,HashMap<InstrumentationMode,InstrToInject>,>")
  ; ("src/ir/module/mod.rs", "fn Module::resolve_special_instrumentation", "side_effects", "&mut HashMap<InjectType,Vec<Injection<'a>>>")
  ; ("src/ir/module/mod.rs", "fn add_injection", "side_effects", "&mut HashMap<InjectType,Vec<Injection<'a>>>")
  ; ("src/ir/module/mod.rs", "fn fix_op_id_mapping", "func_mapping", "&HashMap<u32,u32>")
  ; ("src/ir/module/mod.rs", "fn fix_op_id_mapping", "global_mapping", "&HashMap<u32,u32>")
  ; ("src/ir/module/mod.rs", "fn fix_op_id_mapping", "memory_mapping", "&HashMap<u32,u32>")
  ; ("src/ir/module/mod.rs", "fn plan_resolution_block_exit", "resolve_on_else_or_end", "&mut HashMap<BlockID,HashMap<InstrumentationMode,InstrToInject<'c>>>")
  ; ("src/ir/module/mod.rs", "fn plan_resolution_block_exit", "resolve_on_end", "&mut HashMap<BlockID,HashMap<InstrumentationMode,InstrToInject<'c>>>")
  ; ("src/ir/module/mod.rs", "fn plan_resolution_semantic_after", "resolve_on_end", "&mut HashMap<BlockID,HashMap<InstrumentationMode,InstrToInject<'c>>>")
  ; ("src/ir/module/mod.rs", "fn save_flagged_body_to_resolve", "to_resolve", "&mut HashMap<BlockID,HashMap<InstrumentationMode,InstrToInject<'a>>>")
  ; ("src/ir/module/mod.rs", "fn save_not_flagged_body_to_resolve", "resolve_on_end", "&mut HashMap<BlockID,HashMap<InstrumentationMode,InstrToInject<'a>>>")
  ; ("src/ir/module/mod.rs", "fn save_not_flagged_body_to_resolve_inner", "inner", "&mut HashMap<InstrumentationMode,InstrToInject<'a>>")
  ; ("src/ir/module/mod.rs", "struct ConstExprReindexer", "func_mapping", "&'m HashMap<u32,u32>")
  ; ("src/ir/module/mod.rs", "struct ConstExprReindexer", "global_mapping", "&'m HashMap<u32,u32>")
  ; ("src/ir/module/module_functions.rs", "fn LocalFunction::add_corrected_special_injections", "func_mapping", "&HashMap<u32,u32>")
  ; ("src/ir/module/module_functions.rs", "fn LocalFunction::add_corrected_special_injections", "global_mapping", "&HashMap<u32,u32>")
  ; ("src/ir/module/module_functions.rs", "fn LocalFunction::add_corrected_special_injections", "memory_mapping", "&HashMap<u32,u32>")
  ; ("src/ir/module/module_functions.rs", "fn LocalFunction::add_corrected_special_injections", "side_effects", "&mut HashMap<InjectType,Vec<Injection<'a>>>")
  ; ("src/ir/module/module_functions.rs", "fn LocalFunction::add_opcode_injections", "side_effects", "&mut HashMap<InjectType,Vec<Injection<'a>>>")
  ; ("src/ir/module/module_types.rs", "fn ModuleTypes::new", "types", "HashMap<TypeID,Types>")
  ; ("src/ir/module/module_types.rs", "fn ModuleTypes::new", "types_map", "HashMap::default()")
  ; ("src/ir/module/module_types.rs", "struct ModuleTypes", "types", "HashMap<TypeID,Types>")
  ; ("src/ir/module/module_types.rs", "struct ModuleTypes", "types_map", "HashMap<Types,TypeID>")
  ; ("src/ir/module/side_effects.rs", "fn Module::pull_side_effects", "<return>", "HashMap<InjectType,Vec<Injection<'a>>>")
  ; ("src/ir/types.rs", "fn FuncInstrFlag::add_injections", "func_mapping", "&HashMap<u32,u32>")
  ; ("src/ir/types.rs", "fn FuncInstrFlag::add_injections", "global_mapping", "&HashMap<u32,u32>")
  ; ("src/ir/types.rs", "fn FuncInstrFlag::add_injections", "memory_mapping", "&HashMap<u32,u32>")
  ; ("src/ir/types.rs", "fn FuncInstrFlag::add_injections", "side_effects", "&mut HashMap<InjectType,Vec<Injection<'a>>>")
  ; ("src/ir/types.rs", "fn InitInstr::fix_id_mapping", "func_mapping", "&HashMap<u32,u32>")
  ; ("src/ir/types.rs", "fn InitInstr::fix_id_mapping", "global_mapping", "&HashMap<u32,u32>")
  ; ("src/ir/types.rs", "fn InstrumentationFlag::add_injections", "side_effects", "&mut HashMap<InjectType,Vec<Injection<'a>>>")
  (* D22 repair (8c3d137): the three id maps are passed on to fix_op_id_mapping (lookups only), side_effects gets one
     entry pushed through add_injection: no iteration over a HashMap *)
  ; ("src/ir/types.rs", "fn InstrumentationFlag::add_unresolved_injections", "func_mapping", "&HashMap<u32,u32>")
  ; ("src/ir/types.rs", "fn InstrumentationFlag::add_unresolved_injections", "global_mapping", "&HashMap<u32,u32>")
  ; ("src/ir/types.rs", "fn InstrumentationFlag::add_unresolved_injections", "memory_mapping", "&HashMap<u32,u32>")
  ; ("src/ir/types.rs", "fn InstrumentationFlag::add_unresolved_injections", "side_effects", "&mut HashMap<InjectType,Vec<Injection<'a>>>")
  (* D21 repair (6867bcc): the name maps are Vecs; `mapping` is only looked up (`mapping.get(idx)`) while iterating the
     Vec, and the result is sorted by the new index: independent of any HashMap order *)
  ; ("src/ir/wrappers.rs", "fn reindex_indirect_namemap", "mapping", "&HashMap<u32,u32>")
  ; ("src/ir/wrappers.rs", "fn reindex_namemap", "mapping", "&HashMap<u32,u32>")
  ; ("src/ir/wrappers.rs", "fn reindex_names", "mapping", "&HashMap<u32,u32>")
  ; ("src/ir/wrappers.rs", "fn update_fn_instr", "mapping", "&HashMap<u32,u32>")
  ; ("src/ir/wrappers.rs", "fn update_global_instr", "mapping", "&HashMap<u32,u32>")
  ; ("src/ir/wrappers.rs", "fn update_memory_instr", "mapping", "&HashMap<u32,u32>")
].

(* no clock, thread, environment, RandomState or pointer-cast use on the encode path *)
Definition other_sources_reviewed : list (string * string * string * string) := [].

Definition is_order_dependent (s : hstatus) : bool := match s with OrderDependent _ => true | _ => false end.
Definition order_dependent_classes : list N :=
  flat_map (fun p => match snd p with OrderDependent k => [k] | _ => [] end) hash_site_status.
