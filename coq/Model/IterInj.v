(* Iterator engine, injection half of C26: what an injection plan does to the modules of a component when it is
   issued through a ComponentIterator, and what it does when it is issued through one ModuleIterator per module.

   The injection-side trait methods of the two iterator types (Inject, InjectAt, Instrumenter,
   IteratingInstrumenter::add_global, AddLocal) are NOT written here by hand: the translator regenerates them from
   src/iterator/component_iterator.rs and src/iterator/module_iterator.rs on every check as two tables
   [GenIterInj.gen_comp_methods] / [gen_mod_methods] of normalised method bodies (see translator/src/iterinj.rs:
   `self.comp.modules[*mod_idx as usize]` and `self.module` both become MODULE, the module index disappears
   from locations, panic messages are dropped).  Every other public injection call (before(), after(), ...,
   block_alt(), the 200 opcode helpers, the macro opcodes) is a default method of a trait shared by both types,
   which reaches the module only through the methods of the table (gen_*_default_impls records that neither type
   overrides one).

   Model: the effect of one public injection call on the module the iterator stands in is a function
       api : table -> call -> (function id, instruction index of the current location) -> Module -> Module
   of the type's method table -- an ARBITRARY function: the theorems hold for every interpretation, so nothing
   about LocalFunction::add_instr etc. is assumed here (their behaviour is the subject of C15-C22).
   No proofs in this file. *)
From Coq Require Import List NArith Bool String.
Import ListNotations.
From Orca Require Import Iter.
Local Open Scope N_scope.

Definition method_entry := (string * string * string * string * list string)%type.
Definition method_table := list method_entry.

(* replace the element at position n by f of it (Vec index: comp.modules[mod_idx]) *)
Fixpoint upd {X : Type} (n : nat) (f : X -> X) (l : list X) : list X :=
  match l, n with
  | [], _ => []
  | x :: r, O => f x :: r
  | x :: r, S n' => x :: upd n' f r
  end.

Section Injection.
  Variable M : Type.                  (* wirm::Module *)
  Variable C : Type.                  (* one public injection call with its arguments (operator, mode, tag bytes, index, ..) *)
  Variable api : method_table -> C -> N -> N -> M -> M.

  (* the calls issued while the iterator stands at (function f, instruction i), in order *)
  Definition apply_calls (tbl : method_table) (cs : list C) (f i : N) (x : M) : M :=
    fold_left (fun x c => api tbl c f i x) cs x.

  (* ComponentIterator: every call reaches comp.modules[mod_idx] of the current location *)
  Definition visit_comp (tbl : method_table) (plan : N -> N -> N -> list C) (st : list M) (e : ev) : list M :=
    match e with
    | V m f i _ _ => upd (N.to_nat m) (apply_calls tbl (plan m f i) f i) st
    | _ => st
    end.
  Definition run_comp_plan (tbl : method_table) (metas : list meta) (skips : list (list N))
             (plan : N -> N -> N -> list C) (st : list M) : list M :=
    fold_left (visit_comp tbl plan) (ci_run metas skips None false) st.

  (* ModuleIterator on one module *)
  Definition visit_mod (tbl : method_table) (pl : N -> N -> list C) (x : M) (e : ev) : M :=
    match e with
    | V _ f i _ _ => apply_calls tbl (pl f i) f i x
    | _ => x
    end.
  Definition run_mod_plan (tbl : method_table) (mt : meta) (skip : list N) (pl : N -> N -> list C) (x : M) : M :=
    fold_left (visit_mod tbl pl) (mi_run mt skip None false) x.

  (* one ModuleIterator per module, module number m first, each with its own skip list and its part of the plan *)
  Fixpoint run_mods (tbl : method_table) (m : N) (metas : list meta) (skips : list (list N))
           (plan : N -> N -> N -> list C) (st : list M) : list M :=
    match metas, st with
    | mt :: r, x :: xs => run_mod_plan tbl mt (hd [] skips) (plan m) x :: run_mods tbl (m + 1) r (tl skips) plan xs
    | _, _ => st
    end.

  (* Component::encode encodes every module with Module::encode *)
  Variable B : Type.
  Variable enc : M -> B.
  Definition encode_modules (st : list M) : list B := map enc st.
End Injection.

(* decidable equality of method tables (what Props/C26.v evaluates on the generated tables) *)
Definition entry_eqb (a b : method_entry) : bool :=
  let '(t1, n1, l1, s1, a1) := a in let '(t2, n2, l2, s2, a2) := b in
  String.eqb t1 t2 && String.eqb n1 n2 && String.eqb l1 l2 && String.eqb s1 s2 &&
  (if list_eq_dec string_dec a1 a2 then true else false).
Fixpoint table_eqb (a b : method_table) : bool :=
  match a, b with
  | [], [] => true
  | x :: a', y :: b' => entry_eqb x y && table_eqb a' b'
  | _, _ => false
  end.
