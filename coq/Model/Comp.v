(* Component engine (C27): executable model of exactly the mechanism by which
   src/ir/component.rs parses a component (Component::parse_comp) and encodes it again
   (Component::encode_comp):

     - a component is a tree of sections; [stream] is the payload sequence that
       wasmparser's Parser::parse_all yields for it: the payloads of nested modules and nested
       components appear *inline* (a ModuleSection / ComponentSection payload, then the nested body's
       Version, its sections and its End), so every level has to skip what belongs to its children;
     - [parse] mirrors the loop of parse_comp: the per-level `stack` (only its length is ever
       inspected), "an End pops, then, while the stack is non-empty, the payload is skipped -- except that a
       ModuleSection / ComponentSection payload pushes" (the skipping loop follows the nesting of the inline
       payloads itself, so the End that closes the direct child is the one that empties the stack, whatever
       the child contains; nothing is pushed on a parent's stack), the run-length section log
       `sections : Vec<(count, kind)>` (add_to_sections), the per-kind item vectors, the component-name
       section which is consumed rather than logged;
     - [replay] mirrors encode_comp: the log is replayed with one cursor per kind, a start run emits
       `start_section[0]` once after asserting there is exactly one, and a freshly built component-name
       section is always appended.

   Item contents are opaque [N] tokens (raw bytes of the item, hash-consed by the harness); they go
   through RoundtripReencoder / wrappers.rs unchanged except for the arm of
   wrappers.rs::convert_component_type that encodes a payload-less `stream` as `future`: that arm is the
   table [sf] (token of a component-type item |-> token of the same item with every *nested*
   payload-less stream turned into a future), supplied per case by the harness.
   No proofs in this file. *)
From Coq Require Import List NArith Bool.
Import ListNotations.
Local Open Scope N_scope.

(* the eight section kinds whose sections are vectors of items ... *)
Inductive ikind := IAlias | ICoreType | ICompType | IImport | IExport | ICoreInst | ICompInst | ICanon.
(* ... and the twelve kinds of src/ir/section.rs::ComponentSection *)
Inductive kind := KItems (i : ikind) | KModule | KComponent | KCustom | KStart.

Definition ikind_code (i : ikind) : N :=
  match i with IAlias => 0 | ICoreType => 1 | ICompType => 2 | IImport => 3 | IExport => 4
             | ICoreInst => 5 | ICompInst => 6 | ICanon => 7 end.
Definition ikind_eqb (a b : ikind) : bool := ikind_code a =? ikind_code b.
Definition kind_eqb (a b : kind) : bool :=
  match a, b with
  | KItems i, KItems j => ikind_eqb i j
  | KModule, KModule | KComponent, KComponent | KCustom, KCustom | KStart, KStart => true
  | _, _ => false
  end.

(* A component body = list of nodes (its sections in binary order).  The tree of a component is the
   list of its top-level nodes; [NComp] is a nested component.
   [NMod tok customs]: a core module; [tok] stands for its whole content (printed text), [customs] are the
   tokens of the custom sections *inside* the module -- they are the only module-level payloads parse_comp
   would not ignore, so [stream] keeps them; on the output side [customs] is always []. *)
Inductive node :=
| NItems (k : ikind) (items : list N)
| NMod (tok : N) (customs : list N)
| NCustom (tok : N)
| NStart (tok : N)
| NNames (entries : list (N * N))      (* component-name section: (subsection kind, token of (index, name)) *)
| NComp (children : list node).

(* subsection kinds of the component-name section, numbered in the order encode_comp emits them:
   0 component, 1 core funcs, 2 core tables, 3 core memories, 4 core tags, 5 core globals, 6 core types,
   7 core modules, 8 core instances, 9 funcs, 10 values, 11 types, 12 components, 13 instances *)
Definition name_kinds : list N := [1; 2; 3; 4; 5; 6; 7; 8; 9; 10; 11; 12; 13].

(* ------------------------------------------------------------------------------------------ *)
(* what Parser::parse_all yields *)
Inductive payload :=
| PVersion
| PEnd
| PSec (k : ikind) (items : list N)
| PModule (tok : N) (customs : list N)     (* Payload::ModuleSection {parser, unchecked_range} *)
| PComponent (body : list node)            (* Payload::ComponentSection {parser, unchecked_range} *)
| PCustom (tok : N)
| PStart (tok : N)
| PNames (entries : list (N * N)).         (* Payload::CustomSection whose as_known() is ComponentName *)

Fixpoint stream_node (nd : node) : list payload :=
  match nd with
  | NItems k items => [PSec k items]
  | NMod tok cs => PModule tok cs :: PVersion :: map PCustom cs ++ [PEnd]
  | NCustom t => [PCustom t]
  | NStart t => [PStart t]
  | NNames es => [PNames es]
  | NComp cs => PComponent cs :: PVersion :: flat_map stream_node cs ++ [PEnd]
  end.
Definition stream (cs : list node) : list payload := PVersion :: flat_map stream_node cs ++ [PEnd].

(* the stream as numbers, for comparison with the payload sequence the real parser produced *)
Definition flat_entries (es : list (N * N)) : list N := flat_map (fun e => [fst e; snd e]) es.
Definition pcode (p : payload) : list N :=
  match p with
  | PVersion => [0]
  | PEnd => [1]
  | PSec k items => 2 :: ikind_code k :: N.of_nat (length items) :: items
  | PModule tok _ => [3; tok]
  | PComponent _ => [4]
  | PCustom t => [5; t]
  | PStart t => [6; t]
  | PNames es => 7 :: N.of_nat (length es) :: flat_entries es
  end.
Definition flatcode (ps : list payload) : list N := flat_map pcode ps.

(* ------------------------------------------------------------------------------------------ *)
(* the IR: struct Component *)
Record store := mkStore {
  s_alias : list N; s_coretype : list N; s_comptype : list N; s_import : list N;
  s_export : list N; s_coreinst : list N; s_compinst : list N; s_canon : list N }.
Definition empty_store := mkStore [] [] [] [] [] [] [] [].
Definition sget (s : store) (k : ikind) : list N :=
  match k with
  | IAlias => s_alias s | ICoreType => s_coretype s | ICompType => s_comptype s | IImport => s_import s
  | IExport => s_export s | ICoreInst => s_coreinst s | ICompInst => s_compinst s | ICanon => s_canon s
  end.
Definition sset (s : store) (k : ikind) (v : list N) : store :=
  match k with
  | IAlias => mkStore v (s_coretype s) (s_comptype s) (s_import s) (s_export s) (s_coreinst s) (s_compinst s) (s_canon s)
  | ICoreType => mkStore (s_alias s) v (s_comptype s) (s_import s) (s_export s) (s_coreinst s) (s_compinst s) (s_canon s)
  | ICompType => mkStore (s_alias s) (s_coretype s) v (s_import s) (s_export s) (s_coreinst s) (s_compinst s) (s_canon s)
  | IImport => mkStore (s_alias s) (s_coretype s) (s_comptype s) v (s_export s) (s_coreinst s) (s_compinst s) (s_canon s)
  | IExport => mkStore (s_alias s) (s_coretype s) (s_comptype s) (s_import s) v (s_coreinst s) (s_compinst s) (s_canon s)
  | ICoreInst => mkStore (s_alias s) (s_coretype s) (s_comptype s) (s_import s) (s_export s) v (s_compinst s) (s_canon s)
  | ICompInst => mkStore (s_alias s) (s_coretype s) (s_comptype s) (s_import s) (s_export s) (s_coreinst s) v (s_canon s)
  | ICanon => mkStore (s_alias s) (s_coretype s) (s_comptype s) (s_import s) (s_export s) (s_coreinst s) (s_compinst s) v
  end.

Inductive ir :=
  IR (log : list (N * kind))          (* sections : Vec<(u32, ComponentSection)> *)
     (items : store)                  (* alias, core_types, component_types, imports, exports, instances, component_instance, canons *)
     (mods : list N)                  (* modules (each stands for a parsed Module) *)
     (comps : list ir)                (* components *)
     (customs : list N)               (* custom_sections *)
     (starts : list N)                (* start_section *)
     (cname : option N)               (* component_name *)
     (names : list (N * N)).          (* the thirteen name maps, entries in arrival order tagged with their map *)
Definition empty_ir := IR [] empty_store [] [] [] [] None [].

(* Component::add_to_sections: extend the last run if it has the same kind, else push *)
Fixpoint log_add (log : list (N * kind)) (n : N) (k : kind) : list (N * kind) :=
  match log with
  | [] => [(n, k)]
  | (c, k') :: [] => if kind_eqb k' k then [(c + n, k')] else [(c, k'); (n, k)]
  | e :: rest => e :: log_add rest n k
  end.

Definition add_items (a : ir) (k : ikind) (its : list N) : ir :=
  match a with IR log st mods comps customs starts cname names =>
    IR (log_add log (N.of_nat (length its)) (KItems k)) (sset st k (sget st k ++ its)) mods comps customs starts cname names end.
Definition add_mod (a : ir) (m : N) : ir :=
  match a with IR log st mods comps customs starts cname names =>
    IR (log_add log 1 KModule) st (mods ++ [m]) comps customs starts cname names end.
Definition add_comp (a : ir) (c : ir) : ir :=
  match a with IR log st mods comps customs starts cname names =>
    IR (log_add log 1 KComponent) st mods (comps ++ [c]) customs starts cname names end.
Definition add_custom (a : ir) (t : N) : ir :=
  match a with IR log st mods comps customs starts cname names =>
    IR (log_add log 1 KCustom) st mods comps (customs ++ [t]) starts cname names end.
Definition add_start (a : ir) (t : N) : ir :=
  match a with IR log st mods comps customs starts cname names =>
    IR (log_add log 1 KStart) st mods comps customs (starts ++ [t]) cname names end.
(* the component-name section is consumed, not logged: `component_name = Some(..)` overwrites, every other
   subsection is appended to its name map (add_to_namemap) *)
Definition add_name (a : ir) (e : N * N) : ir :=
  match a with IR log st mods comps customs starts cname names =>
    if fst e =? 0 then IR log st mods comps customs starts (Some (snd e)) names
    else IR log st mods comps customs starts cname (names ++ [e]) end.
Definition add_names (a : ir) (es : list (N * N)) : ir := fold_left add_name es a.

(* ------------------------------------------------------------------------------------------ *)
(* parse_comp.  State of the loop: (length of this level's `stack`, the vectors collected so far).  [nested] is the
   recursive call of parse_comp on the byte range of a nested component: it returns the nested IR. *)
Definition pstate := (N * ir)%type.

Definition step (nested : list payload -> ir) (st : pstate) (p : payload) : pstate :=
  let '(stack, a) := st in
  (* if let Payload::End(..) = payload { if !stack.is_empty() { stack.pop(); } } *)
  let stack := match p with PEnd => N.pred stack | _ => stack end in
  if negb (stack =? 0)
  then
    (* if !stack.is_empty() { match payload { ModuleSection => stack.push(Module),
                                               ComponentSection => stack.push(Component), _ => {} } continue; } *)
    match p with
    | PModule _ _ | PComponent _ => (stack + 1, a)
    | _ => (stack, a)
    end
  else match p with
       | PSec k its => (0, add_items a k its)
       | PModule tok _ =>
           (* stack.push(Module); modules.push(Module::parse_internal(..)) *)
           (1, add_mod a tok)
       | PComponent body =>
           (* stack.push(Component); components.push(parse_comp(nested_section(..), ..)) *)
           (1, add_comp a (nested (stream body)))
       | PCustom t => (0, add_custom a t)
       | PStart t => (0, add_start a t)
       | PNames es => (0, add_names a es)
       | PVersion | PEnd => (0, a)
       end.

Definition init_state : pstate := (0, empty_ir).

(* fuel = nesting depth still allowed (the recursion of parse_comp is on the nested byte range) *)
Fixpoint parse_fuel (fuel : nat) (ps : list payload) : ir :=
  match fuel with
  | O => empty_ir
  | S f => snd (fold_left (step (parse_fuel f)) ps init_state)
  end.

Fixpoint depth_node (nd : node) : nat :=
  match nd with
  | NComp cs => S (fold_right (fun c d => Nat.max (depth_node c) d) O cs)
  | NMod _ _ => 1
  | _ => O
  end.
Definition depth (cs : list node) : nat := fold_right (fun c d => Nat.max (depth_node c) d) O cs.

(* Component::parse *)
Definition parse (cs : list node) : ir := parse_fuel (S (depth cs)) (stream cs).

(* ------------------------------------------------------------------------------------------ *)
(* encode_comp *)
Definition sf_apply (sf : list (N * N)) (t : N) : N :=
  match find (fun e => fst e =? t) sf with Some e => snd e | None => t end.
(* what the re-encoding of one item yields: only component-type items meet wrappers.rs::convert_component_type *)
Definition reencode_item (sf : list (N * N)) (k : ikind) (t : N) : N :=
  match k with ICompType => sf_apply sf t | _ => t end.

(* remaining (not yet replayed) parts of the vectors = the `last_processed_*` cursors *)
Record rstate := mkR {
  r_items : store; r_mods : list N; r_comps : list (option (list node)); r_customs : list N }.

Definition all_some {A} (l : list (option A)) : option (list A) :=
  fold_right (fun o acc => match o, acc with Some x, Some r => Some (x :: r) | _, _ => None end) (Some []) l.

(* one (num, section) entry of the log; None = a panic (assert!/index out of bounds) *)
Definition replay_entry (sf : list (N * N)) (starts : list N) (e : N * kind) (r : rstate) : option (list node * rstate) :=
  let n := N.to_nat (fst e) in
  match snd e with
  | KItems k =>
      let v := sget (r_items r) k in
      if Nat.leb n (length v)
      then Some ([NItems k (map (reencode_item sf k) (firstn n v))],
                 mkR (sset (r_items r) k (skipn n v)) (r_mods r) (r_comps r) (r_customs r))
      else None
  | KModule =>
      if Nat.leb n (length (r_mods r))
      then Some (map (fun m => NMod m []) (firstn n (r_mods r)),
                 mkR (r_items r) (skipn n (r_mods r)) (r_comps r) (r_customs r))
      else None
  | KComponent =>
      if Nat.leb n (length (r_comps r))
      then match all_some (firstn n (r_comps r)) with
           | Some cs => Some (map NComp cs, mkR (r_items r) (r_mods r) (skipn n (r_comps r)) (r_customs r))
           | None => None          (* the nested encode_comp panicked *)
           end
      else None
  | KCustom =>
      if Nat.leb n (length (r_customs r))
      then Some (map NCustom (firstn n (r_customs r)),
                 mkR (r_items r) (r_mods r) (r_comps r) (skipn n (r_customs r)))
      else None
  | KStart =>
      (* assert_eq!(self.start_section.len(), 1); one section per *run*, always start_section[0] *)
      match starts with
      | [s] => Some ([NStart s], r)
      | _ => None
      end
  end.

Fixpoint replay_run (sf : list (N * N)) (starts : list N) (log : list (N * kind)) (r : rstate) : option (list node * rstate) :=
  match log with
  | [] => Some ([], r)
  | e :: rest =>
      match replay_entry sf starts e r with
      | Some (out, r') =>
          match replay_run sf starts rest r' with
          | Some (out', r'') => Some (out ++ out', r'')
          | None => None
          end
      | None => None
      end
  end.

(* the thirteen name maps are written in a fixed order after the optional component name *)
Definition names_out (cname : option N) (names : list (N * N)) : list (N * N) :=
  (match cname with Some c => [(0, c)] | None => [] end)
  ++ flat_map (fun k => filter (fun e => fst e =? k) names) name_kinds.

Fixpoint replay (sf : list (N * N)) (i : ir) : option (list node) :=
  match i with
  | IR log st mods comps customs starts cname names =>
      match replay_run sf starts log (mkR st mods (map (replay sf) comps) customs) with
      | Some (secs, _) => Some (secs ++ [NNames (names_out cname names)])
      | None => None
      end
  end.

(* Component::parse(bytes).encode() on the tree level *)
Definition roundtrip (sf : list (N * N)) (cs : list node) : option (list node) := replay sf (parse cs).
