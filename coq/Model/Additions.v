(* Model of the module-level additions (C30): add_global / add_imported_global / ModuleIterator::add_global,
   add_local_memory / add_import_memory, add_data, exports.add_export_func / add_export_mem / exports.delete,
   mod_global_init_expr, and of the emission of the global, memory, export and data sections plus
   InitExpr::to_wasmencoder_type (mod.rs:1344-1470, 1685-1741, 1778-2161; types.rs:1580-1601, 1672-1834).
   The three index spaces, the import list and recalculate_ids are those of Model/Reindex.v; every entity
   carries the fingerprint [it_fp], which is the key of the payload tables kept here. *)
From Coq Require Import List NArith ZArith Bool.
Import ListNotations.
From Orca Require Import Wrap Reindex.
Local Open Scope N_scope.

(* ---------- requests ---------- *)
(* Value: i32 / i64 as the signed Rust value, f32 / f64 as their bit pattern, v128 as the u128 *)
Inductive value := VI32 (z : Z) | VI64 (z : Z) | VF32 (bits : Z) | VF64 (bits : Z) | VV128 (u : Z).
(* InitInstr (the four forms the generator uses); heap types are codes *)
Inductive iinstr := IVal (v : value) | IGlobal (g : N) | IRefFunc (f : N) | IRefNull (ht : N).
Definition init := list iinstr.

(* value types are codes: 0 i32 1 i64 2 f32 3 f64 4 v128 5 (ref null func) 6 (ref null extern) 7 (ref func)
   8 (ref extern) 9.. other abstract reference types; 20 / 21 = DataType::I8 / I16 *)
Record gty := mkGT { gt_ty : N; gt_mut : bool; gt_shared : bool }.
Record mty := mkMT { mt_64 : bool; mt_shared : bool; mt_init : N; mt_max : option N; mt_psl : option N }.
Inductive dseg := DPassive (bytes : list N) | DActive (mem : N) (off : init) (bytes : list N).
Record expo := mkEx { ex_name : N; ex_kind : N; ex_idx : N; ex_del : bool }.   (* kind: 0 func 1 global 2 memory 3 table 4 tag *)

(* ---------- what the decoder of the output sees ---------- *)
(* one operator of a constant expression as wasmparser reads it: i32 / i64 signed, f32 / f64 bits,
   v128 as the i128 [V128::i128()] returns, indices, heap type code *)
Inductive cop := CI32 (z : Z) | CI64 (z : Z) | CF32 (bits : Z) | CF64 (bits : Z) | CV128 (z : Z)
               | CGlobalGet (q : N) | CRefFunc (q : N) | CRefNull (ht : N) | COther (t : N).
Record oglobal := mkOG { og_ty : gty; og_init : list cop }.
Inductive odseg := OPassive (bytes : list N) | OActive (mem : N) (off : list cop) (bytes : list N).
Inductive idesc := IDNone | IDGlobal (t : gty) | IDMem (t : mty).
Record oimp := mkOI { oi_kind : N; oi_fp : N; oi_desc : idesc }.
Record aobs := mkO {
  ob_imports : list oimp;                   (* import section order; fp = the token of the import's name *)
  ob_funcs : list N;                        (* fingerprints of the local functions, code order *)
  ob_globals : list oglobal; ob_mems : list mty; ob_data : list odseg;
  ob_exports : list (N * N * N);            (* name token, kind, index *)
  ob_sites : list (N * N);                  (* probe number, emitted index *)
  ob_dcount : option N }.                   (* value of the data count section *)

(* ---------- InitExpr::to_wasmencoder_type, read back ---------- *)
Definition enc_value (v : value) : cop :=
  match v with
  | VI32 z => CI32 z | VI64 z => CI64 z
  | VF32 b => CF32 b | VF64 b => CF64 b             (* Ieee32::from(f32) = to_bits *)
  | VV128 u => CV128 (wrap_s128 u)                  (* V128Const( *v as i128 ) *)
  end.
Definition enc_instr (i : iinstr) : cop :=
  match i with
  | IVal v => enc_value v
  | IGlobal g => CGlobalGet g
  | IRefFunc f => CRefFunc f
  | IRefNull ht => CRefNull ht
  end.
Definition enc_init (e : init) : list cop := map enc_instr e.

(* InitInstr::fix_id_mapping *)
Definition fix_instr (mf mg : list (N * N)) (i : iinstr) : res iinstr :=
  match i with
  | IGlobal g => match lookup mg g with Some q => Ok (IGlobal q) | None => Panic 51 end   (* "Deleted global!" *)
  | IRefFunc f => match lookup mf f with Some q => Ok (IRefFunc q) | None => Panic 52 end (* "Deleted function!" *)
  | _ => Ok i
  end.
Fixpoint fix_init (mf mg : list (N * N)) (e : init) : res init :=
  match e with
  | [] => Ok []
  | i :: e' => match fix_instr mf mg i with
               | Panic w => Panic w
               | Ok i' => match fix_init mf mg e' with Panic w => Panic w | Ok r => Ok (i' :: r) end
               end
  end.

(* wasmparser::ValType::from(&DataType): every value type is kept (FuncRef / ExternRef are the non-nullable
   (ref func) / (ref extern) since the repair of D30; they used to become funcref / externref), I8 / I16 panic *)
Definition ty_conv (t : N) : res N :=
  if N.eqb t 20 || N.eqb t 21 then Panic 60 else Ok t.
Definition gty_conv (t : gty) : res gty :=
  match ty_conv (gt_ty t) with Ok c => Ok (mkGT c (gt_mut t) (gt_shared t)) | Panic w => Panic w end.

(* ---------- state ---------- *)
Record gpay := mkGP { gp_ty : gty; gp_init : option init }.     (* None: imported *)
Record astate := mkA {
  a_m : mst;
  a_gpay : list (N * gpay);          (* fingerprint -> stored GlobalType and initialiser *)
  a_mpay : list (N * mty);           (* fingerprint -> MemoryType *)
  a_data : list dseg;
  a_exports : list expo }.

Fixpoint plookup {A} (t : list (N * A)) (k : N) : option A :=
  match t with [] => None | (k', v) :: t' => if N.eqb k k' then Some v else plookup t' k end.
Definition pset {A} (t : list (N * A)) (k : N) (v : A) : list (N * A) :=
  (k, v) :: filter (fun kv => negb (N.eqb (fst kv) k)) t.

Inductive aop :=
| OAddGlobal (fp : N) (t : gty) (e : init)        (* Module::add_global *)
| OAddImpGlobal (fp : N) (t : gty)                (* Module::add_imported_global *)
| OItAddGlobal (fp : N) (t : gty) (e : init)      (* ModuleIterator::add_global (the GlobalType is passed as is) *)
| OAddMem (fp : N) (t : mty)                      (* add_local_memory *)
| OAddImpMem (fp : N) (t : mty)                   (* add_import_memory *)
| OAddImpFunc (fp : N)                            (* add_import_func *)
| OAddData (d : dseg)                             (* add_data *)
| OAddExport (kind : N) (name : N) (id : N)       (* exports.add_export_func (0) / add_export_mem (2) *)
| ODelExport (k : N)                              (* exports.delete *)
| OModInit (g : N) (e : init)                     (* mod_global_init_expr *)
| ODelete (s : sp) (id : N).                      (* delete_func / delete_global / delete_memory *)

Definition with_m (s : astate) (m : mst) := mkA m (a_gpay s) (a_mpay s) (a_data s) (a_exports s).
Definition with_g (s : astate) (m : mst) (fp : N) (p : gpay) :=
  mkA m ((fp, p) :: a_gpay s) (a_mpay s) (a_data s) (a_exports s).
Definition with_mem (s : astate) (m : mst) (fp : N) (t : mty) :=
  mkA m (a_gpay s) ((fp, t) :: a_mpay s) (a_data s) (a_exports s).

Definition set_exdel (e : expo) := mkEx (ex_name e) (ex_kind e) (ex_idx e) true.

Definition astep (s : astate) (o : aop) : res (astate * option N) :=
  match o with
  | OAddGlobal fp t e =>
      match gty_conv t with
      | Panic w => Panic w
      | Ok t' => match step (a_m s) (AddLocal SG fp) with
                 | Ok (m, r) => Ok (with_g s m fp (mkGP t' (Some e)), r)
                 | Panic w => Panic w
                 end
      end
  | OAddImpGlobal fp t =>
      match gty_conv t with
      | Panic w => Panic w
      | Ok t' => match step (a_m s) (AddImport SG fp) with
                 | Ok (m, r) => Ok (with_g s m fp (mkGP t' None), r)
                 | Panic w => Panic w
                 end
      end
  | OItAddGlobal fp t e =>
      match step (a_m s) (ItAddGlobal fp) with
      | Ok (m, r) => Ok (with_g s m fp (mkGP t (Some e)), r)
      | Panic w => Panic w
      end
  | OAddMem fp t =>
      match step (a_m s) (AddLocal SM fp) with
      | Ok (m, r) => Ok (with_mem s m fp t, r)
      | Panic w => Panic w
      end
  | OAddImpMem fp t =>
      match step (a_m s) (AddImport SM fp) with
      | Ok (m, r) => Ok (with_mem s m fp t, r)
      | Panic w => Panic w
      end
  | OAddImpFunc fp =>
      match step (a_m s) (AddImport SF fp) with
      | Ok (m, r) => Ok (with_m s m, r)
      | Panic w => Panic w
      end
  | OAddData d =>
      Ok (mkA (a_m s) (a_gpay s) (a_mpay s) (a_data s ++ [d]) (a_exports s), Some (lenN (a_data s)))
  | OAddExport k name id =>
      Ok (mkA (a_m s) (a_gpay s) (a_mpay s) (a_data s) (a_exports s ++ [mkEx name k id false]), None)
  | ODelExport k =>
      if k <? lenN (a_exports s)
      then Ok (mkA (a_m s) (a_gpay s) (a_mpay s) (a_data s) (updN k set_exdel (a_exports s)), None)
      else Panic 8                                   (* exports[id]: index out of bounds *)
  | OModInit g e =>
      (* ModuleGlobals::mod_global_init_expr: globals.get_mut(id) must be a local global (deleted or not) *)
      match nthN (s_items (m_g (a_m s))) g with
      | Some it =>
          if is_local it then
            match plookup (a_gpay s) (it_fp it) with
            | Some p => Ok (mkA (a_m s) (pset (a_gpay s) (it_fp it) (mkGP (gp_ty p) (Some e))) (a_mpay s) (a_data s) (a_exports s), None)
            | None => Panic 70
            end
          else Panic 9                               (* "Cannot update requested global's init_expr" *)
      | None => Panic 9
      end
  | ODelete x id =>
      match step (a_m s) (Delete x id) with
      | Ok (m, r) => Ok (with_m s m, r)
      | Panic w => Panic w
      end
  end.

(* run as far as the implementation got; true = an API call panicked there *)
Fixpoint arun (s : astate) (h : list aop) (rets : list (option N)) : astate * list (option N) * bool :=
  match h with
  | [] => (s, rets, false)
  | o :: h' => match astep s o with
               | Ok (s', r) => arun s' h' (rets ++ [r])
               | Panic _ => (s, rets, true)
               end
  end.

(* ---------- emission ---------- *)
Fixpoint rmap {A B} (f : A -> res B) (l : list A) : res (list B) :=
  match l with
  | [] => Ok []
  | x :: l' => match f x with
               | Panic w => Panic w
               | Ok y => match rmap f l' with Panic w => Panic w | Ok r => Ok (y :: r) end
               end
  end.

Definition emit_global (gp : list (N * gpay)) (mf mg : list (N * N)) (it : item) : res oglobal :=
  match plookup gp (it_fp it) with
  | Some (mkGP t (Some e)) =>
      match fix_init mf mg e with Ok e' => Ok (mkOG t (enc_init e')) | Panic w => Panic w end
  | _ => Panic 70
  end.
Definition emit_mem (mp : list (N * mty)) (it : item) : res mty :=
  match plookup mp (it_fp it) with Some t => Ok t | None => Panic 71 end.
Definition emit_data (mf mg mm : list (N * N)) (d : dseg) : res odseg :=
  match d with
  | DPassive b => Ok (OPassive b)
  | DActive mem off b =>
      match fix_init mf mg off with
      | Panic w => Panic w
      | Ok off' => match lookup mm mem with
                   | Some q => Ok (OActive q (enc_init off') b)
                   | None => Panic 53            (* "Attempting to reference a deleted memory" *)
                   end
      end
  end.
Definition emit_export (mf mg mm : list (N * N)) (e : expo) : res (N * N * N) :=
  if N.eqb (ex_kind e) 0 then
    match lookup mf (ex_idx e) with Some q => Ok (ex_name e, 0, q) | None => Panic 54 end   (* unwrap *)
  else if N.eqb (ex_kind e) 1 then
    match lookup mg (ex_idx e) with Some q => Ok (ex_name e, 1, q) | None => Panic 56 end   (* since the repair of D03 *)
  else if N.eqb (ex_kind e) 2 then
    match lookup mm (ex_idx e) with Some q => Ok (ex_name e, 2, q) | None => Panic 55 end
  else Ok (ex_name e, ex_kind e, ex_idx e).                                                (* tables, tags: copied *)
Definition emit_imp (s : astate) (i : imp) : res oimp :=
  if N.eqb (i_sp i) 1 then
    match plookup (a_gpay s) (i_fp i) with Some p => Ok (mkOI 1 (i_fp i) (IDGlobal (gp_ty p))) | None => Panic 72 end
  else if N.eqb (i_sp i) 2 then
    match plookup (a_mpay s) (i_fp i) with Some t => Ok (mkOI 2 (i_fp i) (IDMem t)) | None => Panic 73 end
  else Ok (mkOI (i_sp i) (i_fp i) IDNone).
(* an injected `global.get id` / `memory.size id` / `call id` of the probe function *)
Definition emit_site (mf mg mm : list (N * N)) (ns : N * (sp * N)) : res (N * N) :=
  let '(n, (x, id)) := ns in
  match lookup (match x with SF => mf | SG => mg | SM => mm end) id with
  | Some q => Ok (n, q)
  | None => Panic 50
  end.
Fixpoint numberN {A} (n : N) (l : list A) : list (N * A) :=
  match l with [] => [] | x :: l' => (n, x) :: numberN (n + 1) l' end.

Definition aencode (s : astate) (dcount : bool) (sites : list (sp * N)) : res aobs :=
  match index_space (m_f (a_m s)), index_space (m_g (a_m s)), index_space (m_m (a_m s)) with
  | Ok (lf, mf), Ok (lg, mg), Ok (lm, mm) =>
      match rmap (emit_imp s) (filter (fun i => negb (i_del i)) (m_imports (a_m s))),
            rmap (emit_global (a_gpay s) mf mg) (filter (fun i => is_local i && negb (it_del i)) lg),
            rmap (emit_mem (a_mpay s)) (filter is_local lm),
            rmap (emit_data mf mg mm) (a_data s),
            rmap (emit_export mf mg mm) (filter (fun e => negb (ex_del e)) (a_exports s)),
            rmap (emit_site mf mg mm) (numberN 0 sites) with
      | Ok oi, Ok og, Ok om, Ok od, Ok oe, Ok os =>
          Ok (mkO oi (emitted_locals lf true) og om od oe os
                  (if dcount then Some (lenN (a_data s)) else None))
      | Panic w, _, _, _, _, _ | _, Panic w, _, _, _, _ | _, _, Panic w, _, _, _
      | _, _, _, Panic w, _, _ | _, _, _, _, Panic w, _ | _, _, _, _, _, Panic w => Panic w
      end
  | Panic w, _, _ | _, Panic w, _ | _, _, Panic w => Panic w
  end.
