(* Literal mirror of Module::resolve_special_instrumentation (mod.rs:648-977) and of the code
   emission loop (mod.rs:1580-1670).  Prototype for /verif/coq/Model/{Lowering,Emit}.v *)
From Coq Require Import List NArith ZArith Bool Lia.
Import ListNotations.
From Orca Require Import Flat.

(* ---------- locals (add_local, module_functions.rs:255) ---------- *)
Definition TY_I32 : N := 0%N.
Record locals := mkLocals { nparams : N; num_locals : N; groups : list (N * N) }.  (* (count, type) *)

Fixpoint bump_last (ty : N) (g : list (N * N)) : list (N * N) :=
  match g with
  | [] => [(1%N, ty)]
  | [(c, t)] => if N.eqb t ty then [((c + 1)%N, t)] else [(c, t); (1%N, ty)]
  | x :: g' => x :: bump_last ty g'
  end.
Definition add_local (ty : N) (l : locals) : N * locals :=
  ((nparams l + num_locals l)%N, mkLocals (nparams l) (num_locals l + 1)%N (bump_last ty (groups l))).

(* ---------- pending bodies ---------- *)
Record pend := mkPend { p_flagged : list (list fop * N); p_not : list (list fop) }.
Definition pend0 := mkPend [] [].
Record pend2 := mkPend2 { pb : pend; pa : pend }.   (* mode Before / mode After *)
Definition pend20 := mkPend2 pend0 pend0.

Fixpoint ron_get (k : nat) (m : list (nat * pend2)) : option pend2 :=
  match m with [] => None | (k', v) :: m' => if Nat.eqb k k' then Some v else ron_get k m' end.
Fixpoint ron_remove (k : nat) (m : list (nat * pend2)) : list (nat * pend2) :=
  match m with [] => [] | (k', v) :: m' => if Nat.eqb k k' then m' else (k', v) :: ron_remove k m' end.
Definition ron_upd (k : nat) (f : pend2 -> pend2) (m : list (nat * pend2)) : list (nat * pend2) :=
  match ron_get k m with
  | Some v => (k, f v) :: ron_remove k m
  | None => (k, f pend20) :: m
  end.

Definition add_not (b : list fop) (p : pend) := mkPend (p_flagged p) (p_not p ++ [b]).
Definition add_flagged (b : list fop) (fl : N) (p : pend) := mkPend (p_flagged p ++ [(b, fl)]) (p_not p).

(* resolve_bodies (mod.rs:2633) *)
Fixpoint chain (first : bool) (l : list (list fop * N)) : list fop :=
  match l with
  | [] => []
  | (b, fl) :: l' =>
      (if first then [FLocalGet fl; FIf BtEmpty] ++ b
       else [FElse; FLocalGet fl; FIf BtEmpty] ++ b ++ [FEnd]) ++ chain false l'
  end.
Definition bodies (p : pend) : list fop :=
  chain true (p_flagged p) ++ (if is_nil (p_flagged p) then [] else [FEnd]) ++ concat (p_not p).

(* ---------- working flags helpers ---------- *)
Definition w_before (x : list fop) (f : flags) :=
  mkFlags (f_before f ++ x) (f_after f) (f_alt f) (f_sa f) (f_be f) (f_bx f) (f_balt f).
Definition w_after (x : list fop) (f : flags) :=
  mkFlags (f_before f) (f_after f ++ x) (f_alt f) (f_sa f) (f_be f) (f_bx f) (f_balt f).
Definition w_alt_inject (x : list fop) (f : flags) :=   (* alternate_at + inject_all (x non-empty) *)
  mkFlags (f_before f) (f_after f) (Some (match f_alt f with None => x | Some a => a ++ x end))
          (f_sa f) (f_be f) (f_bx f) (f_balt f).
Definition w_alt_empty (f : flags) :=                    (* empty_alternate_at *)
  mkFlags (f_before f) (f_after f) (Some []) (f_sa f) (f_be f) (f_bx f) (f_balt f).
Definition w_clear_sa (f : flags) := mkFlags (f_before f) (f_after f) (f_alt f) [] (f_be f) (f_bx f) (f_balt f).
Definition w_clear_be (f : flags) := mkFlags (f_before f) (f_after f) (f_alt f) (f_sa f) [] (f_bx f) (f_balt f).
Definition w_clear_bx (f : flags) := mkFlags (f_before f) (f_after f) (f_alt f) (f_sa f) (f_be f) [] (f_balt f).
Definition w_clear_balt (f : flags) := mkFlags (f_before f) (f_after f) (f_alt f) (f_sa f) (f_be f) (f_bx f) None.
(* clear_special_instr: clear_instr_at for SemanticAfter, BlockEntry, BlockExit, BlockAlt *)
Definition w_clear_special (f : flags) := w_clear_balt (w_clear_bx (w_clear_be (w_clear_sa f))).
(* delete_instr: empty_alternate_at, then clear_special_instr *)
Definition w_delete (f : flags) := w_clear_special (w_alt_empty f).

(* ---------- resolution state ---------- *)
Record rstate := mkR {
  r_entry : list fop; r_exit : list fop;
  r_stack : list nat;            (* block_stack, top = last element; we keep it reversed: head = top *)
  r_del : option nat; r_retain : bool;
  r_roe : list (nat * pend2);    (* resolve_on_else_or_end, keyed by the block id of the `if` that waits (like r_ron) *)
  r_ron : list (nat * pend2);
  r_loc : locals }.

Definition top (s : list nat) : nat := hd 0 s.

Definition set_del d (st : rstate) := mkR (r_entry st) (r_exit st) (r_stack st) d (r_retain st) (r_roe st) (r_ron st) (r_loc st).
Definition set_retain b (st : rstate) := mkR (r_entry st) (r_exit st) (r_stack st) (r_del st) b (r_roe st) (r_ron st) (r_loc st).
Definition set_stack s (st : rstate) := mkR (r_entry st) (r_exit st) s (r_del st) (r_retain st) (r_roe st) (r_ron st) (r_loc st).
Definition set_ron m (st : rstate) := mkR (r_entry st) (r_exit st) (r_stack st) (r_del st) (r_retain st) (r_roe st) m (r_loc st).
Definition set_roe m (st : rstate) := mkR (r_entry st) (r_exit st) (r_stack st) (r_del st) (r_retain st) m (r_ron st) (r_loc st).
Definition set_loc l (st : rstate) := mkR (r_entry st) (r_exit st) (r_stack st) (r_del st) (r_retain st) (r_roe st) (r_ron st) l.
Definition set_entry e (st : rstate) := mkR e (r_exit st) (r_stack st) (r_del st) (r_retain st) (r_roe st) (r_ron st) (r_loc st).
Definition set_exit e (st : rstate) := mkR (r_entry st) e (r_stack st) (r_del st) (r_retain st) (r_roe st) (r_ron st) (r_loc st).

(* block-alt handling shared by the opener and the else case; returns Some (st', w') when the
   instruction is finished (the Rust `continue`), None to fall through *)
Definition block_alt_case (is_else : bool) (orig : flags) (st : rstate) (w : flags) : option (rstate * flags) :=
  match f_balt orig, r_del st with
  | Some alt, None =>
      let w1 := if is_nil alt then w_alt_empty w else w_alt_inject alt w in
      (* the replaced opener drops its block-alt and every other special mode it carries *)
      let w2 := w_clear_special w1 in
      Some (set_del (Some (top (r_stack st))) (set_retain is_else st), w2)
  | _, Some _ => Some (st, w_delete w)
  | None, None => None
  end.

(* step 4: instruction-level special flags (mod.rs:909-973) *)
Definition flag_stage (op : fop) (orig : flags) (st : rstate) (w : flags) : rstate * flags :=
  if negb (has_instr orig) then (st, w) else
  (* block entry *)
  let '(st, w) :=
    if is_nil (f_be orig) then (st, w)
    else ((st, w_clear_be (if is_block_style op then w_after (f_be orig) w else w))) in
  (* block exit *)
  let '(st, w) :=
    if is_nil (f_bx orig) then (st, w)
    else
      let st' :=
        match op with
        | FIf _ =>
            set_roe (ron_upd (top (r_stack st)) (fun p => mkPend2 (add_not (f_bx orig) (pb p)) (pa p)) (r_roe st)) st
        | FBlock _ | FLoop _ | FElse =>
            set_ron (ron_upd (top (r_stack st)) (fun p => mkPend2 (add_not (f_bx orig) (pb p)) (pa p)) (r_ron st)) st
        | _ => st
        end in
      (st', w_clear_bx w) in
  (* semantic after *)
  if is_nil (f_sa orig) then (st, w)
  else
    let sa := f_sa orig in
    let reg_flag (st : rstate) (fl : N) (depth : nat) : rstate :=
      set_ron (ron_upd (top (r_stack st) - depth)
                       (fun p => mkPend2 (pb p) (add_flagged sa fl (pa p))) (r_ron st)) st in
    let mk_flag (cond : bool) (st : rstate) (w : flags) : N * rstate * flags :=
      let '(fl, l') := add_local TY_I32 (r_loc st) in
      (fl, set_loc l' st,
       w_after ([FConst 0; FLocalSet fl] ++ (if cond then sa else []))
               (w_before [FConst 1; FLocalSet fl] w)) in
    match op with
    | FBlock _ | FLoop _ | FIf _ | FElse =>
        (set_ron (ron_upd (top (r_stack st)) (fun p => mkPend2 (pb p) (add_not sa (pa p))) (r_ron st)) st,
         w_clear_sa w)
    | FBrTable ts d =>
        let '(fl, st1, w1) := mk_flag false st w in
        let st2 := fold_left (fun s t => reg_flag s fl t) ts st1 in
        (reg_flag st2 fl d, w_clear_sa w1)
    | FBr n =>
        let '(fl, st1, w1) := mk_flag false st w in (reg_flag st1 fl n, w_clear_sa w1)
    | FBrIf n | FBrOn n _ =>
        let '(fl, st1, w1) := mk_flag true st w in (reg_flag st1 fl n, w_clear_sa w1)
    | _ => (st, w_clear_sa w)
    end.

Definition resolve_pend2 (p : pend2) (w : flags) : flags :=
  let w1 := w_before (bodies (pb p)) w in
  w_after (bodies (pa p)) w1.
(* note: resolve_bodies is only called for the modes present in the map; an absent mode adds nothing,
   and `bodies pend0 = []`, so appending the empty list is the same *)

(* resolve_on_else_or_end.remove(&block_id), then resolve_bodies for every mode of the removed entry
   (only plan_resolution_block_exit on an `if` writes this map, always under the mode Before) *)
Definition resolve_roe (k : nat) (st : rstate) (w : flags) : rstate * flags :=
  match ron_get k (r_roe st) with
  | Some p => (set_roe (ron_remove k (r_roe st)) st, resolve_pend2 p w)
  | None => (st, w)
  end.

(* one instruction *)
Definition rstep (last : nat) (idx : nat) (op : fop) (orig : flags) (st : rstate) : rstate * flags :=
  let w := orig in
  (* 1: function entry *)
  let '(st, w) :=
    if negb (is_nil (r_entry st)) && Nat.eqb idx 0
    then (set_entry [] st, w_before (r_entry st) w) else (st, w) in
  (* 2: function exit *)
  let '(st, w) :=
    if is_nil (r_exit st) then (st, w)
    else if is_exit_op op then (st, w_before (r_exit st) w)
    else if Nat.eqb idx last then (set_exit [] st, w_before ([FEnd] ++ r_exit st) w)
    else (st, w) in
  (* 3: structure *)
  match op with
  | FBlock _ | FLoop _ | FIf _ =>
      let st := set_stack (length (r_stack st) :: r_stack st) st in
      match block_alt_case false orig st w with
      | Some r => r
      | None => flag_stage op orig st w
      end
  | FElse =>
      (* block_stack.last().and_then(|block_id| resolve_on_else_or_end.remove(block_id)) *)
      let '(st, w) := match r_stack st with [] => (st, w) | k :: _ => resolve_roe k st w end in
      match block_alt_case true orig st w with
      | Some r => r
      | None => flag_stage op orig st w
      end
  | FEnd =>
      match r_stack st with
      | [] => flag_stage op orig st w          (* pop() = None: nothing happens *)
      | block_id :: rest =>
          let st := set_stack rest st in
          let cont (st : rstate) (w : flags) :=
            let '(st, w) := resolve_roe block_id st w in
            let '(st, w) :=
              match ron_get block_id (r_ron st) with
              | Some p => (set_ron (ron_remove block_id (r_ron st)) st, resolve_pend2 p w)
              | None => (st, w)
              end in
            flag_stage op orig st w in
          match r_del st with
          | Some d =>
              if Nat.eqb d block_id then
                let st := set_del None st in
                if negb (r_retain st) then (set_retain true st, w_delete w)
                else cont (set_retain true st) w
              else (st, w_delete w)
          | None => cont st w
          end
      end
  | _ =>
      match r_del st with
      | Some _ => (st, w_delete w)
      | None => flag_stage op orig st w
      end
  end.

Fixpoint rloop (last idx : nat) (body : list (fop * flags)) (st : rstate) : list (fop * flags) * rstate :=
  match body with
  | [] => ([], st)
  | (op, fl) :: body' =>
      let '(st1, w) := rstep last idx op fl st in
      let '(r, st2) := rloop last (S idx) body' st1 in
      ((op, w) :: r, st2)
  end.

(* function-level driver.  [exit_block_ty] is the type index add_func_type([], results) returns *)
Definition resolve (has_special : bool) (entry exit : list fop) (exit_block_ty : N)
                   (body : list (fop * flags)) (loc : locals) : list (fop * flags) * locals :=
  if negb has_special then (body, loc) else
  let entry' := if is_nil exit then entry else entry ++ [FBlock (BtFunc exit_block_ty)] in
  let st := mkR entry' exit [0] None true [] [] loc in
  let '(r, st') := rloop (length body - 1) 0 body st in
  (r, r_loc st').

(* ---------- emission (mod.rs:1580-1670) ---------- *)
Fixpoint emit_from (instr_len idx : nat) (body : list (fop * flags)) : list fop :=
  match body with
  | [] => []
  | (op, f) :: body' =>
      (if negb (has_instr f) then [op]
       else
         let at_end := instr_len <=? idx in
         f_before f
         ++ (match f_alt f with
             | Some a => if at_end then [op] else a
             | None => [op]
             end)
         ++ (if at_end then [] else f_after f))
      ++ emit_from instr_len (S idx) body'
  end.
Definition emit (body : list (fop * flags)) : list fop := emit_from (length body - 1) 0 body.
