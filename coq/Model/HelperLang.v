(* The expression language into which the translator renders the bodies of the opcode helpers
   (src/opcode.rs, traits Opcode and MacroOpcode), its typing and its semantics.

   A helper is: parameters (name, Rust type), then the `Operator` literals it hands to `self.inject`, in
   order; each literal is a wasmparser variant name plus, per field, an expression over the parameters.
   Values are integers: an i32/i64 is its (signed) value, a u32/u64/u8 and an index newtype its unsigned
   value, an f32/f64 its IEEE bit pattern (so "bit for bit" is equality of Z), a block type / heap type an
   opaque token chosen by the harness, a MemArg the record of its four fields. *)
From Coq Require Import List NArith ZArith Bool String.
From Orca Require Import Wrap.
Import ListNotations.
Local Open Scope Z_scope.

(* Rust types of helper parameters and of wasmparser operator fields *)
Inductive ty :=
| I32 | I64 | U32 | U64 | U8 | F32 | F64
| Id (n : string)            (* a u32 newtype of src/ir/id.rs whose Deref yields the u32 *)
| MemArg                     (* wasmparser::MemArg { align: u8, max_align: u8, offset: u64, memory: u32 } *)
| BlockTy | HeapTy           (* wirm's BlockType / HeapType *)
| Ieee32 | Ieee64            (* wasmparser's bit-pattern wrappers *)
| WpBlockTy | WpHeapTy       (* wasmparser's BlockType / HeapType *)
| Other (n : string).        (* any field type no helper can produce *)

Definition ty_eqb (a b : ty) : bool :=
  match a, b with
  | I32, I32 | I64, I64 | U32, U32 | U64, U64 | U8, U8 | F32, F32 | F64, F64 | MemArg, MemArg
  | BlockTy, BlockTy | HeapTy, HeapTy | Ieee32, Ieee32 | Ieee64, Ieee64 | WpBlockTy, WpBlockTy | WpHeapTy, WpHeapTy => true
  | Id x, Id y | Other x, Other y => String.eqb x y
  | _, _ => false
  end.

Record opinfo := mkOp {
  op_code : N;                           (* position in wasmparser's for_each_operator table *)
  op_name : string;                      (* variant of wasmparser::Operator *)
  op_mnemonic : string;                  (* visit_<mnemonic>: the Wasm text mnemonic with '.' written '_' *)
  op_fields : list (string * ty) }.      (* in declaration (= binary) order *)

Inductive expr :=
| EParam (i : nat)                       (* the i-th parameter (after &mut self) *)
| EConst (z : Z)                         (* an unsuffixed integer literal *)
| EDeref (e : expr)                      (* *id on an index newtype *)
| ECastI32 (e : expr) | ECastI64 (e : expr) | ECastU32 (e : expr) | ECastU64 (e : expr)   (* e as T, integer source *)
| EBitsF32 (e : expr) | EBitsF64 (e : expr)   (* wasmparser::Ieee32::from(f32) / Ieee64::from(f64): f.to_bits() *)
| EToBits (e : expr)                     (* f32::to_bits / f64::to_bits *)
| EConvBlockType (e : expr)              (* wasmparser::BlockType::from(wirm BlockType) *)
| EConvHeapType (e : expr)               (* wasmparser::HeapType::from(wirm HeapType) *)
| EMemArg (align max_align offset memory : expr).

Record injection := mkInj { i_variant : string; i_fields : list (string * expr) }.
Record helper := mkHelper {
  h_trait : string; h_name : string;
  h_params : list (string * ty);
  h_injs : list injection }.

Inductive val := VZ (z : Z) | VMem (align max_align offset memory : Z).

Definition val_eqb (a b : val) : bool :=
  match a, b with
  | VZ x, VZ y => Z.eqb x y
  | VMem a1 a2 a3 a4, VMem b1 b2 b3 b4 => Z.eqb a1 b1 && Z.eqb a2 b2 && Z.eqb a3 b3 && Z.eqb a4 b4
  | _, _ => false
  end.

(* the values a Rust variable of the given type can hold *)
Definition val_ok (t : ty) (v : val) : bool :=
  match t, v with
  | I32, VZ z => in_i32 z
  | I64, VZ z => in_i64 z
  | (U32 | Id _ | F32 | Ieee32), VZ z => in_u32 z
  | (U64 | F64 | Ieee64), VZ z => in_u64 z
  | U8, VZ z => in_u8 z
  | (BlockTy | HeapTy | WpBlockTy | WpHeapTy), VZ _ => true
  | MemArg, VMem a ma o m => in_u8 a && in_u8 ma && in_u64 o && in_u32 m
  | _, _ => false
  end.

Fixpoint args_ok (ptys : list ty) (args : list val) : bool :=
  match ptys, args with
  | [], [] => true
  | t :: ptys', v :: args' => val_ok t v && args_ok ptys' args'
  | _, _ => false
  end.

(* ---- typing (what rustc would accept; it also guards the integer-only meaning given to `as`) ---- *)
Definition is_int (t : ty) : bool := match t with I32 | I64 | U32 | U64 | U8 => true | _ => false end.

(* [e] can stand where a value of type [t] is expected, given the inferred type of [e] if it has one;
   an unsuffixed literal takes the expected type when it fits *)
Definition has_ty_with (inf : option ty) (e : expr) (t : ty) : bool :=
  match e with
  | EConst z => is_int t && val_ok t (VZ z)
  | _ => match inf with Some t' => ty_eqb t' t | None => false end
  end.

Fixpoint infer (ptys : list ty) (e : expr) : option ty :=
  let cast (e' : expr) (t : ty) :=
    match infer ptys e' with Some s => if is_int s then Some t else None | None => None end in
  match e with
  | EParam i => nth_error ptys i
  | EConst _ => None
  | EDeref e' => match infer ptys e' with Some (Id _) => Some U32 | _ => None end
  | ECastI32 e' => cast e' I32
  | ECastI64 e' => cast e' I64
  | ECastU32 e' => cast e' U32
  | ECastU64 e' => cast e' U64
  | EBitsF32 e' => match infer ptys e' with Some F32 => Some Ieee32 | _ => None end
  | EBitsF64 e' => match infer ptys e' with Some F64 => Some Ieee64 | _ => None end
  | EToBits e' => match infer ptys e' with Some F32 => Some U32 | Some F64 => Some U64 | _ => None end
  | EConvBlockType e' => match infer ptys e' with Some BlockTy => Some WpBlockTy | _ => None end
  | EConvHeapType e' => match infer ptys e' with Some HeapTy => Some WpHeapTy | _ => None end
  | EMemArg a ma o m =>
      if has_ty_with (infer ptys a) a U8 && has_ty_with (infer ptys ma) ma U8
         && has_ty_with (infer ptys o) o U64 && has_ty_with (infer ptys m) m U32
      then Some MemArg else None
  end.

Definition has_ty (ptys : list ty) (e : expr) (t : ty) : bool := has_ty_with (infer ptys e) e t.

(* ---- semantics ---- *)
Definition on_z (f : Z -> Z) (v : option val) : option val :=
  match v with Some (VZ z) => Some (VZ (f z)) | _ => None end.

Fixpoint eval (args : list val) (e : expr) : option val :=
  match e with
  | EParam i => nth_error args i
  | EConst z => Some (VZ z)
  (* no change of representation: the u32 inside the newtype, the bits of the float, the token of the type *)
  | EDeref e' | EBitsF32 e' | EBitsF64 e' | EToBits e' | EConvBlockType e' | EConvHeapType e' => eval args e'
  (* Rust integer casts: truncate to the width, read signed / unsigned *)
  | ECastI32 e' => on_z wrap_s32 (eval args e')
  | ECastI64 e' => on_z wrap_s64 (eval args e')
  | ECastU32 e' => on_z to_u32 (eval args e')
  | ECastU64 e' => on_z to_u64 (eval args e')
  | EMemArg a ma o m =>
      match eval args a, eval args ma, eval args o, eval args m with
      | Some (VZ a'), Some (VZ ma'), Some (VZ o'), Some (VZ m') => Some (VMem a' ma' o' m')
      | _, _, _, _ => None
      end
  end.

(* ---- lookups ---- *)
Fixpoint assoc {A} (k : string) (l : list (string * A)) : option A :=
  match l with
  | [] => None
  | (k', a) :: l' => if String.eqb k k' then Some a else assoc k l'
  end.

Definition find_op (tbl : list opinfo) (variant : string) : option opinfo :=
  find (fun o => String.eqb (op_name o) variant) tbl.
Definition find_mnemonic (tbl : list opinfo) (mn : string) : option opinfo :=
  find (fun o => String.eqb (op_mnemonic o) mn) tbl.

Fixpoint map_opt {A B} (f : A -> option B) (l : list A) : option (list B) :=
  match l with
  | [] => Some []
  | a :: l' => match f a, map_opt f l' with Some b, Some bs => Some (b :: bs) | _, _ => None end
  end.

(* ---- what a helper injects: (operator code, field values in the operator's declaration order) ---- *)
Definition run_field (ptys : list ty) (args : list val) (given : list (string * expr)) (f : string * ty) : option val :=
  match assoc (fst f) given with
  | Some e => if has_ty ptys e (snd f) then eval args e else None
  | None => None
  end.

Definition run_inj (tbl : list opinfo) (ptys : list ty) (args : list val) (inj : injection) : option (N * list val) :=
  match find_op tbl (i_variant inj) with
  | None => None
  | Some op =>
      if Nat.eqb (List.length (i_fields inj)) (List.length (op_fields op)) then
        match map_opt (run_field ptys args (i_fields inj)) (op_fields op) with
        | Some vs => Some (op_code op, vs)
        | None => None
        end
      else None
  end.

Definition run_helper (tbl : list opinfo) (h : helper) (args : list val) : option (list (N * list val)) :=
  map_opt (run_inj tbl (map snd (h_params h)) args) (h_injs h).

Definition find_helper (hs : list helper) (name : string) : option helper :=
  find (fun h => String.eqb (h_name h) name) hs.

(* ---- the immediates of an instruction as a flat list: what a decoder shows.  max_align is not an
   immediate of the binary format (the decoder re-derives it from the opcode), so only the direct
   observation of the injected Operator value sees it. ---- *)
Definition flat_val (direct : bool) (v : val) : list Z :=
  match v with
  | VZ z => [z]
  | VMem a ma o m => if direct then [a; ma; o; m] else [a; o; m]
  end.
Definition flat_ops (direct : bool) (ops : list (N * list val)) : list (N * list Z) :=
  map (fun o => (fst o, flat_map (flat_val direct) (snd o))) ops.

(* ---- name lists (coverage checks) ---- *)
Definition mem_str (x : string) (l : list string) : bool := existsb (String.eqb x) l.
Fixpoint nodupb (l : list string) : bool :=
  match l with [] => true | x :: l' => negb (mem_str x l') && nodupb l' end.
(* the same names, each exactly once, in any order *)
Definition same_names (a b : list string) : bool :=
  nodupb a && nodupb b && forallb (fun n => mem_str n b) a && forallb (fun n => mem_str n a) b.
