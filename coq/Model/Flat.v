(* Flat operators, instrumentation flags, plans.  Prototype for /verif/coq/Model/Flat.v *)
From Coq Require Import List NArith ZArith Bool Lia.
Import ListNotations.

Inductive blockty := BtEmpty | BtVal (t : N) | BtFunc (i : N).

Inductive fop :=
| FBlock (bt : blockty) | FLoop (bt : blockty) | FIf (bt : blockty) | FElse | FEnd
| FBr (n : nat) | FBrIf (n : nat) | FBrTable (ts : list nat) (d : nat) | FBrOn (n : nat) (tok : N)
| FReturn | FRetCall (tok : N) | FUnreachable | FThrow (tok : N)
| FConst (z : Z) | FLocalGet (i : N) | FLocalSet (i : N) | FLocalTee (i : N) | FDrop
| FOther (tok : N).

Definition blockty_eqb (a b : blockty) : bool :=
  match a, b with
  | BtEmpty, BtEmpty => true
  | BtVal x, BtVal y => N.eqb x y
  | BtFunc x, BtFunc y => N.eqb x y
  | _, _ => false
  end.

Fixpoint list_eqb {A} (eqb : A -> A -> bool) (a b : list A) : bool :=
  match a, b with
  | [], [] => true
  | x :: a', y :: b' => eqb x y && list_eqb eqb a' b'
  | _, _ => false
  end.

Definition fop_eqb (a b : fop) : bool :=
  match a, b with
  | FBlock x, FBlock y | FLoop x, FLoop y | FIf x, FIf y => blockty_eqb x y
  | FElse, FElse | FEnd, FEnd | FReturn, FReturn | FUnreachable, FUnreachable | FDrop, FDrop => true
  | FBr x, FBr y | FBrIf x, FBrIf y => Nat.eqb x y
  | FBrTable t1 d1, FBrTable t2 d2 => list_eqb Nat.eqb t1 t2 && Nat.eqb d1 d2
  | FBrOn n1 t1, FBrOn n2 t2 => Nat.eqb n1 n2 && N.eqb t1 t2
  | FRetCall x, FRetCall y | FThrow x, FThrow y | FOther x, FOther y => N.eqb x y
  | FLocalGet x, FLocalGet y | FLocalSet x, FLocalSet y | FLocalTee x, FLocalTee y => N.eqb x y
  | FConst x, FConst y => Z.eqb x y
  | _, _ => false
  end.

Inductive mode := MBefore | MAfter | MAlternate | MSemanticAfter | MBlockEntry | MBlockExit | MBlockAlt.

Record flags := mkFlags {
  f_before : list fop; f_after : list fop; f_alt : option (list fop);
  f_sa : list fop; f_be : list fop; f_bx : list fop; f_balt : option (list fop) }.

Definition no_flags := mkFlags [] [] None [] [] [] None.

Definition is_nil {A} (l : list A) := match l with [] => true | _ => false end.
Definition is_none {A} (o : option A) := match o with None => true | _ => false end.

Definition has_instr (f : flags) : bool :=
  negb (is_nil (f_before f)) || negb (is_nil (f_after f)) || negb (is_none (f_alt f))
  || negb (is_nil (f_sa f)) || negb (is_nil (f_be f)) || negb (is_nil (f_bx f)) || negb (is_none (f_balt f)).

Definition is_block_style (o : fop) : bool :=
  match o with FBlock _ | FLoop _ | FIf _ | FElse => true | _ => false end.
Definition is_branching (o : fop) : bool :=
  match o with FBr _ | FBrIf _ | FBrTable _ _ | FBrOn _ _ => true | _ => false end.
Definition is_exit_op (o : fop) : bool :=
  match o with FReturn | FRetCall _ | FUnreachable | FThrow _ => true | _ => false end.

(* InstrumentationFlag::add_instr: returns None when the call panics (mode not applicable);
   the bool says whether the mode was "special" *)
Definition add_instr (op : fop) (m : mode) (x : fop) (f : flags) : option (flags * bool) :=
  match m with
  | MBefore => Some (mkFlags (f_before f ++ [x]) (f_after f) (f_alt f) (f_sa f) (f_be f) (f_bx f) (f_balt f), false)
  | MAfter => Some (mkFlags (f_before f) (f_after f ++ [x]) (f_alt f) (f_sa f) (f_be f) (f_bx f) (f_balt f), false)
  | MAlternate => Some (mkFlags (f_before f) (f_after f)
                          (Some (match f_alt f with None => [x] | Some a => a ++ [x] end))
                          (f_sa f) (f_be f) (f_bx f) (f_balt f), false)
  | MSemanticAfter =>
      if is_block_style op || is_branching op
      then Some (mkFlags (f_before f) (f_after f) (f_alt f) (f_sa f ++ [x]) (f_be f) (f_bx f) (f_balt f), true)
      else None
  | MBlockEntry =>
      if is_block_style op
      then Some (mkFlags (f_before f) (f_after f) (f_alt f) (f_sa f) (f_be f ++ [x]) (f_bx f) (f_balt f), true)
      else None
  | MBlockExit =>
      if is_block_style op
      then Some (mkFlags (f_before f) (f_after f) (f_alt f) (f_sa f) (f_be f) (f_bx f ++ [x]) (f_balt f), true)
      else None
  | MBlockAlt =>
      if is_block_style op
      then Some (mkFlags (f_before f) (f_after f) (f_alt f) (f_sa f) (f_be f) (f_bx f)
                         (Some (match f_balt f with None => [x] | Some a => a ++ [x] end)), true)
      else None
  end.
