(* Re-indexing engine, second encode (C05): what Module::encode_internal leaves behind in the IR, and what a second
   encode() without edits in between therefore emits.  Mirrors mod.rs encode_internal:
     * recalculate_ids reorganises the item vector IN PLACE (deleted items are removed, converted items moved) and
       the `recalculate_ids` flag is never reset, so the second encode reorganises the reorganised vector again,
       with the same `orig_num_imported`, and builds a new map from the stored ids (which are never rewritten);
     * references are rewritten IN PLACE where the encoder walks them mutably: operators of function bodies and of
       the before / after / alternate lists (fix_op_id_mapping over instructions.iter_mut()), `self.start`,
       initialisers of local globals and offsets of active data segments (InitInstr::fix_id_mapping over
       exprs.iter_mut()); exports, function-index element items, the memory index of a data segment and the
       constant expressions kept as parsed (ConstExprReindexer) are recomputed from the unchanged IR each time.
   No proofs in this file. *)
From Coq Require Import List Arith NArith Bool.
Import ListNotations.
From Orca Require Import Reindex.
Local Open Scope N_scope.

Definition in_place (k : rk) : bool :=
  match k with KCode | KStart | KInit | KDataOff => true | _ => false end.

(* the reference as the first encode leaves it in the IR; None = the reference is gone (self.start = None) *)
Definition site_after (mf mg mm : list (N * N)) (s : rsite) : option rsite :=
  if in_place (rs_k s) then
    let m := match rs_sp s with SF => mf | SG => mg | SM => mm end in
    match lookup m (rs_id s) with
    | Some q => Some (mkSite (rs_k s) (rs_sp s) q (rs_owner s))
    | None => match rs_k s with KStart => None | _ => Some s end
    end
  else Some s.

(* an inactive site (its owner is deleted / no longer local) is not walked: it keeps its id *)
Definition sites_after (lf lg : list item) (dead : list N) (mf mg mm : list (N * N)) (ss : list rsite) : list (option rsite) :=
  map (fun s => if site_active lf lg dead s then site_after mf mg mm s else Some s) ss.

Fixpoint emit_sites2 (n : N) (lf lg : list item) (dead : list N) (mf mg mm : list (N * N)) (ss : list (option rsite))
  : res (list (N * N)) :=
  match ss with
  | [] => Ok []
  | None :: ss' => emit_sites2 (n + 1) lf lg dead mf mg mm ss'
  | Some s :: ss' =>
      if site_active lf lg dead s then
        match site_emit mf mg mm s with
        | Panic w => Panic w
        | Ok r =>
            match emit_sites2 (n + 1) lf lg dead mf mg mm ss' with
            | Panic w => Panic w
            | Ok rest => Ok (match r with Some q => (n, q) :: rest | None => rest end)
            end
        end
      else emit_sites2 (n + 1) lf lg dead mf mg mm ss'
  end.

Definition space_after (s : space) (l : list item) : space :=
  mkSpace l (s_recalc s) (s_num s) (s_added s) (s_nlocal s).

(* the state of the IR after one encode, with the references as that encode left them *)
Definition after_encode (m : mst) (dead : list N) (sites : list rsite) : res (mst * list (option rsite)) :=
  match index_space (m_f m), index_space (m_g m), index_space (m_m m) with
  | Ok (lf, mf), Ok (lg, mg), Ok (lm, mm) =>
      Ok (mkM (space_after (m_f m) lf) (space_after (m_g m) lg) (space_after (m_m m) lm) (m_imports m),
          sites_after lf lg dead mf mg mm sites)
  | Panic w, _, _ | _, Panic w, _ | _, _, Panic w => Panic w
  end.

Definition encode_opt (m : mst) (dead_exports : list N) (sites : list (option rsite)) : res emod :=
  match index_space (m_f m), index_space (m_g m), index_space (m_m m) with
  | Ok (lf, mf), Ok (lg, mg), Ok (lm, mm) =>
      match emit_sites2 0 lf lg dead_exports mf mg mm sites with
      | Ok ss =>
          Ok (mkE (map (import_at (m_imports m)) (emitted_imports (m_imports m) lf lg lm))
                  (emitted_locals lf true) (emitted_locals lg true) (emitted_locals lm false) ss)
      | Panic w => Panic w
      end
  | Panic w, _, _ | _, Panic w, _ | _, _, Panic w => Panic w
  end.

(* the second of two consecutive encodings *)
Definition encode_again (m : mst) (dead : list N) (sites : list rsite) : res emod :=
  match after_encode m dead sites with
  | Ok (m2, ss2) => encode_opt m2 dead ss2
  | Panic w => Panic w
  end.
