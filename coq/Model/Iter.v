(* Iterator engine (C25, C26): executable mirror of
     src/subiterator/function_subiterator.rs   FuncSubIterator
     src/subiterator/module_subiterator.rs     ModuleSubIterator
     src/subiterator/component_subiterator.rs  ComponentSubIterator
     src/iterator/module_iterator.rs           ModuleIterator::{new, next, curr_loc, curr_op, reset}
     src/iterator/component_iterator.rs        ComponentIterator::{new, next, curr_loc, curr_op, reset}
   as the code is after the repair of D12 (the skip list is applied before the function cursor is sized; an
   empty traversal simply ends) and D13 (modules with nothing to visit are stepped over; reset re-enters
   module 0 with its own skip list).  Every place where the Rust can still index a vector out of bounds
   is an explicit [Panic] outcome.  Inputs are abstract: a module is its [get_func_metadata()] list
   (function id, number of instructions) of local functions, plus a skip list of function ids.
   No proofs in this file. *)
From Coq Require Import List NArith Bool.
Import ListNotations.
Local Open Scope N_scope.

Inductive res (A : Type) : Type := Ok (a : A) | Panic.
Arguments Ok {A} a.
Arguments Panic {A}.

Definition meta := list (N * N).                 (* Vec<(FunctionID, usize)> *)
Definition memN (x : N) (l : list N) : bool := existsb (N.eqb x) l.   (* Vec::contains *)

(* ------------------------------------------------------------------------------------------ *)
(* FuncSubIterator *)
Record fsub := mkF { f_cur : N; f_num : N }.
Definition f_new (n : N) : fsub := mkF 0 n.
Definition f_has_next (f : fsub) : bool := f_cur f + 1 <? f_num f.         (* curr_instr + 1 < num_instr *)
Definition f_is_end (f : fsub) (pc : N) : bool := f_num f <=? pc + 1.      (* pc + 1 >= num_instr *)
Definition f_next (f : fsub) : fsub * bool :=
  if f_has_next f then (mkF (f_cur f + 1) (f_num f), true) else (f, false).

(* ------------------------------------------------------------------------------------------ *)
(* ModuleSubIterator *)
Record msub := mkM { m_idx : nat; m_meta : meta; m_fi : fsub; m_skip : list N }.

Definition NOFUNC : N := 4294967295.               (* FunctionID(u32::MAX), the placeholder of get_curr_func *)

(* is_empty: curr_idx >= metadata.len() -- nothing to visit *)
Definition m_is_empty (s : msub) : bool := Nat.leb (length (m_meta s)) (m_idx s).

(* metadata.get(curr_idx).copied().unwrap_or((FunctionID(u32::MAX), 0)) *)
Definition get_curr_func (s : msub) : N * N := nth (m_idx s) (m_meta s) (NOFUNC, 0).

(* next_unskipped(from) = (from..len).find(|idx| !skip.contains(metadata[idx].0)), run over the suffix
   [l] of the metadata that starts at [idx] *)
Fixpoint find_unskipped (skip : list N) (l : meta) (idx : nat) : option nat :=
  match l with
  | [] => None
  | (fid, _) :: l' => if memN fid skip then find_unskipped skip l' (S idx) else Some idx
  end.
Definition next_unskipped (s : msub) (from : nat) : option nat :=
  find_unskipped (m_skip s) (skipn from (m_meta s)) from.

(* (func id, instr idx, is_end) *)
Definition m_curr_loc (s : msub) : N * N * bool :=
  (fst (get_curr_func s), f_cur (m_fi s), f_is_end (m_fi s) (f_cur (m_fi s))).

(* reset: curr_idx = next_unskipped(0).unwrap_or(len); func_iterator.reset(get_curr_func().1) *)
Definition m_reset (s : msub) : msub :=
  let idx := match next_unskipped s 0 with Some i => i | None => length (m_meta s) end in
  let s1 := mkM idx (m_meta s) (m_fi s) (m_skip s) in
  mkM idx (m_meta s) (mkF 0 (snd (get_curr_func s1))) (m_skip s).

(* new: the cursor is built empty and then reset: the skip list is applied before the function cursor is sized *)
Definition m_new (mt : meta) (skip : list N) : msub := m_reset (mkM 0 mt (f_new 0) skip).

Definition m_next_function (s : msub) : msub * bool :=
  match next_unskipped s (S (m_idx s)) with
  | Some idx =>
      let s1 := mkM idx (m_meta s) (m_fi s) (m_skip s) in
      (mkM idx (m_meta s) (f_new (snd (get_curr_func s1))) (m_skip s), true)
  | None => (s, false)
  end.

Definition m_has_next_function (s : msub) : bool :=
  match next_unskipped s (S (m_idx s)) with Some _ => true | None => false end.

Definition m_next (s : msub) : msub * bool :=
  if f_has_next (m_fi s)
  then let '(f', b) := f_next (m_fi s) in (mkM (m_idx s) (m_meta s) f' (m_skip s), b)
  else m_next_function s.

(* ------------------------------------------------------------------------------------------ *)
(* ModuleIterator (the module's own metadata never changes: it is [m_meta]) *)

(* module.functions.get(fid) must be a local function and body.instructions[instr_idx] must exist *)
Definition body_len (mt : meta) (fid : N) : option N :=
  match find (fun x => N.eqb (fst x) fid) mt with Some x => Some (snd x) | None => None end.

(* curr_op: Ok true = Some(op), Ok false = None (nothing to visit) *)
Definition mi_curr_op (s : msub) : res bool :=
  if m_is_empty s then Ok false
  else let '(fid, i, _) := m_curr_loc s in
       match body_len (m_meta s) fid with
       | None => Panic
       | Some n => if i <? n then Ok true else Panic
       end.

(* next: match sub.next() { false => None, true => self.curr_op() } *)
Definition mi_next (s : msub) : res (msub * bool) :=
  let '(s', b) := m_next s in
  if b then match mi_curr_op s' with Panic => Panic | Ok b' => Ok (s', b') end else Ok (s', false).

(* ------------------------------------------------------------------------------------------ *)
(* ComponentSubIterator.  The two HashMaps are lists indexed by module position; a module without
   an entry has the empty list ([nth _ _ []] = get(..).cloned().unwrap_or_default()). *)
Record csub := mkC { c_mod : nat; c_num : nat; c_it : msub; c_metas : list meta; c_skips : list (list N) }.

(* enter_module: the module cursor of the current module, with that module's skip list *)
Definition c_enter (c : csub) : csub :=
  mkC (c_mod c) (c_num c) (m_new (nth (c_mod c) (c_metas c) []) (nth (c_mod c) (c_skips c) [])) (c_metas c) (c_skips c).

Definition c_next_module (c : csub) : csub * bool :=
  if Nat.leb (c_num c) (c_mod c) then (c, false)
  else let cm := S (c_mod c) in
       let c1 := mkC cm (c_num c) (c_it c) (c_metas c) (c_skips c) in
       if Nat.ltb cm (c_num c) then (c_enter c1, true) else (c1, false).

(* skip_empty_modules: while mod_iterator.is_empty() { if !next_module() { return false } } true.
   Every iteration advances curr_mod, so num_mods - curr_mod + 1 rounds suffice. *)
Fixpoint c_skip_empty_go (fuel : nat) (c : csub) : csub * bool :=
  match fuel with
  | O => (c, false)
  | S fuel' =>
      if m_is_empty (c_it c)
      then let '(c', b) := c_next_module c in if b then c_skip_empty_go fuel' c' else (c', false)
      else (c, true)
  end.
Definition c_skip_empty (c : csub) : csub * bool := c_skip_empty_go (S (c_num c - c_mod c)) c.

Definition c_new (metas : list meta) (skips : list (list N)) : csub :=
  fst (c_skip_empty (c_enter (mkC 0 (length metas) (m_new [] []) metas skips))).

(* reset: curr_mod = 0; enter_module(); skip_empty_modules() *)
Definition c_reset (c : csub) : csub :=
  fst (c_skip_empty (c_enter (mkC 0 (c_num c) (c_it c) (c_metas c) (c_skips c)))).

Definition c_end (c : csub) : bool := Nat.eqb (c_mod c) (c_num c).

(* (module idx, func id, instr idx, is_end) *)
Definition c_curr_loc (c : csub) : N * N * N * bool :=
  let '(fid, i, e) := m_curr_loc (c_it c) in (N.of_nat (c_mod c), fid, i, e).

(* next: if mod_iterator.next() { return true }  next_module() && skip_empty_modules() *)
Definition c_next (c : csub) : csub * bool :=
  let '(it, b) := m_next (c_it c) in
  let c0 := mkC (c_mod c) (c_num c) it (c_metas c) (c_skips c) in
  if b then (c0, true)
  else let '(c1, b1) := c_next_module c0 in if b1 then c_skip_empty c1 else (c1, false).

(* ComponentIterator *)
Definition ci_curr_op (c : csub) : res bool :=
  if c_end c then Ok false
  else let '(_, fid, i, _) := c_curr_loc c in
       match nth_error (c_metas c) (c_mod c) with
       | None => Panic                              (* comp.modules[mod_idx] *)
       | Some mt => match body_len mt fid with
                    | None => Panic
                    | Some n => if i <? n then Ok true else Panic
                    end
       end.

Definition ci_next (c : csub) : res (csub * bool) :=
  let '(c', b) := c_next c in
  if b then match ci_curr_op c' with Panic => Panic | Ok b' => Ok (c', b') end else Ok (c', false).

(* ------------------------------------------------------------------------------------------ *)
(* The call script the harness runs against the real iterators, over an abstract iterator. *)

Inductive ev :=
| V (m f i : N) (is_end op_ok : bool)    (* curr_loc() at a position where curr_op() is Some(op); op_ok = the
                                            operator is the one the generated module has at that location *)
| EPanic                                 (* the call panicked; the script stops *)
| EReset                                 (* reset() is called next *)
| EAfter.                                (* curr_loc() after the traversal ended did not panic *)

Record mach (S : Type) := mkMach {
  k_op : S -> res bool;
  k_loc : S -> res (N * N * N * bool);
  k_next : S -> res (S * bool);
  k_reset : S -> res S }.
Arguments k_op {S}. Arguments k_loc {S}. Arguments k_next {S}. Arguments k_reset {S}. Arguments mkMach {S}.

Inductive wend (S : Type) := WPanic | WFuel | WStopped (s : S) | WEnd (s : S).
Arguments WPanic {S}. Arguments WFuel {S}. Arguments WStopped {S}. Arguments WEnd {S}.

Definition ev_of (v : N * N * N * bool) : ev := let '(m, f, i, e) := v in V m f i e true.
Definition lim_pred (lim : option nat) : option nat :=
  match lim with Some k => Some (pred k) | None => None end.

(* loop { if curr_op() is None {break}; record curr_loc(); if [lim] next() calls were made {stop};
          if next() is None {break} } *)
Fixpoint walk {S} (M : mach S) (fuel : nat) (lim : option nat) (s : S) : list ev * wend S :=
  match fuel with
  | O => ([], WFuel)
  | Datatypes.S fuel' =>
      match k_op M s with
      | Panic => ([EPanic], WPanic)
      | Ok false => ([], WEnd s)
      | Ok true =>
          match k_loc M s with
          | Panic => ([EPanic], WPanic)
          | Ok v =>
              match lim with
              | Some O => ([ev_of v], WStopped s)
              | _ =>
                  match k_next M s with
                  | Panic => ([ev_of v; EPanic], WPanic)
                  | Ok (s', false) => ([ev_of v], WEnd s')
                  | Ok (s', true) => let '(t, w) := walk M fuel' (lim_pred lim) s' in (ev_of v :: t, w)
                  end
              end
          end
      end
  end.

(* one full traversal, optionally followed by a curr_loc() after the end *)
Definition full {S} (M : mach S) (fuel : nat) (probe : bool) (s : S) : list ev :=
  let '(t, w) := walk M fuel None s in
  match w with
  | WEnd s' => if probe then match k_loc M s' with Panic => t ++ [EPanic] | Ok _ => t ++ [EAfter] end else t
  | _ => t
  end.

(* construct; [Some k: at most k next() calls, then reset()]; full traversal *)
Definition run {S} (M : mach S) (fuel : nat) (k : option nat) (probe : bool) (init : res S) : list ev :=
  match init with
  | Panic => [EPanic]
  | Ok s =>
      match k with
      | None => full M fuel probe s
      | Some k =>
          let '(t, w) := walk M fuel (Some k) s in
          match w with
          | WPanic | WFuel => t
          | WStopped s' | WEnd s' =>
              match k_reset M s' with
              | Panic => t ++ [EReset; EPanic]
              | Ok s'' => t ++ EReset :: full M fuel probe s''
              end
          end
      end
  end.

Definition MI : mach msub :=
  mkMach mi_curr_op
         (fun s => let '(f, i, e) := m_curr_loc s in Ok (0, f, i, e))
         mi_next (fun s => Ok (m_reset s)).
Definition CI : mach csub := mkMach ci_curr_op (fun c => Ok (c_curr_loc c)) ci_next (fun c => Ok (c_reset c)).

Definition total_instrs (mt : meta) : N := fold_right (fun x a => snd x + a) 0 mt.
Definition fuel_of (mt : meta) : nat := S (S (N.to_nat (total_instrs mt))).
Definition fuel_of_comp (metas : list meta) : nat :=
  S (S (N.to_nat (fold_right (fun mt a => total_instrs mt + a) 0 metas))).

Definition mi_run (mt : meta) (skip : list N) (k : option nat) (probe : bool) : list ev :=
  run MI (fuel_of mt) k probe (Ok (m_new mt skip)).
Definition ci_run (metas : list meta) (skips : list (list N)) (k : option nat) (probe : bool) : list ev :=
  run CI (fuel_of_comp metas) k probe (Ok (c_new metas skips)).
