(* Iterator engine (C25, C26): executable mirror of
     src/subiterator/function_subiterator.rs   FuncSubIterator
     src/subiterator/module_subiterator.rs     ModuleSubIterator
     src/subiterator/component_subiterator.rs  ComponentSubIterator
     src/iterator/module_iterator.rs           ModuleIterator::{new, next, curr_loc, curr_op, reset}
     src/iterator/component_iterator.rs        ComponentIterator::{new, next, curr_loc, curr_op, reset}
   *as the code is today*.  Every place where the Rust indexes a vector out of bounds / unwraps a None
   is an explicit [Panic] outcome.  Inputs are abstract: a module is its [get_func_metadata()] list
   (function id, number of instructions) of local functions, plus a skip list of function ids.
   No proofs in this file. *)
From Coq Require Import List NArith Bool.
Import ListNotations.
Local Open Scope N_scope.

Inductive res (A : Type) : Type := Ok (a : A) | Panic.
Arguments Ok {A} a.
Arguments Panic {A}.

Definition meta := list (N * N).                 (* Vec<(FunctionID, usize)> *)
Definition memN (x : N) (l : list N) : bool := existsb (N.eqb x) l.   (* Vec::contains *)

(* ------------------------------------------------------------------------------------------ *)
(* FuncSubIterator *)
Record fsub := mkF { f_cur : N; f_num : N }.
Definition f_new (n : N) : fsub := mkF 0 n.
Definition f_has_next (f : fsub) : bool := f_cur f + 1 <? f_num f.         (* curr_instr + 1 < num_instr *)
Definition f_is_end (f : fsub) (pc : N) : bool := f_num f <=? pc + 1.      (* pc + 1 >= num_instr *)
Definition f_next (f : fsub) : fsub * bool :=
  if f_has_next f then (mkF (f_cur f + 1) (f_num f), true) else (f, false).

(* ------------------------------------------------------------------------------------------ *)
(* ModuleSubIterator *)
Record msub := mkM { m_idx : nat; m_meta : meta; m_fi : fsub; m_skip : list N }.

(* self.metadata[self.curr_idx] *)
Definition get_curr_func (s : msub) : res (N * N) :=
  match nth_error (m_meta s) (m_idx s) with Some x => Ok x | None => Panic end.

(* the while loop of handle_skips, run over the suffix [l] of the metadata that starts at [idx]:
   while skip.contains(fid) { idx += 1; if idx >= len { break }; fid = metadata[idx].0 } *)
Fixpoint skip_from (skip : list N) (l : meta) (idx : nat) : nat :=
  match l with
  | [] => idx
  | (fid, _) :: l' => if memN fid skip then skip_from skip l' (S idx) else idx
  end.

(* handle_skips: the first statement reads metadata[curr_idx] and panics when curr_idx >= len *)
Definition handle_skips (s : msub) : res msub :=
  match skipn (m_idx s) (m_meta s) with
  | [] => Panic
  | l => Ok (mkM (skip_from (m_skip s) l (m_idx s)) (m_meta s) (m_fi s) (m_skip s))
  end.

(* ModuleSubIterator::new: reads metadata[0] first, builds the function cursor with *function 0's*
   length and only then applies the skip list *)
Definition m_new (mt : meta) (skip : list N) : res msub :=
  match mt with
  | [] => Panic
  | (_, n0) :: _ => handle_skips (mkM 0 mt (f_new n0) skip)
  end.

(* (func id, instr idx, is_end) *)
Definition m_curr_loc (s : msub) : res (N * N * bool) :=
  match get_curr_func s with
  | Panic => Panic
  | Ok (fid, _) => Ok (fid, f_cur (m_fi s), f_is_end (m_fi s) (f_cur (m_fi s)))
  end.

(* reset: curr_idx = 0; handle_skips(); func_iterator.reset(get_curr_func().1) *)
Definition m_reset (s : msub) : res msub :=
  match handle_skips (mkM 0 (m_meta s) (m_fi s) (m_skip s)) with
  | Panic => Panic
  | Ok s1 => match get_curr_func s1 with
             | Panic => Panic
             | Ok (_, n) => Ok (mkM (m_idx s1) (m_meta s1) (mkF 0 n) (m_skip s1))
             end
  end.
Definition m_reset_from_comp (s : msub) (mt : meta) : res msub :=
  m_reset (mkM (m_idx s) mt (m_fi s) (m_skip s)).

Definition m_has_next_function (s : msub) : bool := Nat.ltb (S (m_idx s)) (length (m_meta s)).

Definition m_next_function (s : msub) : res (msub * bool) :=
  if negb (m_has_next_function s) then Ok (s, false)
  else match handle_skips (mkM (S (m_idx s)) (m_meta s) (m_fi s) (m_skip s)) with
       | Panic => Panic
       | Ok s1 =>
           if Nat.ltb (m_idx s1) (length (m_meta s1))
           then match get_curr_func s1 with
                | Panic => Panic
                | Ok (_, n) => Ok (mkM (m_idx s1) (m_meta s1) (f_new n) (m_skip s1), true)
                end
           else Ok (s1, false)
       end.

Definition m_has_next (s : msub) : bool := f_has_next (m_fi s) || m_has_next_function s.

Definition m_next (s : msub) : res (msub * bool) :=
  if f_has_next (m_fi s)
  then let '(f', b) := f_next (m_fi s) in Ok (mkM (m_idx s) (m_meta s) f' (m_skip s), b)
  else m_next_function s.

(* ------------------------------------------------------------------------------------------ *)
(* ModuleIterator (the module's own metadata never changes: it is [m_meta]) *)

(* module.functions.get(fid) must be a local function and body.instructions[instr_idx] must exist *)
Definition body_len (mt : meta) (fid : N) : option N :=
  match find (fun x => N.eqb (fst x) fid) mt with Some x => Some (snd x) | None => None end.

(* curr_op: Ok true = Some(op), Ok false = None *)
Definition mi_curr_op (s : msub) : res bool :=
  match m_curr_loc s with
  | Panic => Panic
  | Ok (fid, i, _) =>
      match body_len (m_meta s) fid with
      | None => Panic
      | Some n => if i <? n then Ok true else Panic
      end
  end.

(* next: match sub.next() { false => None, true => self.curr_op() } *)
Definition mi_next (s : msub) : res (msub * bool) :=
  match m_next s with
  | Panic => Panic
  | Ok (s', false) => Ok (s', false)
  | Ok (s', true) => match mi_curr_op s' with Panic => Panic | Ok b => Ok (s', b) end
  end.

(* ------------------------------------------------------------------------------------------ *)
(* ComponentSubIterator.  The two HashMaps are lists indexed by module position; a module without
   an entry in the skip map has the empty skip list ([nth _ _ []]). *)
Record csub := mkC { c_mod : nat; c_num : nat; c_it : msub; c_metas : list meta; c_skips : list (list N) }.

Definition c_new (metas : list meta) (skips : list (list N)) : res csub :=
  match nth_error metas 0 with
  | None => Panic                                   (* metadata.get(&curr_mod).unwrap() *)
  | Some mt => match m_new mt (nth 0 skips []) with
               | Panic => Panic
               | Ok it => Ok (mkC 0 (length metas) it metas skips)
               end
  end.

(* reset: curr_mod = 0; mod_iterator.reset_from_comp_iterator(metadata[0]) -- the module
   sub-iterator keeps the skip list it already has *)
Definition c_reset (c : csub) : res csub :=
  match nth_error (c_metas c) 0 with
  | None => Panic
  | Some mt => match m_reset_from_comp (c_it c) mt with
               | Panic => Panic
               | Ok it => Ok (mkC 0 (c_num c) it (c_metas c) (c_skips c))
               end
  end.

Definition c_next_module (c : csub) : res (csub * bool) :=
  let cm := S (c_mod c) in
  if Nat.ltb cm (c_num c)
  then match nth_error (c_metas c) cm with
       | None => Panic
       | Some mt => match m_new mt (nth cm (c_skips c) []) with
                    | Panic => Panic
                    | Ok it => Ok (mkC cm (c_num c) it (c_metas c) (c_skips c), true)
                    end
       end
  else Ok (mkC cm (c_num c) (c_it c) (c_metas c) (c_skips c), false).

Definition c_end (c : csub) : bool := Nat.eqb (c_mod c) (c_num c).

(* (module idx, func id, instr idx, is_end) *)
Definition c_curr_loc (c : csub) : res (N * N * N * bool) :=
  match m_curr_loc (c_it c) with
  | Panic => Panic
  | Ok (fid, i, e) => Ok (N.of_nat (c_mod c), fid, i, e)
  end.

(* next: if mod_iterator.has_next() { mod_iterator.next() } else { next_module() } *)
Definition c_next (c : csub) : res (csub * bool) :=
  if m_has_next (c_it c)
  then match m_next (c_it c) with
       | Panic => Panic
       | Ok (it, b) => Ok (mkC (c_mod c) (c_num c) it (c_metas c) (c_skips c), b)
       end
  else c_next_module c.

(* ComponentIterator *)
Definition ci_curr_op (c : csub) : res bool :=
  if c_end c then Ok false
  else match c_curr_loc c with
       | Panic => Panic
       | Ok (_, fid, i, _) =>
           match nth_error (c_metas c) (c_mod c) with
           | None => Panic                              (* comp.modules[mod_idx] *)
           | Some mt => match body_len mt fid with
                        | None => Panic
                        | Some n => if i <? n then Ok true else Panic
                        end
           end
       end.

Definition ci_next (c : csub) : res (csub * bool) :=
  match c_next c with
  | Panic => Panic
  | Ok (c', false) => Ok (c', false)
  | Ok (c', true) => match ci_curr_op c' with Panic => Panic | Ok b => Ok (c', b) end
  end.

(* ------------------------------------------------------------------------------------------ *)
(* The call script the harness runs against the real iterators, over an abstract iterator. *)

Inductive ev :=
| V (m f i : N) (is_end op_ok : bool)    (* curr_loc() at a position where curr_op() is Some(op); op_ok = the
                                            operator is the one the generated module has at that location *)
| EPanic                                 (* the call panicked; the script stops *)
| EReset                                 (* reset() is called next *)
| EAfter.                                (* curr_loc() after the traversal ended did not panic *)

Record mach (S : Type) := mkMach {
  k_op : S -> res bool;
  k_loc : S -> res (N * N * N * bool);
  k_next : S -> res (S * bool);
  k_reset : S -> res S }.
Arguments k_op {S}. Arguments k_loc {S}. Arguments k_next {S}. Arguments k_reset {S}. Arguments mkMach {S}.

Inductive wend (S : Type) := WPanic | WFuel | WStopped (s : S) | WEnd (s : S).
Arguments WPanic {S}. Arguments WFuel {S}. Arguments WStopped {S}. Arguments WEnd {S}.

Definition ev_of (v : N * N * N * bool) : ev := let '(m, f, i, e) := v in V m f i e true.
Definition lim_pred (lim : option nat) : option nat :=
  match lim with Some k => Some (pred k) | None => None end.

(* loop { if curr_op() is None {break}; record curr_loc(); if [lim] next() calls were made {stop};
          if next() is None {break} } *)
Fixpoint walk {S} (M : mach S) (fuel : nat) (lim : option nat) (s : S) : list ev * wend S :=
  match fuel with
  | O => ([], WFuel)
  | Datatypes.S fuel' =>
      match k_op M s with
      | Panic => ([EPanic], WPanic)
      | Ok false => ([], WEnd s)
      | Ok true =>
          match k_loc M s with
          | Panic => ([EPanic], WPanic)
          | Ok v =>
              match lim with
              | Some O => ([ev_of v], WStopped s)
              | _ =>
                  match k_next M s with
                  | Panic => ([ev_of v; EPanic], WPanic)
                  | Ok (s', false) => ([ev_of v], WEnd s')
                  | Ok (s', true) => let '(t, w) := walk M fuel' (lim_pred lim) s' in (ev_of v :: t, w)
                  end
              end
          end
      end
  end.

(* one full traversal, optionally followed by a curr_loc() after the end *)
Definition full {S} (M : mach S) (fuel : nat) (probe : bool) (s : S) : list ev :=
  let '(t, w) := walk M fuel None s in
  match w with
  | WEnd s' => if probe then match k_loc M s' with Panic => t ++ [EPanic] | Ok _ => t ++ [EAfter] end else t
  | _ => t
  end.

(* construct; [Some k: at most k next() calls, then reset()]; full traversal *)
Definition run {S} (M : mach S) (fuel : nat) (k : option nat) (probe : bool) (init : res S) : list ev :=
  match init with
  | Panic => [EPanic]
  | Ok s =>
      match k with
      | None => full M fuel probe s
      | Some k =>
          let '(t, w) := walk M fuel (Some k) s in
          match w with
          | WPanic | WFuel => t
          | WStopped s' | WEnd s' =>
              match k_reset M s' with
              | Panic => t ++ [EReset; EPanic]
              | Ok s'' => t ++ EReset :: full M fuel probe s''
              end
          end
      end
  end.

Definition MI : mach msub :=
  mkMach mi_curr_op
         (fun s => match m_curr_loc s with Panic => Panic | Ok (f, i, e) => Ok (0, f, i, e) end)
         mi_next m_reset.
Definition CI : mach csub := mkMach ci_curr_op c_curr_loc ci_next c_reset.

Definition total_instrs (mt : meta) : N := fold_right (fun x a => snd x + a) 0 mt.
Definition fuel_of (mt : meta) : nat := S (S (N.to_nat (total_instrs mt))).
Definition fuel_of_comp (metas : list meta) : nat :=
  S (S (N.to_nat (fold_right (fun mt a => total_instrs mt + a) 0 metas))).

Definition mi_run (mt : meta) (skip : list N) (k : option nat) (probe : bool) : list ev :=
  run MI (fuel_of mt) k probe (m_new mt skip).
Definition ci_run (metas : list meta) (skips : list (list N)) (k : option nat) (probe : bool) : list ev :=
  run CI (fuel_of_comp metas) k probe (c_new metas skips).
