(* HAND-WRITTEN: the status of every potential panic site of the parse path.

   Gen/GenInventory.v (regenerated from /repo/src by `xlate GenInventory` on every ./check C03) lists every
   unwrap / expect / panicking macro / index / slice / arithmetic site of the functions syntactically reachable
   from Module::parse and Component::parse, keyed by (file, function, kind, ordinal within the function, token text).
   This file gives each of them a status:
     Reachable k : the site is a known panic site of class k (Model/ParseGlue.v) -- none since the repairs of
                   D09a..D09l: every site that used to be Reachable (classes 901..912) has been removed from /repo;
     Guarded why : the site cannot fire on the parse path, for the one-line reason given (an argument by reading,
                   not a proof; the fuzzing correspondence never saw it fire);
     Unknown     : not analysed (none today).
   Proofs/ParseProofs.v proves (vm_compute) that the keys listed here are exactly the generated ones, in order,
   and that the Reachable classes are exactly `known_panic_sites`.  A new unwrap on the parse path therefore
   breaks that theorem until it is given a status here. *)
From Coq Require Import List NArith String.
From Orca Require Import Gen.GenInventory Model.ParseGlue.
Import ListNotations.
Open Scope string_scope.
Open Scope N_scope.

Inductive status := Reachable (k : N) | Guarded (why : string) | Unknown.

Definition site_status : list (site * status) := [
  (mkSite "src/ir/component.rs" "Component::add_to_sections" "index" 0 "sections[*num_sections-1]",
      Guarded "`*num_sections > 0` is tested first (&&) and num_sections = sections.len(): both only grow, together, in the else-branch");
  (mkSite "src/ir/component.rs" "Component::add_to_sections" "arith" 0 "*num_sections-1",
      Guarded "`*num_sections > 0` is tested first (&&) and num_sections = sections.len(): both only grow, together, in the else-branch");
  (mkSite "src/ir/component.rs" "Component::add_to_sections" "arith" 1 "sections[*num_sections-1].0+=sections_added",
      Guarded "a counter of items / sections actually read from the input: bounded by the input length, an overflow needs an input of at least 4 GiB");
  (mkSite "src/ir/component.rs" "Component::add_to_sections" "index" 1 "sections[*num_sections-1]",
      Guarded "`*num_sections > 0` is tested first (&&) and num_sections = sections.len(): both only grow, together, in the else-branch");
  (mkSite "src/ir/component.rs" "Component::add_to_sections" "arith" 2 "*num_sections-1",
      Guarded "`*num_sections > 0` is tested first (&&) and num_sections = sections.len(): both only grow, together, in the else-branch");
  (mkSite "src/ir/component.rs" "Component::add_to_sections" "arith" 3 "*num_sections+=1",
      Guarded "a counter of items / sections actually read from the input: bounded by the input length, an overflow needs an input of at least 4 GiB");
  (mkSite "src/ir/component.rs" "Component::nested_section" "arith" 0 "range.start-start",
      Guarded "`start` is the offset the (nested) parser was created with; every range it reports lies at or after that offset");
  (mkSite "src/ir/component.rs" "Component::nested_section" "arith" 1 "range.end-range.start",
      Guarded "a Range reported by wasmparser has start <= end");
  (mkSite "src/ir/component.rs" "Component::parse_comp" "unwrap" 0 "name.parse().unwrap()",
      Guarded "String::from_str is infallible");
  (mkSite "src/ir/module/mod.rs" "Module::parse_internal" "arith" 0 "num_locals+=count",
      Guarded "wasmparser's LocalsReader::read keeps its own checked running total and fails with `too many locals` before the sum can pass u32::MAX");
  (mkSite "src/ir/module/mod.rs" "Module::parse_internal" "macro" 0 "todo!()",
      Guarded "the arms above match all 29 variants that wasmparser 0.235 defines for the non_exhaustive enum Payload");
  (mkSite "src/ir/module/mod.rs" "Module::parse_internal" "arith" 1 "abs_idx-imports.num_funcs",
      Guarded "else-branch of `abs_idx < imports.num_funcs`");
  (mkSite "src/ir/module/mod.rs" "Module::parse_internal" "unwrap" 0 "imp.name.parse().unwrap()",
      Guarded "String::from_str is infallible");
  (mkSite "src/ir/module/mod.rs" "Module::parse_internal" "arith" 2 "imp_fn_id+=1",
      Guarded "a counter of items / sections actually read from the input: bounded by the input length, an overflow needs an input of at least 4 GiB");
  (mkSite "src/ir/module/mod.rs" "Module::parse_internal" "index" 0 "functions[index]",
      Guarded "index < code_sections.len() = functions.len() after the IncorrectCodeCounts check");
  (mkSite "src/ir/module/mod.rs" "Module::parse_internal" "arith" 3 "imports.num_funcs as usize+index",
      Guarded "a counter of items / sections actually read from the input: bounded by the input length, an overflow needs an input of at least 4 GiB");
  (mkSite "src/ir/module/mod.rs" "Module::parse_internal" "index" 1 "functions[index]",
      Guarded "index < code_sections.len() = functions.len() after the IncorrectCodeCounts check");
  (mkSite "src/ir/module/mod.rs" "Module::parse_internal" "index" 2 "functions[index]",
      Guarded "index < code_sections.len() = functions.len() after the IncorrectCodeCounts check");
  (mkSite "src/ir/module/mod.rs" "Module::parse_internal" "arith" 4 "imports.num_funcs+index as u32",
      Guarded "a counter of items / sections actually read from the input: bounded by the input length, an overflow needs an input of at least 4 GiB");
  (mkSite "src/ir/module/mod.rs" "Module::parse_internal" "arith" 5 "imp_mem_id+=1",
      Guarded "a counter of items / sections actually read from the input: bounded by the input length, an overflow needs an input of at least 4 GiB");
  (mkSite "src/ir/module/mod.rs" "Module::parse_internal" "arith" 6 "imports.num_memories+index as u32",
      Guarded "a counter of items / sections actually read from the input: bounded by the input length, an overflow needs an input of at least 4 GiB");
  (mkSite "src/ir/module/module_functions.rs" "Functions::get" "index" 0 "self.functions[*function_id as usize]",
      Guarded "not on the parse path: matched by name only (the `.get(..)` / `.get_mut(..)` calls of the parse path are on a HashMap, a Vec and a slice)");
  (mkSite "src/ir/module/module_functions.rs" "Functions::get_mut" "index" 0 "self.functions[*function_id as usize]",
      Guarded "not on the parse path: matched by name only (the `.get(..)` / `.get_mut(..)` calls of the parse path are on a HashMap, a Vec and a slice)");
  (mkSite "src/ir/module/module_globals.rs" "ModuleGlobals::new" "arith" 0 "curr_global_id+=1",
      Guarded "a counter of items / sections actually read from the input: bounded by the input length, an overflow needs an input of at least 4 GiB");
  (mkSite "src/ir/module/module_globals.rs" "ModuleGlobals::new" "arith" 1 "curr_global_id+=1",
      Guarded "a counter of items / sections actually read from the input: bounded by the input length, an overflow needs an input of at least 4 GiB");
  (mkSite "src/ir/module/module_imports.rs" "ModuleImports::add" "arith" 0 "self.num_funcs+=1",
      Guarded "not on the parse path: matched by name only (`result.add(..)` in ModuleGlobals::new has a ModuleGlobals receiver)");
  (mkSite "src/ir/module/module_imports.rs" "ModuleImports::add" "arith" 1 "self.num_funcs_added+=1",
      Guarded "not on the parse path: matched by name only (`result.add(..)` in ModuleGlobals::new has a ModuleGlobals receiver)");
  (mkSite "src/ir/module/module_imports.rs" "ModuleImports::add" "arith" 2 "self.num_globals+=1",
      Guarded "not on the parse path: matched by name only (`result.add(..)` in ModuleGlobals::new has a ModuleGlobals receiver)");
  (mkSite "src/ir/module/module_imports.rs" "ModuleImports::add" "arith" 3 "self.num_globals_added+=1",
      Guarded "not on the parse path: matched by name only (`result.add(..)` in ModuleGlobals::new has a ModuleGlobals receiver)");
  (mkSite "src/ir/module/module_imports.rs" "ModuleImports::add" "arith" 4 "self.num_tables+=1",
      Guarded "not on the parse path: matched by name only (`result.add(..)` in ModuleGlobals::new has a ModuleGlobals receiver)");
  (mkSite "src/ir/module/module_imports.rs" "ModuleImports::add" "arith" 5 "self.num_tables_added+=1",
      Guarded "not on the parse path: matched by name only (`result.add(..)` in ModuleGlobals::new has a ModuleGlobals receiver)");
  (mkSite "src/ir/module/module_imports.rs" "ModuleImports::add" "arith" 6 "self.num_tags+=1",
      Guarded "not on the parse path: matched by name only (`result.add(..)` in ModuleGlobals::new has a ModuleGlobals receiver)");
  (mkSite "src/ir/module/module_imports.rs" "ModuleImports::add" "arith" 7 "self.num_tags_added+=1",
      Guarded "not on the parse path: matched by name only (`result.add(..)` in ModuleGlobals::new has a ModuleGlobals receiver)");
  (mkSite "src/ir/module/module_imports.rs" "ModuleImports::add" "arith" 8 "self.num_memories+=1",
      Guarded "not on the parse path: matched by name only (`result.add(..)` in ModuleGlobals::new has a ModuleGlobals receiver)");
  (mkSite "src/ir/module/module_imports.rs" "ModuleImports::add" "arith" 9 "self.num_memories_added+=1",
      Guarded "not on the parse path: matched by name only (`result.add(..)` in ModuleGlobals::new has a ModuleGlobals receiver)");
  (mkSite "src/ir/module/module_imports.rs" "ModuleImports::add" "arith" 10 "self.imports.len()-1",
      Guarded "not on the parse path: matched by name only (`result.add(..)` in ModuleGlobals::new has a ModuleGlobals receiver)");
  (mkSite "src/ir/module/module_imports.rs" "ModuleImports::get" "index" 0 "self.imports[*id as usize]",
      Guarded "not on the parse path: matched by name only (the `.get(..)` / `.get_mut(..)` calls of the parse path are on a HashMap, a Vec and a slice)");
  (mkSite "src/ir/module/module_imports.rs" "ModuleImports::new" "arith" 0 "def.num_funcs+=1",
      Guarded "a counter of items / sections actually read from the input: bounded by the input length, an overflow needs an input of at least 4 GiB");
  (mkSite "src/ir/module/module_imports.rs" "ModuleImports::new" "arith" 1 "def.num_globals+=1",
      Guarded "a counter of items / sections actually read from the input: bounded by the input length, an overflow needs an input of at least 4 GiB");
  (mkSite "src/ir/module/module_imports.rs" "ModuleImports::new" "arith" 2 "def.num_tables+=1",
      Guarded "a counter of items / sections actually read from the input: bounded by the input length, an overflow needs an input of at least 4 GiB");
  (mkSite "src/ir/module/module_imports.rs" "ModuleImports::new" "arith" 3 "def.num_tags+=1",
      Guarded "a counter of items / sections actually read from the input: bounded by the input length, an overflow needs an input of at least 4 GiB");
  (mkSite "src/ir/module/module_imports.rs" "ModuleImports::new" "arith" 4 "def.num_memories+=1",
      Guarded "a counter of items / sections actually read from the input: bounded by the input length, an overflow needs an input of at least 4 GiB");
  (mkSite "src/ir/module/module_memories.rs" "Memories::get_mut" "index" 0 "self.memories[*mem_id as usize]",
      Guarded "not on the parse path: matched by name only (the `.get(..)` / `.get_mut(..)` calls of the parse path are on a HashMap, a Vec and a slice)");
  (mkSite "src/ir/module/module_tables.rs" "ModuleTables::get" "index" 0 "self.tables[*table_id as usize]",
      Guarded "not on the parse path: matched by name only (the `.get(..)` / `.get_mut(..)` calls of the parse path are on a HashMap, a Vec and a slice)");
  (mkSite "src/ir/module/module_tables.rs" "ModuleTables::get_mut" "index" 0 "self.tables[*table_id as usize]",
      Guarded "not on the parse path: matched by name only (the `.get(..)` / `.get_mut(..)` calls of the parse path are on a HashMap, a Vec and a slice)");
  (mkSite "src/ir/module/module_tables.rs" "ModuleTables::get_mut" "macro" 0 "panic!('Invalid Table ID')",
      Guarded "not on the parse path: matched by name only (the `.get(..)` / `.get_mut(..)` calls of the parse path are on a HashMap, a Vec and a slice)");
  (mkSite "src/ir/module/module_types.rs" "ModuleTypes::new" "index" 0 "types[&id]",
      Guarded "id ranges over `types.keys()` collected two lines above from the same (unmodified) map: the key is present");
  (mkSite "src/ir/module/module_types.rs" "Types::params" "macro" 0 "panic!('Not a function!')",
      Guarded "not on the parse path: matched by name only (`fty.params()` in parse_internal is wasmparser::FuncType::params; the function list matches on Types::FuncType directly)");
  (mkSite "src/ir/module/module_types.rs" "Types::results" "macro" 0 "panic!('Not a function!')",
      Guarded "not on the parse path: matched by name only (`fty.results()` in parse_internal is wasmparser::FuncType::results)");
  (mkSite "src/ir/types.rs" "DataType::from [From<ValType>]" "macro" 0 "panic!('Not supported yet!')",
      Guarded "UnpackedIndex::Id is produced by the validator's canonicalisation only, never by the binary reader");
  (mkSite "src/ir/types.rs" "InitExpr::eval" "unwrap" 0 "RefType::new(true,hty).unwrap()",
      Guarded "HeapType::from_reader has already packed the concrete index (PackedIndex::from_module_index), so RefType::new succeeds");
  (mkSite "src/ir/types.rs" "v128_to_u128" "arith" 0 "(n[0]as u128)<<0",
      Guarded "u128 shifted left by a literal < 128");
  (mkSite "src/ir/types.rs" "v128_to_u128" "index" 0 "n[0]",
      Guarded "n : [u8; 16] indexed by a literal < 16");
  (mkSite "src/ir/types.rs" "v128_to_u128" "arith" 1 "(n[1]as u128)<<8",
      Guarded "u128 shifted left by a literal < 128");
  (mkSite "src/ir/types.rs" "v128_to_u128" "index" 1 "n[1]",
      Guarded "n : [u8; 16] indexed by a literal < 16");
  (mkSite "src/ir/types.rs" "v128_to_u128" "arith" 2 "(n[2]as u128)<<16",
      Guarded "u128 shifted left by a literal < 128");
  (mkSite "src/ir/types.rs" "v128_to_u128" "index" 2 "n[2]",
      Guarded "n : [u8; 16] indexed by a literal < 16");
  (mkSite "src/ir/types.rs" "v128_to_u128" "arith" 3 "(n[3]as u128)<<24",
      Guarded "u128 shifted left by a literal < 128");
  (mkSite "src/ir/types.rs" "v128_to_u128" "index" 3 "n[3]",
      Guarded "n : [u8; 16] indexed by a literal < 16");
  (mkSite "src/ir/types.rs" "v128_to_u128" "arith" 4 "(n[4]as u128)<<32",
      Guarded "u128 shifted left by a literal < 128");
  (mkSite "src/ir/types.rs" "v128_to_u128" "index" 4 "n[4]",
      Guarded "n : [u8; 16] indexed by a literal < 16");
  (mkSite "src/ir/types.rs" "v128_to_u128" "arith" 5 "(n[5]as u128)<<40",
      Guarded "u128 shifted left by a literal < 128");
  (mkSite "src/ir/types.rs" "v128_to_u128" "index" 5 "n[5]",
      Guarded "n : [u8; 16] indexed by a literal < 16");
  (mkSite "src/ir/types.rs" "v128_to_u128" "arith" 6 "(n[6]as u128)<<48",
      Guarded "u128 shifted left by a literal < 128");
  (mkSite "src/ir/types.rs" "v128_to_u128" "index" 6 "n[6]",
      Guarded "n : [u8; 16] indexed by a literal < 16");
  (mkSite "src/ir/types.rs" "v128_to_u128" "arith" 7 "(n[7]as u128)<<56",
      Guarded "u128 shifted left by a literal < 128");
  (mkSite "src/ir/types.rs" "v128_to_u128" "index" 7 "n[7]",
      Guarded "n : [u8; 16] indexed by a literal < 16");
  (mkSite "src/ir/types.rs" "v128_to_u128" "arith" 8 "(n[8]as u128)<<64",
      Guarded "u128 shifted left by a literal < 128");
  (mkSite "src/ir/types.rs" "v128_to_u128" "index" 8 "n[8]",
      Guarded "n : [u8; 16] indexed by a literal < 16");
  (mkSite "src/ir/types.rs" "v128_to_u128" "arith" 9 "(n[9]as u128)<<72",
      Guarded "u128 shifted left by a literal < 128");
  (mkSite "src/ir/types.rs" "v128_to_u128" "index" 9 "n[9]",
      Guarded "n : [u8; 16] indexed by a literal < 16");
  (mkSite "src/ir/types.rs" "v128_to_u128" "arith" 10 "(n[10]as u128)<<80",
      Guarded "u128 shifted left by a literal < 128");
  (mkSite "src/ir/types.rs" "v128_to_u128" "index" 10 "n[10]",
      Guarded "n : [u8; 16] indexed by a literal < 16");
  (mkSite "src/ir/types.rs" "v128_to_u128" "arith" 11 "(n[11]as u128)<<88",
      Guarded "u128 shifted left by a literal < 128");
  (mkSite "src/ir/types.rs" "v128_to_u128" "index" 11 "n[11]",
      Guarded "n : [u8; 16] indexed by a literal < 16");
  (mkSite "src/ir/types.rs" "v128_to_u128" "arith" 12 "(n[12]as u128)<<96",
      Guarded "u128 shifted left by a literal < 128");
  (mkSite "src/ir/types.rs" "v128_to_u128" "index" 12 "n[12]",
      Guarded "n : [u8; 16] indexed by a literal < 16");
  (mkSite "src/ir/types.rs" "v128_to_u128" "arith" 13 "(n[13]as u128)<<104",
      Guarded "u128 shifted left by a literal < 128");
  (mkSite "src/ir/types.rs" "v128_to_u128" "index" 13 "n[13]",
      Guarded "n : [u8; 16] indexed by a literal < 16");
  (mkSite "src/ir/types.rs" "v128_to_u128" "arith" 14 "(n[14]as u128)<<112",
      Guarded "u128 shifted left by a literal < 128");
  (mkSite "src/ir/types.rs" "v128_to_u128" "index" 14 "n[14]",
      Guarded "n : [u8; 16] indexed by a literal < 16");
  (mkSite "src/ir/types.rs" "v128_to_u128" "arith" 15 "(n[15]as u128)<<120",
      Guarded "u128 shifted left by a literal < 128");
  (mkSite "src/ir/types.rs" "v128_to_u128" "index" 15 "n[15]",
      Guarded "n : [u8; 16] indexed by a literal < 16")
].
