(* C24 -- the hand-written specification (the oracle) of the opcode helpers of the injection API.

   For every helper of the traits Opcode / MacroOpcode (src/opcode.rs): its parameter types, and the
   WebAssembly instruction(s) its NAME denotes -- given by mnemonic, the Wasm text mnemonic with '.' written
   '_' (which is how wasmparser names its visit_* methods: i32.div_s ~ "i32_div_s") -- together with, for
   every immediate of that instruction (named as the pinned wasmparser names the operator's fields), where
   its value comes from.  Written from the helper names/signatures and the WebAssembly specification, NOT
   from the Rust bodies; the translated bodies (Gen/GenHelpers.v) are compared against it in
   Proofs/HelperProofs.v.  Naming conventions of the helpers that differ from the Wasm mnemonics:
     *_stmt            the instruction without the suffix (return, if, else, loop)
     *_signed/_unsigned  *_s / *_u           lte/gte   le/ge
     i32_extend_8s     i32.extend8_s         *_trunc_f32s  *.trunc_f32_s   (likewise convert, extend_i32s/u)
     ref_test / ref_cast            the (ref ht) forms      0xFB 0x14 / 0xFB 0x16   (wasmparser: *_non_null)
     ref_test_null / ref_cast_null  the (ref null ht) forms 0xFB 0x15 / 0xFB 0x17   (wasmparser: *_nullable)
     u32_const / u64_const          i32.const / i64.const whose signed immediate is the two's-complement
                                    reinterpretation of the unsigned argument (same 32 / 64 bits)       *)
From Coq Require Import List NArith ZArith Bool String.
From Orca Require Import Wrap HelperLang.
Import ListNotations.
Local Open Scope string_scope.

(* where an immediate comes from *)
Inductive simm :=
| Same (i : nat)            (* the i-th argument, bit for bit (floats: the same IEEE bit pattern) *)
| TwosCompl32 (i : nat)     (* the i-th argument, a u32 v, as the i32 with the same bits: signed_32(v) *)
| TwosCompl64 (i : nat).    (* the i-th argument, a u64 v, as the i64 with the same bits: signed_64(v) *)

Record sop := mkSop { s_mnemonic : string; s_imms : list (string * simm) }.
Record hspec := mkSpec { sp_name : string; sp_params : list ty; sp_ops : list sop }.

Definition plain (helper mnemonic : string) : hspec := mkSpec helper [] [mkSop mnemonic []].

Definition spec : list hspec := [
  mkSpec "call" [Id "FunctionID"] [mkSop "call" [("function_index", Same 0)]];
  plain "return_stmt" "return";
  plain "nop" "nop";
  plain "unreachable" "unreachable";
  plain "select" "select";
  mkSpec "if_stmt" [BlockTy] [mkSop "if" [("blockty", Same 0)]];
  plain "else_stmt" "else";
  plain "end" "end";
  mkSpec "block" [BlockTy] [mkSop "block" [("blockty", Same 0)]];
  mkSpec "loop_stmt" [BlockTy] [mkSop "loop" [("blockty", Same 0)]];
  mkSpec "br" [U32] [mkSop "br" [("relative_depth", Same 0)]];
  mkSpec "br_if" [U32] [mkSop "br_if" [("relative_depth", Same 0)]];
  mkSpec "local_get" [Id "LocalID"] [mkSop "local_get" [("local_index", Same 0)]];
  mkSpec "local_set" [Id "LocalID"] [mkSop "local_set" [("local_index", Same 0)]];
  mkSpec "local_tee" [Id "LocalID"] [mkSop "local_tee" [("local_index", Same 0)]];
  mkSpec "i32_const" [I32] [mkSop "i32_const" [("value", Same 0)]];
  plain "i32_add" "i32_add";
  plain "i32_sub" "i32_sub";
  plain "i32_mul" "i32_mul";
  plain "i32_div_signed" "i32_div_s";
  plain "i32_div_unsigned" "i32_div_u";
  plain "i32_rem_unsigned" "i32_rem_u";
  plain "i32_rem_signed" "i32_rem_s";
  plain "i32_and" "i32_and";
  plain "i32_or" "i32_or";
  plain "i32_xor" "i32_xor";
  plain "i32_shl" "i32_shl";
  plain "i32_shr_signed" "i32_shr_s";
  plain "i32_shr_unsigned" "i32_shr_u";
  plain "i32_rotl" "i32_rotl";
  plain "i32_rotr" "i32_rotr";
  plain "i32_eq" "i32_eq";
  plain "i32_eqz" "i32_eqz";
  plain "i32_ne" "i32_ne";
  plain "i32_lt_unsigned" "i32_lt_u";
  plain "i32_lt_signed" "i32_lt_s";
  plain "i32_gt_unsigned" "i32_gt_u";
  plain "i32_gt_signed" "i32_gt_s";
  plain "i32_lte_unsigned" "i32_le_u";
  plain "i32_lte_signed" "i32_le_s";
  plain "i32_gte_unsigned" "i32_ge_u";
  plain "i32_gte_signed" "i32_ge_s";
  plain "i32_wrap_i64" "i32_wrap_i64";
  plain "i32_extend_8s" "i32_extend8_s";
  plain "i32_extend_16s" "i32_extend16_s";
  plain "i32_trunc_f32s" "i32_trunc_f32_s";
  plain "i32_trunc_f32u" "i32_trunc_f32_u";
  plain "i32_trunc_f64s" "i32_trunc_f64_s";
  plain "i32_trunc_f64u" "i32_trunc_f64_u";
  plain "i32_reinterpret_f32" "i32_reinterpret_f32";
  mkSpec "i64_const" [I64] [mkSop "i64_const" [("value", Same 0)]];
  plain "i64_add" "i64_add";
  plain "i64_sub" "i64_sub";
  plain "i64_mul" "i64_mul";
  plain "i64_div_signed" "i64_div_s";
  plain "i64_div_unsigned" "i64_div_u";
  plain "i64_rem_unsigned" "i64_rem_u";
  plain "i64_rem_signed" "i64_rem_s";
  plain "i64_and" "i64_and";
  plain "i64_or" "i64_or";
  plain "i64_xor" "i64_xor";
  plain "i64_shl" "i64_shl";
  plain "i64_shr_signed" "i64_shr_s";
  plain "i64_shr_unsigned" "i64_shr_u";
  plain "i64_rotl" "i64_rotl";
  plain "i64_rotr" "i64_rotr";
  plain "i64_eq" "i64_eq";
  plain "i64_eqz" "i64_eqz";
  plain "i64_ne" "i64_ne";
  plain "i64_lt_unsigned" "i64_lt_u";
  plain "i64_lt_signed" "i64_lt_s";
  plain "i64_gt_unsigned" "i64_gt_u";
  plain "i64_gt_signed" "i64_gt_s";
  plain "i64_lte_unsigned" "i64_le_u";
  plain "i64_lte_signed" "i64_le_s";
  plain "i64_gte_unsigned" "i64_ge_u";
  plain "i64_gte_signed" "i64_ge_s";
  plain "i64_extend_i32u" "i64_extend_i32_u";
  plain "i64_extend_i32s" "i64_extend_i32_s";
  plain "i64_trunc_f32s" "i64_trunc_f32_s";
  plain "i64_trunc_f32u" "i64_trunc_f32_u";
  plain "i64_trunc_f64s" "i64_trunc_f64_s";
  plain "i64_trunc_f64u" "i64_trunc_f64_u";
  plain "i64_reinterpret_f64" "i64_reinterpret_f64";
  mkSpec "f32_const" [F32] [mkSop "f32_const" [("value", Same 0)]];
  plain "f32_abs" "f32_abs";
  plain "f32_ceil" "f32_ceil";
  plain "f32_floor" "f32_floor";
  plain "f32_trunc" "f32_trunc";
  plain "f32_sqrt" "f32_sqrt";
  plain "f32_add" "f32_add";
  plain "f32_sub" "f32_sub";
  plain "f32_mul" "f32_mul";
  plain "f32_div" "f32_div";
  plain "f32_min" "f32_min";
  plain "f32_max" "f32_max";
  plain "f32_eq" "f32_eq";
  plain "f32_ne" "f32_ne";
  plain "f32_gt" "f32_gt";
  plain "f32_ge" "f32_ge";
  plain "f32_lt" "f32_lt";
  plain "f32_le" "f32_le";
  plain "f32_convert_i32s" "f32_convert_i32_s";
  plain "f32_convert_i32u" "f32_convert_i32_u";
  plain "f32_convert_i64s" "f32_convert_i64_s";
  plain "f32_convert_i64u" "f32_convert_i64_u";
  plain "f32_demote_f64" "f32_demote_f64";
  plain "f32_reinterpret_i32" "f32_reinterpret_i32";
  plain "f32_copysign" "f32_copysign";
  mkSpec "f64_const" [F64] [mkSop "f64_const" [("value", Same 0)]];
  plain "f64_abs" "f64_abs";
  plain "f64_ceil" "f64_ceil";
  plain "f64_floor" "f64_floor";
  plain "f64_trunc" "f64_trunc";
  plain "f64_sqrt" "f64_sqrt";
  plain "f64_add" "f64_add";
  plain "f64_sub" "f64_sub";
  plain "f64_mul" "f64_mul";
  plain "f64_div" "f64_div";
  plain "f64_min" "f64_min";
  plain "f64_max" "f64_max";
  plain "f64_eq" "f64_eq";
  plain "f64_ne" "f64_ne";
  plain "f64_gt" "f64_gt";
  plain "f64_ge" "f64_ge";
  plain "f64_lt" "f64_lt";
  plain "f64_le" "f64_le";
  plain "f64_reinterpret_i64" "f64_reinterpret_i64";
  plain "f64_promote_f32" "f64_promote_f32";
  plain "f64_convert_i32s" "f64_convert_i32_s";
  plain "f64_convert_i32u" "f64_convert_i32_u";
  plain "f64_convert_i64s" "f64_convert_i64_s";
  plain "f64_convert_i64u" "f64_convert_i64_u";
  plain "f64_copysign" "f64_copysign";
  mkSpec "memory_init" [U32; U32] [mkSop "memory_init" [("data_index", Same 0); ("mem", Same 1)]];
  mkSpec "memory_size" [U32] [mkSop "memory_size" [("mem", Same 0)]];
  mkSpec "memory_grow" [U32] [mkSop "memory_grow" [("mem", Same 0)]];
  mkSpec "memory_fill" [U32] [mkSop "memory_fill" [("mem", Same 0)]];
  mkSpec "memory_copy" [U32; U32] [mkSop "memory_copy" [("dst_mem", Same 0); ("src_mem", Same 1)]];
  mkSpec "memory_discard" [U32] [mkSop "memory_discard" [("mem", Same 0)]];
  mkSpec "data_drop" [U32] [mkSop "data_drop" [("data_index", Same 0)]];
  plain "drop" "drop";
  mkSpec "i32_load8_s" [MemArg] [mkSop "i32_load8_s" [("memarg", Same 0)]];
  mkSpec "i32_load8_u" [MemArg] [mkSop "i32_load8_u" [("memarg", Same 0)]];
  mkSpec "i32_load16_s" [MemArg] [mkSop "i32_load16_s" [("memarg", Same 0)]];
  mkSpec "i32_load16_u" [MemArg] [mkSop "i32_load16_u" [("memarg", Same 0)]];
  mkSpec "i32_load" [MemArg] [mkSop "i32_load" [("memarg", Same 0)]];
  mkSpec "i32_store" [MemArg] [mkSop "i32_store" [("memarg", Same 0)]];
  mkSpec "i32_store8" [MemArg] [mkSop "i32_store8" [("memarg", Same 0)]];
  mkSpec "i32_store16" [MemArg] [mkSop "i32_store16" [("memarg", Same 0)]];
  mkSpec "i64_load8_s" [MemArg] [mkSop "i64_load8_s" [("memarg", Same 0)]];
  mkSpec "i64_load8_u" [MemArg] [mkSop "i64_load8_u" [("memarg", Same 0)]];
  mkSpec "i64_load16_s" [MemArg] [mkSop "i64_load16_s" [("memarg", Same 0)]];
  mkSpec "i64_load16_u" [MemArg] [mkSop "i64_load16_u" [("memarg", Same 0)]];
  mkSpec "i64_load32_s" [MemArg] [mkSop "i64_load32_s" [("memarg", Same 0)]];
  mkSpec "i64_load32_u" [MemArg] [mkSop "i64_load32_u" [("memarg", Same 0)]];
  mkSpec "i64_load" [MemArg] [mkSop "i64_load" [("memarg", Same 0)]];
  mkSpec "i64_store" [MemArg] [mkSop "i64_store" [("memarg", Same 0)]];
  mkSpec "f32_load" [MemArg] [mkSop "f32_load" [("memarg", Same 0)]];
  mkSpec "f32_store" [MemArg] [mkSop "f32_store" [("memarg", Same 0)]];
  mkSpec "f64_load" [MemArg] [mkSop "f64_load" [("memarg", Same 0)]];
  mkSpec "f64_store" [MemArg] [mkSop "f64_store" [("memarg", Same 0)]];
  mkSpec "global_get" [Id "GlobalID"] [mkSop "global_get" [("global_index", Same 0)]];
  mkSpec "global_set" [Id "GlobalID"] [mkSop "global_set" [("global_index", Same 0)]];
  mkSpec "ref_null" [HeapTy] [mkSop "ref_null" [("hty", Same 0)]];
  plain "ref_is_null" "ref_is_null";
  mkSpec "ref_func" [U32] [mkSop "ref_func" [("function_index", Same 0)]];
  plain "ref_eq" "ref_eq";
  plain "ref_as_non_null" "ref_as_non_null";
  mkSpec "struct_new" [Id "TypeID"] [mkSop "struct_new" [("struct_type_index", Same 0)]];
  mkSpec "struct_new_default" [Id "TypeID"] [mkSop "struct_new_default" [("struct_type_index", Same 0)]];
  mkSpec "struct_get" [Id "TypeID"; Id "FieldID"] [mkSop "struct_get" [("struct_type_index", Same 0); ("field_index", Same 1)]];
  mkSpec "struct_get_s" [Id "TypeID"; Id "FieldID"] [mkSop "struct_get_s" [("struct_type_index", Same 0); ("field_index", Same 1)]];
  mkSpec "struct_get_u" [Id "TypeID"; Id "FieldID"] [mkSop "struct_get_u" [("struct_type_index", Same 0); ("field_index", Same 1)]];
  mkSpec "struct_set" [Id "TypeID"; Id "FieldID"] [mkSop "struct_set" [("struct_type_index", Same 0); ("field_index", Same 1)]];
  mkSpec "array_new" [Id "TypeID"] [mkSop "array_new" [("array_type_index", Same 0)]];
  mkSpec "array_new_default" [Id "TypeID"] [mkSop "array_new_default" [("array_type_index", Same 0)]];
  mkSpec "array_new_fixed" [Id "TypeID"; U32] [mkSop "array_new_fixed" [("array_type_index", Same 0); ("array_size", Same 1)]];
  mkSpec "array_new_data" [Id "TypeID"; Id "DataSegmentID"] [mkSop "array_new_data" [("array_type_index", Same 0); ("array_data_index", Same 1)]];
  mkSpec "array_new_elem" [Id "TypeID"; Id "ElementID"] [mkSop "array_new_elem" [("array_type_index", Same 0); ("array_elem_index", Same 1)]];
  mkSpec "array_get" [Id "TypeID"] [mkSop "array_get" [("array_type_index", Same 0)]];
  mkSpec "array_get_s" [Id "TypeID"] [mkSop "array_get_s" [("array_type_index", Same 0)]];
  mkSpec "array_get_u" [Id "TypeID"] [mkSop "array_get_u" [("array_type_index", Same 0)]];
  mkSpec "array_set" [Id "TypeID"] [mkSop "array_set" [("array_type_index", Same 0)]];
  plain "array_len" "array_len";
  mkSpec "array_fill" [Id "TypeID"] [mkSop "array_fill" [("array_type_index", Same 0)]];
  mkSpec "array_copy" [Id "TypeID"; Id "TypeID"] [mkSop "array_copy" [("array_type_index_dst", Same 0); ("array_type_index_src", Same 1)]];
  mkSpec "array_init_data" [Id "TypeID"; Id "DataSegmentID"] [mkSop "array_init_data" [("array_type_index", Same 0); ("array_data_index", Same 1)]];
  mkSpec "array_init_elem" [Id "TypeID"; Id "ElementID"] [mkSop "array_init_elem" [("array_type_index", Same 0); ("array_elem_index", Same 1)]];
  mkSpec "ref_test" [HeapTy] [mkSop "ref_test_non_null" [("hty", Same 0)]];
  mkSpec "ref_test_null" [HeapTy] [mkSop "ref_test_nullable" [("hty", Same 0)]];
  mkSpec "ref_cast" [HeapTy] [mkSop "ref_cast_non_null" [("hty", Same 0)]];
  mkSpec "ref_cast_null" [HeapTy] [mkSop "ref_cast_nullable" [("hty", Same 0)]];
  plain "any_convert_extern" "any_convert_extern";
  plain "extern_convert_any" "extern_convert_any";
  plain "ref_i31" "ref_i31";
  plain "i31_get_s" "i31_get_s";
  plain "i31_get_u" "i31_get_u";
  mkSpec "u32_const" [U32] [mkSop "i32_const" [("value", TwosCompl32 0)]];
  mkSpec "u64_const" [U64] [mkSop "i64_const" [("value", TwosCompl64 0)]]
].

Definition lookup_spec (name : string) : option hspec :=
  find (fun s => String.eqb (sp_name s) name) spec.

(* ---- meaning ---- *)
Definition simm_eval (args : list val) (s : simm) : option val :=
  match s with
  | Same i => nth_error args i
  | TwosCompl32 i => match nth_error args i with Some (VZ v) => Some (VZ (as_i32 v)) | _ => None end
  | TwosCompl64 i => match nth_error args i with Some (VZ v) => Some (VZ (as_i64 v)) | _ => None end
  end.

Definition spec_field (args : list val) (given : list (string * simm)) (f : string * ty) : option val :=
  match assoc (fst f) given with
  | Some s => simm_eval args s
  | None => None
  end.

(* the instruction a [sop] denotes for the given arguments: operator code + immediates in the operator's
   declaration order (every immediate must be specified, and nothing else) *)
Definition spec_inj (tbl : list opinfo) (args : list val) (s : sop) : option (N * list val) :=
  match find_mnemonic tbl (s_mnemonic s) with
  | None => None
  | Some op =>
      if Nat.eqb (List.length (s_imms s)) (List.length (op_fields op)) then
        match map_opt (spec_field args (s_imms s)) (op_fields op) with
        | Some vs => Some (op_code op, vs)
        | None => None
        end
      else None
  end.

Definition spec_run (tbl : list opinfo) (s : hspec) (args : list val) : option (list (N * list val)) :=
  map_opt (spec_inj tbl args) (sp_ops s).
