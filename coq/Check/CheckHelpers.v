(* Opcode-helpers engine (C24): the case format of harness/src/bin/helpers.rs, the correspondence check
   (the TRANSLATED helper body evaluated on the case's arguments = what the real helper was observed to
   inject) and the property check (the hand-written SPECIFICATION evaluated on the arguments = observed). *)
From Coq Require Import List NArith ZArith Bool String.
From Orca Require Import Util Wrap HelperLang HelperSpec GenHelpers.
Import ListNotations.

Record hcase := mkH {
  hc_helper : nat;                         (* position in the harness's own list of helper names *)
  hc_mode : N;                             (* how the injection was observed:
                                              0 the Operator value pushed into a FunctionBuilder's body;
                                              1 FunctionBuilder -> finish_module -> Module::encode -> wasmparser;
                                              2 ModuleIterator (before instr 0) -> encode -> wasmparser;
                                              3 FunctionModifier (before instr 0) -> encode -> wasmparser;
                                              4 ComponentIterator (before instr 0 of the embedded module) -> Component::encode -> wasmparser *)
  hc_args : list val;                      (* the arguments the helper was called with *)
  hc_obs : option (list (N * list Z)) }.   (* operators observed: (code, immediates); None = panic / undecodable *)

Fixpoint zs_eqb (a b : list Z) : bool :=
  match a, b with
  | [], [] => true
  | x :: a', y :: b' => Z.eqb x y && zs_eqb a' b'
  | _, _ => false
  end.
Fixpoint ops_eqb (a b : list (N * list Z)) : bool :=
  match a, b with
  | [], [] => true
  | (c, x) :: a', (d, y) :: b' => N.eqb c d && zs_eqb x y && ops_eqb a' b'
  | _, _ => false
  end.
Definition obs_eqb (a b : option (list (N * list Z))) : bool :=
  match a, b with
  | Some x, Some y => ops_eqb x y
  | None, None => true
  | _, _ => false
  end.

(* the harness numbers operators by their position in wasmparser's for_each_operator! expansion and knows
   helpers by the names written in its call table: both must be the tables the translator produced *)
Fixpoint strs_eqb (a b : list string) : bool :=
  match a, b with
  | [], [] => true
  | x :: a', y :: b' => String.eqb x y && strs_eqb a' b'
  | _, _ => false
  end.
Fixpoint optable_matches (i : N) (tbl : list opinfo) (hops : list (string * list string)) : bool :=
  match tbl, hops with
  | [], [] => true
  | o :: tbl', (n, fs) :: hops' =>
      N.eqb (op_code o) i && String.eqb (op_name o) n && strs_eqb (map fst (op_fields o)) fs
      && optable_matches (i + 1) tbl' hops'
  | _, _ => false
  end.
Definition tables_agree (names : list string) (hops : list (string * list string)) : bool :=
  same_names names (map h_name helpers) && optable_matches 0 optable hops.

Definition model_obs (h : helper) (c : hcase) : option (list (N * list Z)) :=
  option_map (flat_ops (N.eqb (hc_mode c) 0)) (run_helper optable h (hc_args c)).
Definition spec_obs (name : string) (c : hcase) : option (list (N * list Z)) :=
  match lookup_spec name with
  | Some sp => option_map (flat_ops (N.eqb (hc_mode c) 0)) (spec_run optable sp (hc_args c))
  | None => None
  end.

Definition case_name (names : list string) (c : hcase) : string := nth (hc_helper c) names EmptyString.

(* translated body = observed *)
Definition agree (names : list string) (tables_ok : bool) (c : hcase) : bool :=
  tables_ok &&
  match find_helper helpers (case_name names c) with
  | Some h => obs_eqb (model_obs h c) (hc_obs c)
  | None => false
  end.
(* the arguments lie in the range of the helper's parameter types *)
Definition in_domain (names : list string) (c : hcase) : bool :=
  match find_helper helpers (case_name names c) with
  | Some h => args_ok (map snd (h_params h)) (hc_args c)
  | None => true
  end.
(* specification = observed (independent of the translated bodies) *)
Definition holds (names : list string) (c : hcase) : bool :=
  match spec_obs (case_name names c) c with
  | Some e => obs_eqb (Some e) (hc_obs c)
  | None => false
  end.

Definition verdict24 (names : list string) (tables_ok : bool) (c : hcase) : verdict :=
  (agree names tables_ok c, in_domain names c, holds names c, []).

Definition report_C24 (names : list string) (hops : list (string * list string)) (cases : list hcase) :=
  let ok := tables_agree names hops in
  run_report (verdict24 names ok) cases.
