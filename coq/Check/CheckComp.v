(* C27 -- component round trip preserves structure at any nesting depth.
   The Coq type of one harness case, the correspondence test [agree] (model = observed, and the model's
   payload stream = the payload sequence wasmparser really produced), the domain, and the property checker
   [holds27], which is written against the property statement -- it never mentions the model's stack / log /
   replay: it normalises the *input* tree and the decoded *output* tree and compares them. *)
From Coq Require Import List NArith Bool.
Import ListNotations.
From Orca Require Import Util Comp.
Local Open Scope N_scope.

(* ------------------------------------------------------------------------------------------ *)
(* structural equality of trees *)
Fixpoint list_eqb {A} (eqb : A -> A -> bool) (a b : list A) : bool :=
  match a, b with
  | [], [] => true
  | x :: a', y :: b' => eqb x y && list_eqb eqb a' b'
  | _, _ => false
  end.
Definition entry_eqb (a b : N * N) : bool := (fst a =? fst b) && (snd a =? snd b).
Fixpoint node_eqb (a b : node) : bool :=
  match a, b with
  | NItems k x, NItems k' y => ikind_eqb k k' && list_eqb N.eqb x y
  | NMod t c, NMod t' c' => (t =? t') && list_eqb N.eqb c c'
  | NCustom t, NCustom t' => t =? t'
  | NStart t, NStart t' => t =? t'
  | NNames e, NNames e' => list_eqb entry_eqb e e'
  | NComp cs, NComp cs' =>
      (fix go (l l' : list node) : bool :=
         match l, l' with
         | [], [] => true
         | x :: r, y :: r' => node_eqb x y && go r r'
         | _, _ => false
         end) cs cs'
  | _, _ => false
  end.
Definition nodes_eqb (a b : list node) : bool := list_eqb node_eqb a b.

(* ------------------------------------------------------------------------------------------ *)
(* "the same sections in the same order with the same contents, at every depth", made precise:
   two component bodies are equivalent when their normal forms are equal, where the normal form
     - merges adjacent item sections of one kind (concatenating their items) -- how many sections a run of
       items of one kind is split into is framing, not content;
     - takes the component-name section(s) out of the section sequence (their position is framing) and keeps
       their entries, grouped by subsection kind in the canonical subsection order, as one trailing node;
     - identifies a core module with its content token (the custom-section list attached to input modules only
       feeds the payload stream);
     - is applied recursively to nested components.
   Everything else -- kinds, order, every item token, every module, custom and start section, the nesting -- must
   coincide. *)
Definition is_names (nd : node) : bool := match nd with NNames _ => true | _ => false end.
Definition not_names (nd : node) : bool := negb (is_names nd).
Definition names_of (cs : list node) : list (N * N) :=
  flat_map (fun nd => match nd with NNames es => es | _ => [] end) cs.
Definition all_name_kinds : list N := 0 :: name_kinds.
Definition canon_names (es : list (N * N)) : list (N * N) :=
  flat_map (fun k => filter (fun e => fst e =? k) es) all_name_kinds.

(* merging, with the accumulator reversed (its head is the last section so far) *)
Definition merge1 (acc : list node) (nd : node) : list node :=
  match nd, acc with
  | NItems k b, NItems k' a :: r => if ikind_eqb k' k then NItems k' (a ++ b) :: r else nd :: acc
  | _, _ => nd :: acc
  end.
Definition merge (cs : list node) : list node := rev (fold_left merge1 cs []).

Fixpoint norm (nd : node) : node :=
  match nd with
  | NComp cs => NComp (merge (filter not_names (map norm cs)) ++ [NNames (canon_names (names_of cs))])
  | NMod t _ => NMod t []
  | _ => nd
  end.
Definition norm_body (cs : list node) : list node :=
  merge (filter not_names (map norm cs)) ++ [NNames (canon_names (names_of cs))].

Definition eqv (a b : list node) : Prop := norm_body a = norm_body b.
Definition eqvb (a b : list node) : bool := nodes_eqb (norm_body a) (norm_body b).

(* ------------------------------------------------------------------------------------------ *)
(* well-formedness the binary format / the validator guarantee and the statement relies on: per component at most
   one start section, at most one component-name entry of kind 0 (the component's own name), no unknown name
   subsection *)
Definition is_start (nd : node) : bool := match nd with NStart _ => true | _ => false end.
Definition wf_level (cs : list node) : bool :=
  Nat.leb (length (filter is_start cs)) 1
  && Nat.leb (length (filter (fun e => fst e =? 0) (names_of cs))) 1
  && forallb (fun e => fst e <=? 13) (names_of cs).
Fixpoint wf_node (nd : node) : bool :=
  match nd with
  | NComp cs => wf_level cs && forallb wf_node cs
  | _ => true
  end.
Definition wf (cs : list node) : bool := wf_level cs && forallb wf_node cs.

(* ------------------------------------------------------------------------------------------ *)
(* the quirk-table machinery (the table is empty nowadays).

   D28 / D29 (wrappers.rs): a component-type item that the re-encoding helpers change -- exactly the items the
   harness lists in the case's [sf] table with a different image.  D28: a payload-less `stream` inside a nested
   component / instance type declaration comes back as `future`; D29: an explicit core rec group inside an
   instance type declaration (or inside a nested component type declaration) comes back as separate types.
   [reenc_hit sf t]: some component-type item of the tree (any depth) is re-encoded to a different item. *)
Fixpoint sf_hit (sf : list (N * N)) (nd : node) : bool :=
  match nd with
  | NItems ICompType its => existsb (fun t => negb (sf_apply sf t =? t)) its
  | NComp cs => existsb (sf_hit sf) cs
  | _ => false
  end.
Definition reenc_hit (sf : list (N * N)) (cs : list node) : bool := existsb (sf_hit sf) cs.
Fixpoint hit_items (sf : list (N * N)) (nd : node) : list N :=
  match nd with
  | NItems ICompType its => filter (fun t => negb (sf_apply sf t =? t)) its
  | NComp cs => flat_map (hit_items sf) cs
  | _ => []
  end.
Fixpoint dedup (l : list N) : list N :=
  match l with
  | [] => []
  | x :: r => x :: filter (fun y => negb (y =? x)) (dedup r)
  end.

(* nesting depth (root = 0; a module or component directly in the root = 1) is [Comp.depth] *)

(* ------------------------------------------------------------------------------------------ *)
(* one harness case *)
Inductive observed :=
| OPanic                                   (* parse or encode panicked *)
| OErr                                     (* Component::parse returned Err *)
| OUndecodable                             (* the output could not be decoded back into a section tree *)
| OTree (t : list node) (valid : bool).    (* decoded output, and wasmparser::Validator's verdict on it *)

Record ccase := mkCase {
  c_in : list node;          (* decoded input *)
  c_valid : bool;            (* the validator (all features) accepts the input *)
  c_sf : list (N * N);       (* component-type item |-> the item as wrappers.rs re-encodes it (only where that differs) *)
  c_qk : list (N * N);       (* component-type item |-> number of the wrappers.rs quirk that fires on it (28, 29) *)
  c_stream : list N;         (* flatcode of the payload sequence Parser::parse_all produced for the input *)
  c_obs : observed }.

Definition model (c : ccase) : option (list node) := roundtrip (c_sf c) (c_in c).

Definition agree (c : ccase) : bool :=
  list_eqb N.eqb (flatcode (stream (c_in c))) (c_stream c)
  && match model c, c_obs c with
     | Some t, OTree t' _ => nodes_eqb t t'
     | None, OPanic => true
     | _, _ => false
     end.

Definition domain27 (c : ccase) : bool := c_valid c && wf (c_in c).

(* the property on the observed output: a valid component equivalent to the input *)
Definition holds27 (c : ccase) : bool :=
  match c_obs c with
  | OTree t v => v && eqvb t (c_in c)
  | _ => false
  end.

(* the classes of the quirks that fire on the re-encoded items; 99 = a re-encoded item without a listed quirk *)
Definition quirk_classes (c : ccase) : list N :=
  if reenc_hit (c_sf c) (c_in c)
  then match flat_map (fun t => map snd (filter (fun e => fst e =? t) (c_qk c)))
                      (flat_map (hit_items (c_sf c)) (c_in c)) with
       | [] => [99]
       | ks => dedup ks
       end
  else [].
(* (the input class D14 -- a nested component with bodies at depth >= 2 whose sections leaked into its parent -- is
   gone: Component::parse_comp now follows the nesting while it skips, see Model/Comp.v) *)
Definition classes27 (c : ccase) : list N := quirk_classes c.

Definition verdict27 (c : ccase) : bool * bool * bool * list N :=
  (agree c, domain27 c, holds27 c, classes27 c).
Definition report_C27 := run_report verdict27.
