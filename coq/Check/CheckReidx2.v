(* C05, index side: the mirror model now also predicts whether a SECOND encode() gives the same bytes
   (Model/Reindex2.v), the prediction is compared with the observation, and the known class D01 excuses a
   difference only when the model of the in-place rewriting predicts exactly that difference. *)
From Coq Require Import List Arith NArith Bool.
Import ListNotations.
From Orca Require Import Util Reindex Reindex2 CheckReidx.
Local Open Scope N_scope.

(* what the model says about two consecutive encodings of the final state of a case: Some true = same module,
   Some false = the second encoding differs or panics, None = the first encoding panics *)
Definition model_same2 (c : rcase) : option bool :=
  let m := final_model c in
  let dead := dead_exports (h_ops c) in
  match encode m dead (sites c) with
  | Panic _ => None
  | Ok e1 => match encode_again m dead (sites c) with
             | Ok e2 => Some (emod_eqb e1 e2)
             | Panic _ => Some false
             end
  end.

Definition agree05 (c : rcase) : bool :=
  agree c &&
  (if o_api_panic c then true
   else match model_same2 c with
        | Some b => encoded c && Bool.eqb b (o_same2 c)
        | None => negb (encoded c)
        end).

(* D01: the id maps are re-applied by a second encode.  The class is decided on the input through the model: the
   model predicts that the second encoding differs from the first. *)
Definition known_D01 (c : rcase) : bool :=
  match model_same2 c with Some false => true | _ => false end.

(* "settled": the first encode changes nothing in the IR that a second one would read differently -- no item vector
   is reorganised and every id map is the identity (executable; premise of C05_settled_second_encode_same) *)
Definition id_map (m : list (N * N)) : bool := forallb (fun kv => N.eqb (fst kv) (snd kv)) m.
Definition settled_space (s : space) : bool :=
  match index_space s with
  | Ok (l, m) => id_map m && (if s_recalc s then leqb (fun a b => N.eqb (it_id a) (it_id b) && Bool.eqb (it_del a) (it_del b)
                                                               && optN_eqb (it_imp a) (it_imp b) && N.eqb (it_fp a) (it_fp b)) l (s_items s)
                              else true)
  | Panic _ => false
  end.
Definition settled (m : mst) : bool := settled_space (m_f m) && settled_space (m_g m) && settled_space (m_m m).

Definition verdict05 (c : rcase) : Util.verdict :=
  (agree05 c, negb (o_api_panic c) && encoded c, o_same2 c, cls c [K 1 known_D01]).

Definition report_C05 := run_report verdict05.
