(* C05, index side: the mirror model now also predicts whether a SECOND encode() gives the same bytes
   (Model/Reindex2.v), the prediction is compared with the observation, and the known class D01 excuses a
   difference only when the model of the in-place rewriting predicts exactly that difference. *)
From Coq Require Import List Arith NArith Bool.
Import ListNotations.
From Orca Require Import Util Reindex Reindex2 CheckReidx.
Local Open Scope N_scope.

(* what the model says about two consecutive encodings of the final state of a case: Some true = same module,
   Some false = the second encoding differs or panics, None = the first encoding panics *)
Definition model_same2 (c : rcase) : option bool :=
  let m := final_model c in
  let dead := dead_exports (h_ops c) in
  match encode m dead (sites c) with
  | Panic _ => None
  | Ok e1 => match encode_again m dead (sites c) with
             | Ok e2 => Some (emod_eqb e1 e2)
             | Panic _ => Some false
             end
  end.

(* a C05 case: the case of the re-indexing engine plus what the SECOND encode() was observed to emit (decoded like
   the first; None = the second encode panicked, or no first encoding exists) *)
Record rcase2 := mkRC2 { rc2 : rcase; o_enc2 : option emod }.

Definition optE_eqb (a b : option emod) : bool :=
  match a, b with Some x, Some y => emod_eqb x y | None, None => true | _, _ => false end.

(* the model agrees with the implementation on the history, on the first encoding, on the CONTENT of the second
   encoding (or on its panic), and on whether the two real byte strings were equal *)
Definition is_none_e (o : option emod) : bool := match o with None => true | Some _ => false end.
Definition agree05 (c2 : rcase2) : bool :=
  let c := rc2 c2 in
  agree c &&
  (if o_api_panic c then true
   else let m := final_model c in
        let dead := dead_exports (h_ops c) in
        match encode m dead (sites c) with
        | Panic _ => negb (encoded c)
        | Ok e1 =>
            encoded c &&
            match encode_again m dead (sites c) with
            | Ok e2 => optE_eqb (Some e2) (o_enc2 c2) && Bool.eqb (emod_eqb e1 e2) (o_same2 c)
            | Panic _ => is_none_e (o_enc2 c2) && negb (o_same2 c)
            end
        end).

(* D01: the id maps are re-applied by a second encode.  The class is decided on the input through the model: the
   model predicts that the second encoding differs from the first. *)
Definition known_D01 (c : rcase) : bool :=
  match model_same2 c with Some false => true | _ => false end.

(* "settled": the first encode changes nothing in the IR that a second one would read differently -- no item vector
   is reorganised and every id map is the identity (executable; premise of C05_settled_second_encode_same) *)
Definition id_map (m : list (N * N)) : bool := forallb (fun kv => N.eqb (fst kv) (snd kv)) m.
Definition settled_space (s : space) : bool :=
  match index_space s with
  | Ok (l, m) => id_map m && (if s_recalc s then leqb (fun a b => N.eqb (it_id a) (it_id b) && Bool.eqb (it_del a) (it_del b)
                                                               && optN_eqb (it_imp a) (it_imp b) && N.eqb (it_fp a) (it_fp b)) l (s_items s)
                              else true)
  | Panic _ => false
  end.
Definition settled (m : mst) : bool := settled_space (m_f m) && settled_space (m_g m) && settled_space (m_m m).

Definition verdict05 (c2 : rcase2) : Util.verdict :=
  let c := rc2 c2 in
  (agree05 c2, negb (o_api_panic c) && encoded c, o_same2 c, cls c [K 1 known_D01]).

Definition report_C05 := run_report verdict05.
