(* Re-indexing cases whose observation is the mirror model's own output (refutation witnesses of the
   known findings, stated inside Coq; the harness replays the same shapes on the implementation). *)
From Coq Require Import List Arith NArith Bool.
Import ListNotations.
From Orca Require Import Util Reindex CheckReidx.
Local Open Scope N_scope.

Definition self_r (imports : list (N * N)) (funcs globals mems : list N) (h : list op) (ss : list rsite) : rcase :=
  let c0 := mkRC imports funcs globals mems 0 h ss [] false None true true in
  let '(m, rets, p) := run_pref (mk_base c0) h [] in
  let enc := if p then None else match encode m (dead_exports h) ss with Ok e => Some e | Panic _ => None end in
  mkRC imports funcs globals mems 0 h ss rets p enc true true.
Definition holds_of (v : Util.verdict) : bool := let '(_, _, h, _) := v in h.
Definition dom_of (v : Util.verdict) : bool := let '(_, d, _, _) := v in d.
Definition known_of (v : Util.verdict) : list N := let '(_, _, _, k) := v in k.
