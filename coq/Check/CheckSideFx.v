(* Side-effect engine (C23): case format, agreement of the mirror model with the implementation, the independent
   specification written against the property text, the checker on the *observed* report, known classes.

   Property text: "Pulling side effects returns one record per added item or injected probe that carries a tag,
   with that tag and with the item's content, and no record for items that were already in the parsed module; code
   bodies in probe records use the same index space as the encoded module."

   What the specification requires:
   * an added item / a probe *carries a tag* when a non-empty tag was given (`_with_tag`, a tag argument,
     append_tag_at).  For each of those: exactly one record, with that tag and the item's content.
   * every record must belong to an item *added by the history and still present* (never to a parsed or deleted
     item), at most one record per item; for an item without a non-empty tag (plain API = the empty default tag,
     or no tag at all) a record is tolerated - the text is silent about them - but only with the empty tag.
   * content = the fields that identify the item (signature; import kind and name; export name and kind; initial
     size; data kind and bytes; initial value; function fingerprint).  Index-valued fields of addition records
     (Export.index, Func.id and Func.body, Global.id, Memory.id, ActiveData.memory_index) are in the id space of
     the API, not of the encoded module; the text constrains only the code bodies of probe records, so they are
     compared with the mirror model but not judged.
   * a probe = (function, instruction, mode) with its operators (first operator: a unique marker constant).  Its
     record names that function by its index in the encoded module, that instruction and mode, carries the
     probe's tag, and its body is exactly the run of operators emitted for the probe in the encoded function
     (same index space), read back from the real encoding.  A probe whose code the encoder drops (after / alternate
     code of the function's final `end`, alternate or special code on an instruction that a block-alt removes) is no
     side effect of the encoded module: a record is required for the tagged probes whose marker occurs in the encoding. *)
From Coq Require Import List Arith NArith ZArith Bool Lia.
Import ListNotations.
From Orca Require Import Util Flat Lowering CheckLow Reindex CheckReidx SideFx.
Local Open Scope N_scope.

Definition probe := (nat * mode * list fop * tg)%type.

Record scase := mkSC {
  sb_imports : list (N * N); sb_funcs : list N; sb_globals : list N; sb_mems : list N;
  sb_ntypes : N;                      (* type k = (i32^k) -> (), k < ntypes *)
  sb_exports : list N;                (* parsed function exports e0.. (function ids) *)
  sb_ndata : N;                       (* parsed passive data segments with first byte 200+i *)
  sb_target : N;                      (* id of the parsed local function that is instrumented *)
  sb_body : list fop;                 (* its body *)
  sh_ops : list sop;
  s_plan : list probe;
  s_entry : option (list fop * tg); s_exit : option (list fop * tg);
  so_rets : list (option N); so_api_panic : bool;
  so_fx : option (list (N * list srec));      (* records per InjectType code (ascending, empty kinds absent); None = panic *)
  so_enc : option (emod * list fop) }.        (* decoded layout and decoded body of the target function; None = panic *)

Definition to_rc (c : scase) : rcase :=
  mkRC (sb_imports c) (sb_funcs c) (sb_globals c) (sb_mems c) 0 [] [] [] false None true true.

Fixpoint seqN (start : N) (n : nat) : list N := match n with O => [] | S n' => start :: seqN (start + 1) n' end.
Fixpoint base_exports (k : N) (l : list N) : list sexport :=
  match l with [] => [] | id :: l' => mkX k 0 id None false :: base_exports (k + 1) l' end.
Definition sinit (c : scase) : sst :=
  mkSt (mk_base (to_rc c))
       (map (fun k => (k, @None N)) (seqN 0 (N.to_nat (sb_ntypes c))))
       [] [] [] [] []
       (base_exports 0 (sb_exports c))
       (map (fun k => mkD false (200 + k) 0 None) (seqN 0 (N.to_nat (sb_ndata c)))).

Fixpoint srun_pref (s : sst) (h : list sop) (rets : list (option N)) : sst * list (option N) * bool :=
  match h with
  | [] => (s, rets, false)
  | o :: h' => match sstep s o with
               | Ok (s', r) => srun_pref s' h' (rets ++ [r])
               | Panic _ => (s, rets, true)
               end
  end.

(* ---------- the probes of the instrumented function ---------- *)
Definition plan3 (p : list probe) : list (nat * mode * list fop) := map (fun x : probe => let '(i, m, o, _) := x in (i, m, o)) p.
Definition mode_code (m : mode) : N :=
  match m with MBefore => 0 | MAfter => 1 | MAlternate => 2 | MSemanticAfter => 3 | MBlockEntry => 4 | MBlockExit => 5 | MBlockAlt => 6 end.
Definition tgtok (t : tg) : N := match t with Some k => k | None => 0 end.
Definition plan_tag (p : list probe) (idx : nat) (m : mode) : N :=
  match find (fun x : probe => let '(i, m', _, _) := x in Nat.eqb i idx && N.eqb (mode_code m') (mode_code m)) p with
  | Some (_, _, _, t) => tgtok t
  | None => 0
  end.
Definition ops_of (x : option (list fop * tg)) : list fop := match x with Some (o, _) => o | None => [] end.
Definition tag_of_fl (x : option (list fop * tg)) : N := match x with Some (_, t) => tgtok t | None => 0 end.

(* flags of the target function after the injection calls and resolve_special_instrumentation *)
Definition resolved (c : scase) : option (list (fop * flags)) :=
  match apply_plan false (plan3 (s_plan c)) (map (fun o => (o, no_flags)) (sb_body c)) false with
  | None => None
  | Some (fb, sp) =>
      let entry := ops_of (s_entry c) in let exit := ops_of (s_exit c) in
      let has_special := sp || negb (is_nil entry) || negb (is_nil exit) in
      Some (fst (Lowering.resolve has_special entry exit 0 fb (mkLocals 0 0 [])))
  end.
(* the flags after the injection calls, before resolve_special_instrumentation *)
Definition flagged (c : scase) : option (list (fop * flags)) :=
  match apply_plan false (plan3 (s_plan c)) (map (fun o => (o, no_flags)) (sb_body c)) false with
  | None => None
  | Some (fb, _) => Some fb
  end.
Definition has_special_of (c : scase) : bool :=
  match apply_plan false (plan3 (s_plan c)) (map (fun o => (o, no_flags)) (sb_body c)) false with
  | None => false
  | Some (_, sp) => sp || negb (is_nil (ops_of (s_entry c))) || negb (is_nil (ops_of (s_exit c)))
  end.

(* ---------- the whole report and what the encoder emits, as the model predicts them ---------- *)
Definition nonempty (l : list (N * list srec)) : list (N * list srec) :=
  filter (fun kv => negb (is_nil (snd kv))) l.

(* every operator of every emitted built function must be re-mappable, and so must the exported / data ids *)
Definition bodies_ok (s : sst) (lf : list item) (mf mg mm : list (N * N)) : bool :=
  forallb (fun it => it_del it || is_import it ||
                     match bget (t_fbody s) (it_id it) with
                     | Some b => match remap_all mf mg mm b with Some _ => true | None => false end
                     | None => true
                     end) lf.
Definition exports_ok (s : sst) (mf mm : list (N * N)) : bool :=
  forallb (fun e => x_del e ||
                    (if N.eqb (x_kind e) 0 then match lookup mf (x_index e) with Some _ => true | None => false end
                     else if N.eqb (x_kind e) 2 then match lookup mm (x_index e) with Some _ => true | None => false end
                     else true)) (t_exports s).
Definition data_ok (s : sst) (mm : list (N * N)) : bool :=
  forallb (fun d => negb (d_active d) || match lookup mm (d_mem d) with Some _ => true | None => false end) (t_data s).

Record mout := mkOut { mo_fx : list (N * list srec); mo_layout : emod; mo_body : list fop }.

Definition model_out (c : scase) (s : sst) : option mout :=
  match index_space (m_f (t_m s)), index_space (m_g (t_m s)), index_space (m_m (t_m s)), encode (t_m s) [] [] with
  | Ok (lf, mf), Ok (lg, mg), Ok (lm, mm), Ok e =>
      if negb (bodies_ok s lf mf mg mm && exports_ok s mf mm && data_ok s mm) then None else
      match resolved c, lookup mf (sb_target c) with
      | Some r, Some pos =>
          let remap := remap_all mf mg mm in
          match fx_func_probes pos (has_special_of c) (ops_of (s_entry c)) (ops_of (s_exit c)) (tag_of_fl (s_entry c)) (tag_of_fl (s_exit c)) remap,
                (* a function with special instrumentation is reported by the resolver, from the flags before the lowering;
                   the others by add_opcode_injections in the code loop *)
                (if has_special_of c
                 then match flagged c with
                      | Some fb => fx_unresolved pos (length fb - 1) 0 fb (mkSite [0%nat] None true) (plan_tag (s_plan c)) remap
                      | None => None
                      end
                 else fx_loc_probes pos (length r - 1) 0 r (plan_tag (s_plan c)) remap),
                remap (Lowering.emit r) with
          | Some fp, Some lp, Some body =>
              Some (mkOut (nonempty [(K_TYPE, fx_types s); (K_IMPORT, fx_imports s); (K_EXPORT, fx_exports s); (K_MEMORY, fx_mems s lm);
                                     (K_DATA, fx_data s); (K_GLOBAL, fx_globals s lg); (K_FUNC, fx_funcs s lf); (K_PROBE, fp ++ lp)])
                          e body)
          | _, _, _ => None
          end
      | _, _ => None
      end
  | _, _, _, _ => None
  end.

Definition fops_eqb := list_eqb fop_eqb.
Definition srec_eqb (a b : srec) : bool :=
  leqb N.eqb (r_fields a) (r_fields b) && fops_eqb (r_body a) (r_body b) && N.eqb (r_tag a) (r_tag b).
Definition fx_eqb (a b : list (N * list srec)) : bool :=
  leqb (fun x y => N.eqb (fst x) (fst y) && leqb srec_eqb (snd x) (snd y)) a b.
Definition BADTOK : N := 999999999.
Definition body_unreadable (b : list fop) : bool := fops_eqb b [FOther BADTOK].

Definition agree (c : scase) : bool :=
  let '(s, rets, p) := srun_pref (sinit c) (sh_ops c) [] in
  leqb optN_eqb rets (so_rets c) && Bool.eqb p (so_api_panic c) &&
  (if p then true else
   match model_out c s, so_fx c, so_enc c with
   | Some o, Some fx, Some (e, body) =>
       fx_eqb (mo_fx o) fx && emod_eqb (mo_layout o) e && (body_unreadable body || fops_eqb (mo_body o) body)
   | None, None, None => true
   | _, _, _ => false
   end).

(* ------------------------------------------------------------------------------------------ *)
(* The specification.  Handles: id -> (fingerprint, is-import, tag, dead), per space. *)
Record sent := mkSE { se_id : N; se_fp : N; se_imp : bool; se_tag : tg; se_dead : bool; se_added : bool }.
Record spst := mkSP {
  q_f : list sent; q_g : list sent; q_m : list sent;
  q_types : list (N * tg * bool);      (* code, tag, added? *)
  q_exports : list (N * N * tg * bool * bool);   (* name, kind, tag, added?, deleted? *)
  q_data : list (N * N * tg * bool);   (* active code, byte, tag, added? *)
  q_ok : bool }.                       (* false: outside the domain (unknown / dead handle, id collision) *)
Definition q_get (s : spst) (x : sp) := match x with SF => q_f s | SG => q_g s | SM => q_m s end.
Definition q_set (s : spst) (x : sp) (l : list sent) :=
  match x with
  | SF => mkSP l (q_g s) (q_m s) (q_types s) (q_exports s) (q_data s) (q_ok s)
  | SG => mkSP (q_f s) l (q_m s) (q_types s) (q_exports s) (q_data s) (q_ok s)
  | SM => mkSP (q_f s) (q_g s) l (q_types s) (q_exports s) (q_data s) (q_ok s)
  end.
Definition q_bad (s : spst) := mkSP (q_f s) (q_g s) (q_m s) (q_types s) (q_exports s) (q_data s) false.
Definition find_ent (l : list sent) (id : N) : option sent := find (fun e => N.eqb (se_id e) id) l.
Definition add_ent (s : spst) (x : sp) (ret : option N) (fp : N) (imp : bool) (t : tg) : spst :=
  match ret with
  | Some id => match find_ent (q_get s x) id with
               | Some _ => q_bad s                                       (* the returned id already is a handle *)
               | None => q_set s x (q_get s x ++ [mkSE id fp imp t false true])
               end
  | None => q_bad s
  end.

Fixpoint base_ents (imp : bool) (pos : N) (l : list N) : list sent :=
  match l with [] => [] | fp :: l' => mkSE pos fp imp None false false :: base_ents imp (pos + 1) l' end.
Definition base_sp (code : N) (c : scase) (locs : list N) : list sent :=
  let is := map snd (filter (fun i => N.eqb (fst i) code) (sb_imports c)) in
  base_ents true 0 is ++ base_ents false (lenN is) locs.
Definition spec_init (c : scase) : spst :=
  mkSP (base_sp 0 c (sb_funcs c)) (base_sp 1 c (sb_globals c)) (base_sp 2 c (sb_mems c))
       (map (fun k => (k, @None N, false)) (seqN 0 (N.to_nat (sb_ntypes c))))
       (map (fun k => (k, 0, @None N, false, false)) (seqN 0 (length (sb_exports c))))
       (map (fun k => (0, 200 + k, @None N, false)) (seqN 0 (N.to_nat (sb_ndata c))))
       true.

Definition live_handle (l : list sent) (id : N) : bool :=
  match find_ent l id with Some e => negb (se_dead e) | None => false end.

Definition spec_sstep (s : spst) (o : sop) (ret : option N) : spst :=
  match o with
  | SAddType code t =>
      if existsb (fun x => N.eqb (fst (fst x)) code) (q_types s) then s            (* deduplicated: nothing is added *)
      else mkSP (q_f s) (q_g s) (q_m s) (q_types s ++ [(code, t, true)]) (q_exports s) (q_data s) (q_ok s)
  | SAddImport x fp t => add_ent s x ret fp true (Some t)
  | SAddLocal x fp _ t => add_ent s x ret fp false (Some t)
  | SItAddGlobal fp t => add_ent s SG ret fp false t
  | SDelete x id =>
      match find_ent (q_get s x) id with
      | Some e => q_set s x (map (fun e' => if N.eqb (se_id e') id then mkSE (se_id e') (se_fp e') (se_imp e') (se_tag e') true (se_added e') else e') (q_get s x))
      | None => q_bad s
      end
  | SAddExport x id name t =>
      let s' := mkSP (q_f s) (q_g s) (q_m s) (q_types s) (q_exports s ++ [(name, sp_code x, t, true, false)]) (q_data s) (q_ok s) in
      if live_handle (q_get s x) id then s' else q_bad s'
  | SDeleteExport k =>
      if k <? lenN (q_exports s)
      then mkSP (q_f s) (q_g s) (q_m s) (q_types s)
                (updN k (fun e : N * N * tg * bool * bool => let '(n, kd, t, a, _) := e in (n, kd, t, a, true)) (q_exports s)) (q_data s) (q_ok s)
      else q_bad s
  | SAddData active mem byte t =>
      let s' := mkSP (q_f s) (q_g s) (q_m s) (q_types s) (q_exports s) (q_data s ++ [(if active then 1 else 0, byte, t, true)]) (q_ok s) in
      if negb active || live_handle (q_m s) mem then s' else q_bad s'
  end.
Fixpoint spec_srun (s : spst) (h : list sop) (rets : list (option N)) : spst :=
  match h, rets with
  | o :: h', r :: rets' => spec_srun (spec_sstep s o r) h' rets'
  | _, _ => s
  end.
Definition spec_fin (c : scase) : spst := spec_srun (spec_init c) (sh_ops c) (so_rets c).

(* the added items that are present at encode time: (key, tag) per InjectType code *)
Definition expected (s : spst) (k : N) : list (list N * tg) :=
  let added_imports :=
    flat_map (fun x : sp => flat_map (fun e => if se_added e && se_imp e && negb (se_dead e) then [([sp_code x; se_fp e], se_tag e)] else [])
                                     (q_get s x)) [SF; SG; SM] in
  let added_locals (x : sp) :=
    flat_map (fun e => if se_added e && negb (se_imp e) && negb (se_dead e) then [([se_fp e], se_tag e)] else []) (q_get s x) in
  if N.eqb k K_TYPE then flat_map (fun x : N * tg * bool => let '(code, t, added) := x in if added then [([code], t)] else []) (q_types s)
  else if N.eqb k K_IMPORT then added_imports
  else if N.eqb k K_EXPORT then flat_map (fun x : N * N * tg * bool * bool => let '(n, kd, t, added, del) := x in if added && negb del then [([n; kd], t)] else []) (q_exports s)
  else if N.eqb k K_MEMORY then added_locals SM
  else if N.eqb k K_DATA then flat_map (fun x : N * N * tg * bool => let '(a, b, t, added) := x in if added then [([a; b], t)] else []) (q_data s)
  else if N.eqb k K_GLOBAL then added_locals SG
  else if N.eqb k K_FUNC then added_locals SF
  else [].

Definition key_of (k : N) (r : srec) : list N :=
  if N.eqb k K_TYPE then firstn 1 (r_fields r)
  else if N.eqb k K_IMPORT then firstn 2 (r_fields r)
  else if N.eqb k K_EXPORT then firstn 2 (r_fields r)
  else if N.eqb k K_MEMORY then firstn 1 (r_fields r)
  else if N.eqb k K_DATA then firstn 2 (r_fields r)
  else firstn 1 (r_fields r).
Definition keyeq (a b : list N) : bool := leqb N.eqb a b.
Definition recs_of (fx : list (N * list srec)) (k : N) : list srec :=
  match find (fun kv => N.eqb (fst kv) k) fx with Some kv => snd kv | None => [] end.
Definition tag_ok (t : tg) (rt : N) : bool := match t with Some k => N.eqb rt k | None => N.eqb rt 0 end.
Definition carries_tag (t : tg) : bool := match t with Some k => negb (N.eqb k 0) | None => false end.
Fixpoint nodup_by {A} (e : A -> A -> bool) (l : list A) : bool :=
  match l with [] => true | x :: l' => negb (existsb (e x) l') && nodup_by e l' end.

(* (i) every record belongs to a present added item and shows its tag, (ii) no item is reported twice,
   (iii) every item that carries a tag is reported *)
Definition kind_sound (exp : list (list N * tg)) (k : N) (recs : list srec) : bool :=
  forallb (fun r => existsb (fun it => keyeq (fst it) (key_of k r) && tag_ok (snd it) (r_tag r)) exp) recs.
Definition kind_once (k : N) (recs : list srec) : bool := nodup_by keyeq (map (key_of k) recs).
Definition kind_complete (exp : list (list N * tg)) (k : N) (recs : list srec) : bool :=
  forallb (fun it => negb (carries_tag (snd it)) || existsb (fun r => keyeq (fst it) (key_of k r)) recs) exp.
Definition kind_ok (s : spst) (fx : list (N * list srec)) (k : N) : bool :=
  let exp := expected s k in let recs := recs_of fx k in
  kind_sound exp k recs && kind_once k recs && kind_complete exp k recs.
Definition addition_kinds : list N := [K_TYPE; K_IMPORT; K_EXPORT; K_MEMORY; K_DATA; K_GLOBAL; K_FUNC].
Definition additions_ok (s : spst) (fx : list (N * list srec)) : bool :=
  forallb (kind_ok s fx) addition_kinds
  && forallb (fun kv => existsb (N.eqb (fst kv)) (K_PROBE :: addition_kinds)) fx.     (* no other kind of record *)

(* ---------- probes ---------- *)
Definition MARK0 : Z := 100000%Z.
Definition marker_of (ops : list fop) : option Z :=
  match ops with FConst z :: _ => if (MARK0 <? z)%Z then Some z else None | _ => None end.
(* the run of [n] operators starting at the first occurrence of marker z in the emitted body *)
Fixpoint find_run (z : Z) (n : nat) (emitted : list fop) : option (list fop) :=
  match emitted with
  | [] => None
  | o :: t => match o with
              | FConst z' => if Z.eqb z z' then Some (firstn n emitted) else find_run z n t
              | _ => find_run z n t
              end
  end.
(* all probes of the case: (fields a correct record has apart from the function index, operators, tag) *)
Definition all_probes (c : scase) : list (list N * list fop * tg) :=
  map (fun x : probe => let '(i, m, o, t) := x in ([1; mode_code m; N.of_nat i], o, t)) (s_plan c)
  ++ match s_entry c with Some (o, t) => [([0; 0; 0], o, t)] | None => [] end
  ++ match s_exit c with Some (o, t) => [([0; 1; 0], o, t)] | None => [] end.
Definition probe_of_marker (c : scase) (z : Z) : option (list N * list fop * tg) :=
  find (fun p => match marker_of (snd (fst p)) with Some z' => Z.eqb z z' | None => false end) (all_probes c).

Definition target_fp (c : scase) : option N :=
  match find_ent (base_sp 0 c (sb_funcs c)) (sb_target c) with Some e => Some (se_fp e) | None => None end.

(* index space of a record body, judged without the mirror model: an index-bearing operator of the probe named an
   entity by its handle; the operator in the record must name, by Wasm's index-space rule on the decoded output,
   the entity with that fingerprint *)
Definition idx_parts (t : N) : option (N * N) := if t <? IDXB then None else Some ((t - IDXB) / KSH, (t - IDXB) mod KSH).
Definition kind_space (k : N) : sp := if N.eqb k 1 then SF else if N.eqb k 2 then SG else SM.
Definition ref_ok (s : spst) (e : emod) (op_p op_r : fop) : bool :=
  match op_p with
  | FOther t =>
      match idx_parts t with
      | Some (k, id) =>
          match op_r with
          | FOther t' =>
              match idx_parts t', find_ent (q_get s (kind_space k)) id with
              | Some (k', q), Some en => N.eqb k k' && optN_eqb (designates e (kind_space k) q) (Some (se_fp en))
              | _, _ => false
              end
          | _ => false
          end
      | None => fop_eqb op_p op_r
      end
  | _ => fop_eqb op_p op_r
  end.
Fixpoint refs_ok (s : spst) (e : emod) (p r : list fop) : bool :=
  match p, r with
  | [], [] => true
  | a :: p', b :: r' => ref_ok s e a b && refs_ok s e p' r'
  | _, _ => false
  end.

(* one probe record is right: it is the record of exactly one probe *)
Definition probe_rec_ok (c : scase) (e : emod) (emitted : list fop) (r : srec) : bool :=
  match marker_of (r_body r) with
  | None => false
  | Some z =>
      match probe_of_marker c z with
      | None => false
      | Some (flds, ops, t) =>
          keyeq (firstn 3 (r_fields r)) flds
          && optN_eqb (designates e SF (nth 3 (r_fields r) BADTOK)) (target_fp c)      (* names the function by its index in the encoding *)
          && Nat.eqb (length (r_body r)) (length ops)
          && tag_ok t (r_tag r)
          && match find_run z (length ops) emitted with
             | Some run => fops_eqb run (r_body r)                                     (* the operators the encoder emitted for the probe *)
             (* a record for code that is NOT in the encoding is tolerated only for the two modes that are reported when they
                are planned and whose place of emission can be removed later (semantic-after 3, block-exit 5): a record for
                before / after / alternate / block-entry / block-alt code that the encoder dropped is not a side effect *)
             | None => match nth 1 (r_fields r) BADTOK with 3%N | 5%N => true | _ => false end
             end
          && refs_ok (spec_fin c) e ops (r_body r)                                     (* same index space as the encoded module *)
      end
  end.
Definition probes_sound (c : scase) (e : emod) (emitted : list fop) (recs : list srec) : bool :=
  forallb (probe_rec_ok c e emitted) recs.
Definition probes_once (recs : list srec) : bool :=
  nodup_by (fun a b => match a, b with Some x, Some y => Z.eqb x y | _, _ => false end) (map (fun r => marker_of (r_body r)) recs).
(* every probe that carries a tag and that the encoder emitted (its marker occurs in the encoded function: the code
   the encoder drops - after / alternate code of the final `end`, code inside a region removed by block-alt - is no
   side effect) has a record *)
Fixpoint has_marker (z : Z) (l : list fop) : bool :=
  match l with [] => false | FConst z' :: t => Z.eqb z z' || has_marker z t | _ :: t => has_marker z t end.
Definition probes_complete (c : scase) (emitted : list fop) (recs : list srec) : bool :=
  forallb (fun p => negb (carries_tag (snd p))
                    || negb (match marker_of (snd (fst p)) with Some z => has_marker z emitted | None => false end)
                    || existsb (fun r => match marker_of (r_body r), marker_of (snd (fst p)) with
                                         | Some a, Some b => Z.eqb a b | _, _ => false end) recs) (all_probes c).

Definition holds (c : scase) : bool :=
  match so_fx c, so_enc c with
  | Some fx, Some (e, emitted) =>
      additions_ok (spec_fin c) fx
      && probes_sound c e emitted (recs_of fx K_PROBE) && probes_once (recs_of fx K_PROBE) && probes_complete c emitted (recs_of fx K_PROBE)
  | _, _ => true
  end.

(* ---------- domain ---------- *)
Definition plan_wellformed (c : scase) : bool :=
  forallb (fun p => match marker_of (snd (fst p)) with Some _ => true | None => false end) (all_probes c)
  && nodup_by (fun a b => match a, b with Some x, Some y => Z.eqb x y | _, _ => false end) (map (fun p => marker_of (snd (fst p))) (all_probes c))
  && nodup_by (fun a b => keyeq (fst (fst a)) (fst (fst b))) (all_probes c).
Definition in_domain (c : scase) : bool :=
  negb (so_api_panic c) && q_ok (spec_fin c) && plan_wellformed c
  && match so_fx c, so_enc c with
     | Some _, Some (_, emitted) => negb (body_unreadable emitted)
     | _, _ => false
     end.

(* ------------------------------------------------------------------------------------------ *)
(* known classes *)
(* D22 (special-mode probes were reported through the before / after / alternate lists they were lowered to: without
   their tags, under another instruction / mode, merged with other probes; function entry / exit probes a second time) is
   repaired: a function with special instrumentation is reported by resolve_special_instrumentation from the lists as
   they are before the lowering; the class is gone. *)
(* D06 (index-space defect of C06 / C07: an import added after parsing and deleted again stayed in the vector, so
   ids were mapped to vector positions that are not the indices of the encoded module) is repaired: recalculate_ids
   drops every deleted item; the class is gone. *)
(* 205 (the after / alternate list of the function's final `end`, which the encoder drops without re-mapping it, was
   reported) is repaired: the report follows the encoder's rule; the class is gone. *)

Definition explain (failed : bool) (c : scase) (cands : list (N * (scase -> bool))) : list N :=
  if failed then match flat_map (fun kp : N * (scase -> bool) => if snd kp c then [fst kp] else []) cands with [] => [299] | l => l end
  else [].
Fixpoint dedupN (l : list N) : list N :=
  match l with [] => [] | x :: l' => if existsb (N.eqb x) l' then dedupN l' else x :: dedupN l' end.
Definition failing_classes (c : scase) : list N :=
  match so_fx c, so_enc c with
  | Some fx, Some (e, emitted) =>
      let s := spec_fin c in
      explain (negb (forallb (kind_ok s fx) addition_kinds)) c []
      ++ explain (negb (forallb (fun kv => existsb (N.eqb (fst kv)) (K_PROBE :: addition_kinds)) fx)) c []
      ++ explain (negb (probes_sound c e emitted (recs_of fx K_PROBE) && probes_once (recs_of fx K_PROBE) && probes_complete c emitted (recs_of fx K_PROBE)))
                 c []
  | _, _ => []
  end.
Definition verdict23 (c : scase) : Util.verdict :=
  (agree c, in_domain c, holds c,
   if holds c then [] else dedupN (failing_classes c)).
Definition report_C23 := run_report verdict23.

(* ------------------------------------------------------------------------------------------ *)
(* cases whose observation is the mirror model's own output (refutation witnesses stated inside Coq) *)
Definition self_s (imports : list (N * N)) (funcs globals mems : list N) (ntypes : N) (exports : list N) (ndata target : N)
                  (body : list fop) (ops : list sop) (plan : list probe) (entry exit : option (list fop * tg)) : scase :=
  let c0 := mkSC imports funcs globals mems ntypes exports ndata target body ops plan entry exit [] false None None in
  let '(s, rets, p) := srun_pref (sinit c0) ops [] in
  match (if p then None else model_out c0 s) with
  | Some o => mkSC imports funcs globals mems ntypes exports ndata target body ops plan entry exit rets p
                   (Some (mo_fx o)) (Some (mo_layout o, mo_body o))
  | None => mkSC imports funcs globals mems ntypes exports ndata target body ops plan entry exit rets p None None
  end.
Definition call_op (id : N) : fop := FOther (IDXB + 1 * KSH + id).
Definition gget_op (id : N) : fop := FOther (IDXB + 2 * KSH + id).
Definition msize_op (id : N) : fop := FOther (IDXB + 3 * KSH + id).
