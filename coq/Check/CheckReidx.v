From Coq Require Import List Arith NArith Bool Lia.
Import ListNotations.
From Orca Require Import Reindex.
Open Scope N_scope.

Record rcase := mkRC {
  b_imports : list (N * N);                    (* (space code, fp) *)
  b_funcs : list N; b_globals : list N; b_mems : list N;   (* fps of local entities *)
  h_ops : list op;
  refs_f : list N; refs_g : list N; refs_m : list N;
  o_rets : list (option N);                    (* ids returned by the API calls that completed *)
  o_api_panic : bool;                          (* an API call panicked (history truncated there) *)
  o_enc : option emod }.                       (* None = encode panicked / not reached *)

Fixpoint imp_items (code : N) (pos : N) (k : N) (l : list (N * N)) : list item :=
  match l with
  | [] => []
  | (c, fp) :: l' =>
      if N.eqb c code then mkItem pos (Some k) false fp :: imp_items code (pos + 1) (k + 1) l'
      else imp_items code pos (k + 1) l'
  end.
Fixpoint loc_items (pos : N) (l : list N) : list item :=
  match l with [] => [] | fp :: l' => mkItem pos None false fp :: loc_items (pos + 1) l' end.
Definition mk_space (code : N) (imps : list (N * N)) (locs : list N) : space :=
  let is := imp_items code 0 0 imps in
  mkSpace (is ++ loc_items (lenN is) locs) false (lenN is) 0 (lenN locs).
Definition mk_base (c : rcase) : mst :=
  mkM (mk_space 0 (b_imports c) (b_funcs c)) (mk_space 1 (b_imports c) (b_globals c))
      (mk_space 2 (b_imports c) (b_mems c))
      (map (fun x => mkImp (fst x) false (snd x)) (b_imports c)).

Definition optN_eqb (a b : option N) := match a, b with Some x, Some y => N.eqb x y | None, None => true | _, _ => false end.
Fixpoint leqb {A} (e : A -> A -> bool) (a b : list A) : bool :=
  match a, b with [], [] => true | x :: a', y :: b' => e x y && leqb e a' b' | _, _ => false end.
Definition pair_eqb (a b : N * N) := N.eqb (fst a) (fst b) && N.eqb (snd a) (snd b).
Definition trip_eqb (a b : N * N * N) := pair_eqb (fst a) (fst b) && N.eqb (snd a) (snd b).
Definition emod_eqb (a b : emod) : bool :=
  leqb pair_eqb (e_imports a) (e_imports b) && leqb N.eqb (e_funcs a) (e_funcs b)
  && leqb N.eqb (e_globals a) (e_globals b) && leqb N.eqb (e_mems a) (e_mems b)
  && leqb trip_eqb (e_refs a) (e_refs b).

(* run as far as the implementation got: the model must panic exactly where it did *)
Fixpoint run_pref (m : mst) (h : list op) (rets : list (option N)) : mst * list (option N) * bool :=
  match h with
  | [] => (m, rets, false)
  | o :: h' => match step m o with
               | Ok (m', r) => run_pref m' h' (rets ++ [r])
               | Panic _ => (m, rets, true)
               end
  end.

Definition agree (c : rcase) : bool :=
  let '(m, rets, p) := run_pref (mk_base c) (h_ops c) [] in
  leqb optN_eqb rets (o_rets c) && Bool.eqb p (o_api_panic c) &&
  (if p then true else
   match encode m (refs_f c) (refs_g c) (refs_m c), o_enc c with
   | Ok e, Some e' => emod_eqb e e'
   | Panic _, None => true
   | _, _ => false
   end).

Fixpoint mismatches (i : N) (cs : list rcase) : list N :=
  match cs with [] => [] | c :: cs' => (if agree c then [] else [i]) ++ mismatches (i + 1) cs' end.
Definition report (cs : list rcase) := (lenN cs, mismatches 0 cs).
