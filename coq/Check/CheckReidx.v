(* Re-indexing engine (C05-C11): case format, agreement of the mirror model with the implementation, the
   abstract specification of the edit API (stable handles: id -> entity) written against the property
   texts, the per-property checkers on the *observed* output, and the known-finding classifiers. *)
From Coq Require Import List Arith NArith Bool Lia.
Import ListNotations.
From Orca Require Import Util Reindex.
Local Open Scope N_scope.

Record rcase := mkRC {
  b_imports : list (N * N);                    (* (space code 0 func 1 global 2 memory 3 table 4 tag, fp) *)
  b_funcs : list N; b_globals : list N; b_mems : list N;   (* fps of local entities *)
  b_nexports : N;                              (* exports of the base module (their sites come first) *)
  h_ops : list op;
  sites : list rsite;                          (* every reference: kind, space, caller id, owner *)
  o_rets : list (option N);                    (* ids returned by the API calls that completed *)
  o_api_panic : bool;                          (* an API call panicked (history truncated there) *)
  o_enc : option emod;                         (* None = encode panicked / not reached *)
  o_valid : bool;                              (* wasmparser's validator accepts the output *)
  o_same2 : bool }.                            (* a second encode() returned the same bytes *)

Fixpoint imp_items (code : N) (pos : N) (k : N) (l : list (N * N)) : list item :=
  match l with
  | [] => []
  | (c, fp) :: l' =>
      if N.eqb c code then mkItem pos (Some k) false fp :: imp_items code (pos + 1) (k + 1) l'
      else imp_items code pos (k + 1) l'
  end.
Fixpoint loc_items (pos : N) (l : list N) : list item :=
  match l with [] => [] | fp :: l' => mkItem pos None false fp :: loc_items (pos + 1) l' end.
Definition mk_space (code : N) (imps : list (N * N)) (locs : list N) : space :=
  let is := imp_items code 0 0 imps in
  mkSpace (is ++ loc_items (lenN is) locs) false (lenN is) 0 (lenN locs).
Definition mk_base (c : rcase) : mst :=
  mkM (mk_space 0 (b_imports c) (b_funcs c)) (mk_space 1 (b_imports c) (b_globals c))
      (mk_space 2 (b_imports c) (b_mems c))
      (map (fun x => mkImp (fst x) false (snd x)) (b_imports c)).

Definition optN_eqb (a b : option N) := match a, b with Some x, Some y => N.eqb x y | None, None => true | _, _ => false end.
Fixpoint leqb {A} (e : A -> A -> bool) (a b : list A) : bool :=
  match a, b with [], [] => true | x :: a', y :: b' => e x y && leqb e a' b' | _, _ => false end.
Definition pair_eqb (a b : N * N) := N.eqb (fst a) (fst b) && N.eqb (snd a) (snd b).
Definition emod_eqb (a b : emod) : bool :=
  leqb pair_eqb (e_imports a) (e_imports b) && leqb N.eqb (e_funcs a) (e_funcs b)
  && leqb N.eqb (e_globals a) (e_globals b) && leqb N.eqb (e_mems a) (e_mems b)
  && leqb pair_eqb (e_sites a) (e_sites b).

(* run as far as the implementation got: the model must panic exactly where it did *)
Fixpoint run_pref (m : mst) (h : list op) (rets : list (option N)) : mst * list (option N) * bool :=
  match h with
  | [] => (m, rets, false)
  | o :: h' => match step m o with
               | Ok (m', r) => run_pref m' h' (rets ++ [r])
               | Panic _ => (m, rets, true)
               end
  end.

Definition dead_exports (h : list op) : list N :=
  flat_map (fun o => match o with DeleteExport k => [k] | _ => [] end) h.

Definition agree (c : rcase) : bool :=
  let '(m, rets, p) := run_pref (mk_base c) (h_ops c) [] in
  leqb optN_eqb rets (o_rets c) && Bool.eqb p (o_api_panic c) &&
  (if p then true else
   match encode m (dead_exports (h_ops c)) (sites c), o_enc c with
   | Ok e, Some e' => emod_eqb e e'
   | Panic _, None => true
   | _, _ => false
   end).

(* ------------------------------------------------------------------------------------------ *)
(* The abstract specification: ids are stable handles.  State per space: association list
   id -> (fingerprint, is-import, dead); plus the import list (space, id of the entity). *)
Record ent := mkEnt { en_fp : N; en_imp : bool; en_dead : bool }.
Definition amap := list (N * ent).
Fixpoint aget (m : amap) (k : N) : option ent :=
  match m with [] => None | (k', v) :: m' => if N.eqb k k' then Some v else aget m' k end.
Definition aset (m : amap) (k : N) (v : ent) : amap := (k, v) :: filter (fun kv => negb (N.eqb (fst kv) k)) m.

Record sstate := mkSS { ss_f : amap; ss_g : amap; ss_m : amap; ss_imports : list (N * N);   (* (space code, entity id) *)
                        ss_ok : bool;       (* false: the history leaves the domain of the specification *)
                        ss_coll : bool }.   (* true: a call returned an id that already designates another entity *)
Definition ss_get (s : sstate) (x : sp) := match x with SF => ss_f s | SG => ss_g s | SM => ss_m s end.
Definition ss_set (s : sstate) (x : sp) (m : amap) :=
  match x with
  | SF => mkSS m (ss_g s) (ss_m s) (ss_imports s) (ss_ok s) (ss_coll s)
  | SG => mkSS (ss_f s) m (ss_m s) (ss_imports s) (ss_ok s) (ss_coll s)
  | SM => mkSS (ss_f s) (ss_g s) m (ss_imports s) (ss_ok s) (ss_coll s)
  end.
Definition ss_bad (s : sstate) := mkSS (ss_f s) (ss_g s) (ss_m s) (ss_imports s) false (ss_coll s).
Definition ss_collide (s : sstate) := mkSS (ss_f s) (ss_g s) (ss_m s) (ss_imports s) (ss_ok s) true.
Definition ss_push_import (s : sstate) (code id : N) :=
  mkSS (ss_f s) (ss_g s) (ss_m s) (ss_imports s ++ [(code, id)]) (ss_ok s) (ss_coll s).

Fixpoint base_imp_ents (code pos : N) (l : list (N * N)) : amap :=
  match l with
  | [] => []
  | (c, fp) :: l' => if N.eqb c code then (pos, mkEnt fp true false) :: base_imp_ents code (pos + 1) l'
                     else base_imp_ents code pos l'
  end.
Fixpoint base_loc_ents (pos : N) (l : list N) : amap :=
  match l with [] => [] | fp :: l' => (pos, mkEnt fp false false) :: base_loc_ents (pos + 1) l' end.
Definition base_space (code : N) (imps : list (N * N)) (locs : list N) : amap :=
  let a := base_imp_ents code 0 imps in a ++ base_loc_ents (lenN a) locs.
(* entity id of every base import entry: its position among the imports of its own kind *)
Fixpoint base_import_ids (seen : N -> N) (l : list (N * N)) : list (N * N) :=
  match l with
  | [] => []
  | (c, _) :: l' => (c, seen c) :: base_import_ids (fun c' => if N.eqb c' c then seen c' + 1 else seen c') l'
  end.
Definition spec_base (c : rcase) : sstate :=
  mkSS (base_space 0 (b_imports c) (b_funcs c)) (base_space 1 (b_imports c) (b_globals c))
       (base_space 2 (b_imports c) (b_mems c)) (base_import_ids (fun _ => 0) (b_imports c)) true false.

(* import entry k is the one that currently stands for the function / global handle h: no later entry of the same
   kind was pushed for h *)
Definition current_entry (imports : list (N * N)) (code h k : N) : bool :=
  negb (existsb (fun ce => N.eqb (fst ce) code && N.eqb (snd ce) h) (skipn (S (N.to_nat k)) imports)).

Definition spec_step (s : sstate) (o : op) (ret : option N) : sstate :=
  match o, ret with
  | AddLocal x fp, Some r =>
      match aget (ss_get s x) r with
      | Some _ => ss_collide s                                    (* the returned id is already a handle *)
      | None => ss_set s x (aset (ss_get s x) r (mkEnt fp false false))
      end
  | ItAddGlobal fp, Some r =>
      match aget (ss_g s) r with
      | Some _ => ss_collide s
      | None => ss_set s SG (aset (ss_g s) r (mkEnt fp false false))
      end
  | AddImport x fp, Some r =>
      match aget (ss_get s x) r with
      | Some _ => ss_collide s
      | None => ss_push_import (ss_set s x (aset (ss_get s x) r (mkEnt fp true false))) (sp_code x) r
      end
  | Delete x id, _ =>
      match aget (ss_get s x) id with
      | Some e => ss_set s x (aset (ss_get s x) id (mkEnt (en_fp e) (en_imp e) true))
      | None => ss_bad s
      end
  | LocalToImport id fp, _ =>
      match aget (ss_f s) id with
      | Some e => if en_imp e then s                               (* refused: already an import *)
                  else if en_dead e then ss_bad s
                  else ss_push_import (ss_set s SF (aset (ss_f s) id (mkEnt fp true false))) 0 id
      | None => ss_bad s
      end
  | ImportToLocal k fp, _ =>
      match nthN (ss_imports s) k with
      | Some (0, fid) =>
          (* a stale ImportsID (the function was converted back to an import since: convert_local_fn_to_import pushed a
             fresh entry for it and entry k is a deleted one) is outside the domain, as in CheckNames.v *)
          if negb (current_entry (ss_imports s) 0 fid k) then ss_bad s
          else
          match aget (ss_f s) fid with
          | Some e => if en_imp e && negb (en_dead e) then ss_set s SF (aset (ss_f s) fid (mkEnt fp false false))
                      else ss_bad s
          | None => ss_bad s
          end
      | _ => ss_bad s
      end
  | AddExport _ _, _ | DeleteExport _, _ | AddData _, _ => s
  | _, None => ss_bad s
  end.
Fixpoint spec_run (s : sstate) (h : list op) (rets : list (option N)) : sstate :=
  match h, rets with
  | o :: h', r :: rets' => spec_run (spec_step s o r) h' rets'
  | _, _ => s
  end.
Definition spec_final (c : rcase) : sstate := spec_run (spec_base c) (h_ops c) (o_rets c).

(* Wasm's rule: imports of that kind in import-section order, then the locally defined ones *)
Definition space_of (e : emod) (x : sp) : list N :=
  map snd (filter (fun i => N.eqb (fst i) (sp_code x)) (e_imports e))
  ++ match x with SF => e_funcs e | SG => e_globals e | SM => e_mems e end.
Definition designates (e : emod) (x : sp) (q : N) : option N := nthN (space_of e x) q.

Definition spec_live_local (m : amap) (id : N) : bool :=
  match aget m id with Some e => negb (en_imp e) && negb (en_dead e) | None => false end.
Definition spec_active (s : sstate) (dead : list N) (r : rsite) : bool :=
  match rs_owner r with
  | ONone => true
  | OFunc id => spec_live_local (ss_f s) id
  | OGlobal id => spec_live_local (ss_g s) id
  | OExport k => negb (existsb (N.eqb k) dead)
  end.

Fixpoint number {A} (n : N) (l : list A) : list (N * A) :=
  match l with [] => [] | x :: l' => (n, x) :: number (n + 1) l' end.
Definition sp_eqb (a b : sp) := N.eqb (sp_code a) (sp_code b).

(* the active sites of space x, with their spec entity *)
Definition spec_sites (c : rcase) (x : sp) : list (N * rsite * option ent) :=
  let s := spec_final c in
  flat_map (fun nr => let '(n, r) := nr in
              if sp_eqb (rs_sp r) x && spec_active s (dead_exports (h_ops c)) r
              then [(n, r, aget (ss_get s x) (rs_id r))] else [])
           (number 0 (sites c)).

Definition is_start (r : rsite) := match rs_k r with KStart => true | _ => false end.
(* some active reference designates a deleted entity: encoding has to fail loudly (a deleted start
   function may instead be dropped) *)
Definition refs_dead (c : rcase) (x : sp) : bool :=
  existsb (fun t => let '(_, r, e) := t in
             match e with Some e => en_dead e && negb (is_start r) | None => false end) (spec_sites c x).
Definition refs_unknown (c : rcase) (x : sp) : bool :=
  existsb (fun t => match snd t with None => true | Some _ => false end) (spec_sites c x).

(* every active reference of space x is bound to the entity its caller id designated *)
Definition sites_bound (c : rcase) (x : sp) : bool :=
  match o_enc c with
  | None => refs_dead c SF || refs_dead c SG || refs_dead c SM      (* loud failure is right only then *)
  | Some e =>
      forallb (fun t => let '(n, r, en) := t in
                 match en with
                 | None => true
                 | Some en =>
                     match find (fun s => N.eqb (fst s) n) (e_sites e) with
                     | Some (_, q) => negb (en_dead en) && optN_eqb (designates e x q) (Some (en_fp en))
                     | None => en_dead en && is_start r
                     end
                 end) (spec_sites c x)
  end.

(* multiset equality of fingerprint lists *)
Definition count (x : N) (l : list N) : nat := length (filter (N.eqb x) l).
Definition same_set (a b : list N) : bool :=
  Nat.eqb (length a) (length b) && forallb (fun x => Nat.eqb (count x a) (count x b)) a.
Definition live_fps (m : amap) (imp : bool) : list N :=
  flat_map (fun kv => let e := snd kv in if Bool.eqb (en_imp e) imp && negb (en_dead e) then [en_fp e] else []) m.
(* exactly the live entities are present, each with its identity (fingerprint), imports as imports *)
Definition live_exact (c : rcase) (x : sp) : bool :=
  match o_enc c with
  | None => true
  | Some e =>
      let s := spec_final c in
      same_set (live_fps (ss_get s x) true) (map snd (filter (fun i => N.eqb (fst i) (sp_code x)) (e_imports e)))
      && same_set (live_fps (ss_get s x) false) (match x with SF => e_funcs e | SG => e_globals e | SM => e_mems e end)
  end.

Definition has_site (c : rcase) (x : sp) : bool := existsb (fun r => sp_eqb (rs_sp r) x) (sites c).
Definition hist_has (c : rcase) (p : op -> bool) : bool := existsb p (h_ops c).
Definition in_domain (c : rcase) : bool :=
  negb (o_api_panic c) && ss_ok (spec_final c)
  && negb (refs_unknown c SF) && negb (refs_unknown c SG) && negb (refs_unknown c SM).
Definition encoded (c : rcase) : bool := match o_enc c with Some _ => true | None => false end.
Definition valid_ok (c : rcase) : bool := negb (encoded c) || o_valid c.

(* ------------------------------------------------------------------------------------------ *)
(* known-finding classes, decided on the input (through the mirror model's view of the final state) *)
Definition final_model (c : rcase) : mst := fst (fst (run_pref (mk_base c) (h_ops c) [])).
Definition ispace (c : rcase) (x : sp) : list item * list (N * N) :=
  match index_space (get_sp (final_model c) x) with Ok r => r | Panic _ => ([], []) end.

Fixpoint increasing (l : list N) : bool :=
  match l with a :: (b :: _) as t => (a <? b) && increasing t | _ => true end.
(* D02 (the live import items of a space, in index-space order, were not in import-section order) is repaired: the
   import section is emitted in index order; the class is gone.  [increasing] is still used by Proofs/ReidxInv.v. *)
(* D05 (the `ref.func` expression items of element segments - and element offsets, table initialisers - were copied,
   never re-indexed) is repaired: they go through the id maps like every other reference; the class is gone. *)
(* D06 (a deleted added / converted import stayed in the index space) and D26 (a deleted converted original import
   stayed among the locals) are repaired: recalculate_ids drops every deleted item; the classes are gone. *)
(* D07 (replace_import_in_module used the ImportsID as the FunctionID) is repaired: the function is resolved
   through the import; the class is gone. *)
(* D24 (iterator-level add_global followed by add_imported_global: the returned id collided) is repaired:
   ModuleIterator::add_global goes through Module::add_global_internal; the class is gone. *)
Fixpoint after (p q : op -> bool) (h : list op) : bool :=
  match h with [] => false | o :: h' => (p o && existsb q h') || after p q h' end.
Definition is_i2l o := match o with ImportToLocal _ _ => true | _ => false end.
Definition is_del_f o := match o with Delete SF _ => true | _ => false end.
Definition K (n : N) (p : rcase -> bool) : N * (rcase -> bool) := (n, p).
Definition cls (c : rcase) (l : list (N * (rcase -> bool))) : list N :=
  flat_map (fun kp : N * (rcase -> bool) => if snd kp c then [fst kp] else []) l.

(* ------------------------------------------------------------------------------------------ *)
Definition binds_ok (x : sp) (c : rcase) : bool := sites_bound c x && valid_ok c && negb (ss_coll (spec_final c)).

Definition verdict06 (c : rcase) : Util.verdict :=
  (agree c, in_domain c && has_site c SF, binds_ok SF c && live_exact c SF,
   cls c []).
Definition verdict07 (c : rcase) : Util.verdict :=
  (agree c, in_domain c && has_site c SG, binds_ok SG c && live_exact c SG,
   cls c []).
Definition verdict08 (c : rcase) : Util.verdict :=
  (agree c, in_domain c && has_site c SM, binds_ok SM c && live_exact c SM,
   cls c []).
Definition is_delete o := match o with Delete _ _ | DeleteExport _ => true | _ => false end.
Definition verdict09 (c : rcase) : Util.verdict :=
  (agree c, in_domain c && hist_has c is_delete,
   forallb (fun x => sites_bound c x && live_exact c x) [SF; SG; SM] && valid_ok c && negb (ss_coll (spec_final c)),
   cls c []).
Definition verdict10 (c : rcase) : Util.verdict :=
  (agree c, in_domain c && hist_has c is_i2l, binds_ok SF c && live_exact c SF,
   cls c []).
Definition is_l2i o := match o with LocalToImport _ _ => true | _ => false end.
Definition verdict11 (c : rcase) : Util.verdict :=
  (agree c, in_domain c && hist_has c is_l2i, binds_ok SF c && live_exact c SF,
   cls c []).
(* C05 (second encode): Check/CheckReidx2.v *)
Definition report_C06 := run_report verdict06.
Definition report_C07 := run_report verdict07.
Definition report_C08 := run_report verdict08.
Definition report_C09 := run_report verdict09.
Definition report_C10 := run_report verdict10.
Definition report_C11 := run_report verdict11.
