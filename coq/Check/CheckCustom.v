(* Custom engine (C28): case format, model of one case, the executable specification of C28 written from
   the property text (sections are *slots* that are never moved or removed, only marked dead or given new
   data; an id is the number of live slots before the slot — no Vec::remove / positional update as in the
   model) and the report evaluated on harness cases. *)
From Coq Require Import List NArith Bool.
Import ListNotations.
From Orca Require Import Util Flat Custom.
Local Open Scope N_scope.

Record ccase := mkCC {
  cc_layout : list item;           (* sections of the input binary in file order *)
  cc_ops : list cop;               (* calls on module.custom_sections, in order *)
  cc_rest_in : N;                  (* token of "everything else" of the input: the text of the binary with the
                                      non-name custom sections taken out *)
  cc_status : N;                   (* 0 = encoded, 1 = panic, 2 = Module::parse returned Err *)
  cc_results : list (list N);      (* what each call returned *)
  cc_out : list csec;              (* non-name custom sections of the encoded module, in file order *)
  cc_rest_out : N;                 (* "everything else" of the encoded module *)
  cc_rest_noedit : N;              (* "everything else" of parse-then-encode without any edit *)
  cc_after_name : bool }.          (* in the output every such section follows all standard sections and the name section *)

Definition obs28 := (N * list (list N) * list csec * N * N * bool)%type.
Definition observed (c : ccase) : obs28 :=
  (cc_status c, cc_results c, cc_out c, cc_rest_out c, cc_rest_noedit c, cc_after_name c).
Definition failed (status : N) : obs28 := (status, [], [], 0, 0, true).

Definition model (c : ccase) : obs28 :=
  match parse_customs (cc_layout c) with
  | Panic => failed 1
  | ParseErr => failed 2
  | Done l =>
      match run_ops (cc_ops c) l with
      | None => failed 1
      | Some (rs, l') => (0, rs, emit_customs l', cc_rest_in c, cc_rest_in c, true)
      end
  end.

Definition csec_eqb (a b : csec) : bool := N.eqb (fst a) (fst b) && N.eqb (snd a) (snd b).
Definition obs28_eqb (a b : obs28) : bool :=
  let '(s1, r1, o1, x1, y1, t1) := a in let '(s2, r2, o2, x2, y2, t2) := b in
  N.eqb s1 s2 && list_eqb (list_eqb N.eqb) r1 r2 && list_eqb csec_eqb o1 o2
  && N.eqb x1 x2 && N.eqb y1 y2 && Bool.eqb t1 t2.
Definition agree (c : ccase) : bool := obs28_eqb (model c) (observed c).

(* ------------------------------------------------------------------------------------------ *)
(* C28 from the statement.  "Custom sections other than the name section keep their names, contents and
   relative order": the sections of the input that are not called "name", in file order ... *)
Fixpoint spec_customs (l : list item) : list csec :=
  match l with
  | [] => []
  | IStd _ _ :: t => spec_customs t
  | ICustom n d _ :: t => if N.eqb n NAME then spec_customs t else (n, d) :: spec_customs t
  end.

(* ... "adding, deleting or modifying is reflected exactly": every section that ever existed is a slot;
   slots keep their position and name for ever; deleting kills a slot, modifying gives it new data,
   adding appends a live slot.  The id of a section is the number of live slots in front of it. *)
Record slot := mkSlot { s_name : N; s_data : N; s_alive : bool }.
Definition live (s : list slot) : N := N.of_nat (length (filter s_alive s)).
Definition view (s : list slot) : list csec := map (fun x => (s_name x, s_data x)) (filter s_alive s).

(* apply [f] to the k-th live slot *)
Fixpoint on_live (k : N) (f : slot -> slot) (s : list slot) : list slot :=
  match s with
  | [] => []
  | x :: t => if s_alive x then (if N.eqb k 0 then f x :: t else x :: on_live (k - 1) f t)
              else x :: on_live k f t
  end.
Fixpoint get_live (k : N) (s : list slot) : option slot :=
  match s with
  | [] => None
  | x :: t => if s_alive x then (if N.eqb k 0 then Some x else get_live (k - 1) t) else get_live k t
  end.
Fixpoint first_named (name : N) (i : N) (s : list slot) : option N :=
  match s with
  | [] => None
  | x :: t => if s_alive x then (if N.eqb (s_name x) name then Some i else first_named name (i + 1) t)
              else first_named name i t
  end.
Definition kill (x : slot) : slot := mkSlot (s_name x) (s_data x) false.
Definition redata (d : N) (x : slot) : slot := mkSlot (s_name x) d (s_alive x).

(* expected answer and new slots; None = the call is outside the documented contract (get_by_id on an invalid id) *)
Definition spec_op (o : cop) (s : list slot) : option (list N * list slot) :=
  match o with
  | OAdd name data => Some ([live s], s ++ [mkSlot name data true])
  | ODelete id => Some ([], on_live id kill s)
  | OModify id data => Some ([if id <? live s then 1 else 0], on_live id (redata data) s)
  | OGetId name => Some (match first_named name 0 s with Some i => [i] | None => [] end, s)
  | OGet id => match get_live id s with Some x => Some ([s_name x; s_data x], s) | None => None end
  | OLen => Some ([live s], s)
  end.
Definition sstate := option (list (list N) * list slot).
Definition spec_step (st : sstate) (o : cop) : sstate :=
  match st with
  | None => None
  | Some (rs, s) => match spec_op o s with Some (r, s') => Some (rs ++ [r], s') | None => None end
  end.
Definition spec_run (ops : list cop) (l : list csec) : sstate :=
  fold_left spec_step ops (Some ([], map (fun p => mkSlot (fst p) (snd p) true) l)).

Definition holds_on (c : ccase) (o : obs28) : bool :=
  let '(status, results, out, rest_out, rest_noedit, _) := o in
  match spec_run (cc_ops c) (spec_customs (cc_layout c)) with
  | None => false
  | Some (rs, s) =>
      N.eqb status 0
      && list_eqb (list_eqb N.eqb) results rs      (* ids and answers *)
      && list_eqb csec_eqb out (view s)            (* names, contents, relative order; edits reflected exactly *)
      && N.eqb rest_noedit (cc_rest_in c)          (* parsing and encoding changes nothing else *)
      && N.eqb rest_out (cc_rest_in c)             (* the edits change nothing else *)
  end.
Definition holds28 (c : ccase) : bool := holds_on c (observed c).

(* domain: every name section of the input is well-formed (otherwise Module::parse refuses the module with an
   Err, there is nothing to encode); no get_by_id on an invalid id (documented panic); the API is not used to
   add a second section called "name" (the property is about the other custom sections) *)
Definition name_wellformed (it : item) : bool :=
  match it with
  | ICustom n _ CNameBad => negb (N.eqb n NAME)
  | _ => true
  end.
Definition domain28 (c : ccase) : bool :=
  forallb name_wellformed (cc_layout c)
  && forallb (fun o => match o with OAdd n _ => negb (N.eqb n NAME) | _ => true end) (cc_ops c)
  && match spec_run (cc_ops c) (spec_customs (cc_layout c)) with Some _ => true | None => false end.

(* D09 (as far as custom sections are concerned) is repaired: Module::parse used to panic on a valid module when a
   "producers" section had no field / an unreadable first field, or when a name section named a local function
   whose code body came later in the file.  No known class is left. *)
Definition verdict28 (c : ccase) : bool * bool * bool * list N :=
  (agree c, domain28 c, holds28 c, []).
Definition report_C28 := run_report verdict28.
