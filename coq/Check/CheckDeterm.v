(* Determinism engine (C04): case format and report.

   One case = one scenario (base module + sequence of library calls, all derived from (seed, idx)) executed in k
   separate child processes, each with its own RandomState hash seeds.  There is no single-process "model output" for
   bytes; what the model predicts is *whether the output can depend on the process*: by the theorems of
   Proofs/DetermProofs.v every HashMap iteration of the encode path is order-free (since the repair of D11 also the
   one in ModuleTypes::new, whose keys are sorted before use).  So the prediction is "deterministic", always.

     holds04   (independent specification, written from the property text): all k observations are equal --
               same status (encoded / panicked at the same stage) and same hash of the bytes;
     agree04   the prediction agrees with what was observed = holds04;
     domain04  at least two processes reported and none of them died without reporting (status 9).
   A nondeterministic case is both a mismatch and an unlisted failure; there is no known class any more.
   [dup_request] (the former D11 predicate) is kept as a statistic only. *)
From Coq Require Import List NArith Bool.
Import ListNotations.
From Orca Require Import Util HashOrder.
Local Open Scope N_scope.

Record dcase := mkDC {
  dc_kind : N;                 (* 0 instrumentation plan, 1 edit history, 2 type additions, 3 all three *)
  dc_second : bool;            (* the module is encoded a second time and both encodings are hashed *)
  dc_base : list N;            (* tokens of the input's type section *)
  dc_added : list N;           (* tokens of the types the scenario asks the library to add *)
  dc_obs : list (N * N) }.     (* per process: (status, hash); status 0 ok, 1 panic in parse/API, 2 panic in encode,
                                  3 panic in the second encode, 9 the process died *)

Definition obs_eqb (a b : N * N) : bool := N.eqb (fst a) (fst b) && N.eqb (snd a) (snd b).
Definition all_equal (l : list (N * N)) : bool :=
  match l with [] => true | x :: r => forallb (obs_eqb x) r end.

Definition holds04 (c : dcase) : bool := all_equal (dc_obs c).
Definition domain04 (c : dcase) : bool :=
  (2 <=? N.of_nat (length (dc_obs c))) && forallb (fun o => negb (N.eqb (fst o) 9)) (dc_obs c).
Definition dup_request (c : dcase) : bool := d11_pred (dc_base c) (dc_added c).
Definition predicted_deterministic (c : dcase) : bool := true.
Definition agree04 (c : dcase) : bool := if predicted_deterministic c then holds04 c else true.

Definition verdict04 (c : dcase) : verdict := (agree04 c, domain04 c, holds04 c, []).
Definition report_C04 := run_report verdict04.
