(* Additions engine (C30): case format, agreement of the mirror model (Model/Additions.v) with the
   implementation, the independent specification written against the property text (every added global /
   memory / data segment / export appears exactly once with exactly the requested type, limits, contents
   and bit-exact initial value; the returned ids designate the added items under Wasm's index-space rule;
   mod_global_init_expr changes exactly one initialiser; nothing else changes), known-finding classifiers. *)
From Coq Require Import List Arith NArith ZArith Bool.
Import ListNotations.
From Orca Require Import Util Wrap Reindex CheckReidx Additions.
Local Open Scope N_scope.

Record bimp := mkBI { bi_kind : N; bi_fp : N; bi_desc : idesc }.
Record acase := mkAC {
  ab_imports : list bimp;                 (* import section of the base module *)
  ab_funcs : list N;                      (* fingerprints of the local functions *)
  ab_globals : list (N * gpay);           (* local globals: fingerprint, type, Some initialiser *)
  ab_mems : list (N * mty);               (* local memories *)
  ab_data : list dseg;
  ab_exports : list expo;
  ab_dcount : bool;                       (* the base module has a data count section *)
  ah_ops : list aop;
  ah_sites : list (sp * N);               (* references injected into the probe function before encode: space, caller id *)
  ao_rets : list (option N);              (* ids returned by the API calls that completed *)
  ao_api_panic : bool;
  ao_enc : option aobs }.                 (* None = encode panicked / not reached *)

(* ---------- base state ---------- *)
Definition to_rcase (c : acase) : rcase :=
  mkRC (map (fun b => (bi_kind b, bi_fp b)) (ab_imports c)) (ab_funcs c) (map fst (ab_globals c)) (map fst (ab_mems c))
       (lenN (ab_exports c)) [] [] [] false None true true.
Definition base_gpay (c : acase) : list (N * gpay) :=
  flat_map (fun b => match bi_desc b with IDGlobal t => [(bi_fp b, mkGP t None)] | _ => [] end) (ab_imports c) ++ ab_globals c.
Definition base_mpay (c : acase) : list (N * mty) :=
  flat_map (fun b => match bi_desc b with IDMem t => [(bi_fp b, t)] | _ => [] end) (ab_imports c) ++ ab_mems c.
Definition abase (c : acase) : astate :=
  mkA (mk_base (to_rcase c)) (base_gpay c) (base_mpay c) (ab_data c) (ab_exports c).

(* ---------- boolean equalities ---------- *)
Definition opt_eqb {A} (e : A -> A -> bool) (a b : option A) : bool :=
  match a, b with Some x, Some y => e x y | None, None => true | _, _ => false end.
Definition gty_eqb (a b : gty) := N.eqb (gt_ty a) (gt_ty b) && Bool.eqb (gt_mut a) (gt_mut b) && Bool.eqb (gt_shared a) (gt_shared b).
Definition mty_eqb (a b : mty) :=
  Bool.eqb (mt_64 a) (mt_64 b) && Bool.eqb (mt_shared a) (mt_shared b) && N.eqb (mt_init a) (mt_init b)
  && opt_eqb N.eqb (mt_max a) (mt_max b) && opt_eqb N.eqb (mt_psl a) (mt_psl b).
Definition cop_eqb (a b : cop) : bool :=
  match a, b with
  | CI32 x, CI32 y | CI64 x, CI64 y | CF32 x, CF32 y | CF64 x, CF64 y | CV128 x, CV128 y => Z.eqb x y
  | CGlobalGet x, CGlobalGet y | CRefFunc x, CRefFunc y | CRefNull x, CRefNull y | COther x, COther y => N.eqb x y
  | _, _ => false
  end.
Definition oglobal_eqb (a b : oglobal) := gty_eqb (og_ty a) (og_ty b) && leqb cop_eqb (og_init a) (og_init b).
Definition odseg_eqb (a b : odseg) : bool :=
  match a, b with
  | OPassive x, OPassive y => leqb N.eqb x y
  | OActive m o x, OActive m' o' y => N.eqb m m' && leqb cop_eqb o o' && leqb N.eqb x y
  | _, _ => false
  end.
Definition idesc_eqb (a b : idesc) : bool :=
  match a, b with
  | IDNone, IDNone => true
  | IDGlobal x, IDGlobal y => gty_eqb x y
  | IDMem x, IDMem y => mty_eqb x y
  | _, _ => false
  end.
Definition oimp_eqb (a b : oimp) := N.eqb (oi_kind a) (oi_kind b) && N.eqb (oi_fp a) (oi_fp b) && idesc_eqb (oi_desc a) (oi_desc b).
Definition triple_eqb (a b : N * N * N) :=
  N.eqb (fst (fst a)) (fst (fst b)) && N.eqb (snd (fst a)) (snd (fst b)) && N.eqb (snd a) (snd b).
Definition aobs_eqb (a b : aobs) : bool :=
  leqb oimp_eqb (ob_imports a) (ob_imports b) && leqb N.eqb (ob_funcs a) (ob_funcs b)
  && leqb oglobal_eqb (ob_globals a) (ob_globals b) && leqb mty_eqb (ob_mems a) (ob_mems b)
  && leqb odseg_eqb (ob_data a) (ob_data b) && leqb triple_eqb (ob_exports a) (ob_exports b)
  && leqb pair_eqb (ob_sites a) (ob_sites b) && opt_eqb N.eqb (ob_dcount a) (ob_dcount b).

(* ---------- agreement of the mirror model with the implementation ---------- *)
Definition model_out (c : acase) : list (option N) * bool * option aobs :=
  let '(s, rets, p) := arun (abase c) (ah_ops c) [] in
  (rets, p, if p then None else match aencode s (ab_dcount c) (ah_sites c) with Ok e => Some e | Panic _ => None end).
Definition agree (c : acase) : bool :=
  let '(rets, p, e) := model_out c in
  leqb optN_eqb rets (ao_rets c) && Bool.eqb p (ao_api_panic c) && opt_eqb aobs_eqb e (ao_enc c).

(* ------------------------------------------------------------------------------------------ *)
(* The specification.  Handles (id -> entity) are those of CheckReidx (ids are stable handles; the state
   is driven by the ids the implementation really returned); the requested payloads are kept per fingerprint. *)
Record spst := mkSP {
  sp_h : sstate;
  sp_g : list (N * gpay);               (* fingerprint -> *requested* global type and initialiser *)
  sp_m : list (N * mty);
  sp_data : list (N * dseg);            (* data segment id -> requested segment *)
  sp_exp : list expo;
  sp_ok : bool }.

Definition sp_with_h (s : spst) (h : sstate) := mkSP h (sp_g s) (sp_m s) (sp_data s) (sp_exp s) (sp_ok s).
Definition sp_bad (s : spst) := mkSP (sp_h s) (sp_g s) (sp_m s) (sp_data s) (sp_exp s) false.

Fixpoint number_from {A} (n : N) (l : list A) : list (N * A) :=
  match l with [] => [] | x :: l' => (n, x) :: number_from (n + 1) l' end.

Definition spec_abase (c : acase) : spst :=
  mkSP (spec_base (to_rcase c)) (base_gpay c) (base_mpay c) (number_from 0 (ab_data c)) (ab_exports c) true.

Definition aspec_step (s : spst) (o : aop) (ret : option N) : spst :=
  match o with
  | OAddGlobal fp t e =>
      mkSP (spec_step (sp_h s) (AddLocal SG fp) ret) ((fp, mkGP t (Some e)) :: sp_g s) (sp_m s) (sp_data s) (sp_exp s) (sp_ok s)
  | OItAddGlobal fp t e =>
      mkSP (spec_step (sp_h s) (ItAddGlobal fp) ret) ((fp, mkGP t (Some e)) :: sp_g s) (sp_m s) (sp_data s) (sp_exp s) (sp_ok s)
  | OAddImpGlobal fp t =>
      mkSP (spec_step (sp_h s) (AddImport SG fp) ret) ((fp, mkGP t None) :: sp_g s) (sp_m s) (sp_data s) (sp_exp s) (sp_ok s)
  | OAddMem fp t =>
      mkSP (spec_step (sp_h s) (AddLocal SM fp) ret) (sp_g s) ((fp, t) :: sp_m s) (sp_data s) (sp_exp s) (sp_ok s)
  | OAddImpMem fp t =>
      mkSP (spec_step (sp_h s) (AddImport SM fp) ret) (sp_g s) ((fp, t) :: sp_m s) (sp_data s) (sp_exp s) (sp_ok s)
  | OAddImpFunc fp => sp_with_h s (spec_step (sp_h s) (AddImport SF fp) ret)
  | OAddData d =>
      match ret with
      | Some r => match plookup (sp_data s) r with
                  | Some _ => sp_with_h s (ss_collide (sp_h s))        (* the returned id already designates a segment *)
                  | None => mkSP (sp_h s) (sp_g s) (sp_m s) (sp_data s ++ [(r, d)]) (sp_exp s) (sp_ok s)
                  end
      | None => sp_bad s
      end
  | OAddExport k name id => mkSP (sp_h s) (sp_g s) (sp_m s) (sp_data s) (sp_exp s ++ [mkEx name k id false]) (sp_ok s)
  | ODelExport k =>
      if k <? lenN (sp_exp s) then mkSP (sp_h s) (sp_g s) (sp_m s) (sp_data s) (updN k set_exdel (sp_exp s)) (sp_ok s)
      else sp_bad s
  | OModInit g e =>
      match aget (ss_g (sp_h s)) g with
      | Some en =>
          if en_imp en then sp_bad s
          else match plookup (sp_g s) (en_fp en) with
               | Some p => mkSP (sp_h s) (pset (sp_g s) (en_fp en) (mkGP (gp_ty p) (Some e))) (sp_m s) (sp_data s) (sp_exp s) (sp_ok s)
               | None => sp_bad s
               end
      | None => sp_bad s
      end
  | ODelete x id => sp_with_h s (spec_step (sp_h s) (Delete x id) ret)
  end.
Fixpoint aspec_run (s : spst) (h : list aop) (rets : list (option N)) : spst :=
  match h, rets with
  | o :: h', r :: rets' => aspec_run (aspec_step s o r) h' rets'
  | _, _ => s
  end.
Definition spec_final (c : acase) : spst := aspec_run (spec_abase c) (ah_ops c) (ao_rets c).

(* ---------- identities: what an index of the output designates ---------- *)
(* an operator of a constant expression, indices resolved to the entity they designate, v128 as its 128 bits *)
Inductive rop := RI32 (z : Z) | RI64 (z : Z) | RF32 (b : Z) | RF64 (b : Z) | RV128 (u : Z)
               | RGlob (fp : N) | RFun (fp : N) | RNull (ht : N) | RBad (t : N).
Definition rop_eqb (a b : rop) : bool :=
  match a, b with
  | RI32 x, RI32 y | RI64 x, RI64 y | RF32 x, RF32 y | RF64 x, RF64 y | RV128 x, RV128 y => Z.eqb x y
  | RGlob x, RGlob y | RFun x, RFun y | RNull x, RNull y | RBad x, RBad y => N.eqb x y
  | _, _ => false
  end.
Inductive ident := IdImp (fp : N) | IdFunc (fp : N) | IdGlobal (t : gty) (e : list rop) | IdMem (t : mty).
Definition ident_eqb (a b : ident) : bool :=
  match a, b with
  | IdImp x, IdImp y | IdFunc x, IdFunc y => N.eqb x y
  | IdGlobal t e, IdGlobal t' e' => gty_eqb t t' && leqb rop_eqb e e'
  | IdMem x, IdMem y => mty_eqb x y
  | _, _ => false
  end.

(* Wasm's rule: the imports of the kind in import-section order, then the locally defined ones *)
Definition imp_fps (o : aobs) (kind : N) : list N := map oi_fp (filter (fun i => N.eqb (oi_kind i) kind) (ob_imports o)).
Definition func_space (o : aobs) : list ident := map IdImp (imp_fps o 0) ++ map IdFunc (ob_funcs o).
Definition obs_rop (o : aobs) (c : cop) : rop :=
  match c with
  | CI32 z => RI32 z | CI64 z => RI64 z | CF32 b => RF32 b | CF64 b => RF64 b
  | CV128 z => RV128 (to_u128 z)                              (* the 128 bits of the emitted constant *)
  | CGlobalGet q => match nthN (imp_fps o 1) q with Some fp => RGlob fp | None => RBad 1 end
  | CRefFunc q => match nthN (func_space o) q with Some (IdImp fp) | Some (IdFunc fp) => RFun fp | _ => RBad 2 end
  | CRefNull ht => RNull ht
  | COther t => RBad (1000 + t)
  end.
Definition glob_space (o : aobs) : list ident :=
  map IdImp (imp_fps o 1) ++ map (fun g => IdGlobal (og_ty g) (map (obs_rop o) (og_init g))) (ob_globals o).
Definition mem_space (o : aobs) : list ident := map IdImp (imp_fps o 2) ++ map IdMem (ob_mems o).
Definition space_of (o : aobs) (x : sp) : list ident :=
  match x with SF => func_space o | SG => glob_space o | SM => mem_space o end.
Definition designates (o : aobs) (x : sp) (q : N) : option ident := nthN (space_of o x) q.

(* ---------- what the requests say ---------- *)
Definition exp_rop (h : sstate) (i : iinstr) : rop :=
  match i with
  | IVal (VI32 z) => RI32 z | IVal (VI64 z) => RI64 z | IVal (VF32 b) => RF32 b | IVal (VF64 b) => RF64 b
  | IVal (VV128 u) => RV128 u
  | IGlobal g => match aget (ss_g h) g with
                 | Some e => if en_imp e && negb (en_dead e) then RGlob (en_fp e) else RBad 3
                 | None => RBad 4
                 end
  | IRefFunc f => match aget (ss_f h) f with
                  | Some e => if en_dead e then RBad 5 else RFun (en_fp e)
                  | None => RBad 6
                  end
  | IRefNull ht => RNull ht
  end.
(* the entity a live handle stands for; None: unknown or deleted *)
Definition exp_ident (s : spst) (x : sp) (id : N) : option ident :=
  match aget (ss_get (sp_h s) x) id with
  | Some e =>
      if en_dead e then None
      else if en_imp e then Some (IdImp (en_fp e))
      else match x with
           | SF => Some (IdFunc (en_fp e))
           | SG => match plookup (sp_g s) (en_fp e) with
                   | Some (mkGP t (Some i)) => Some (IdGlobal t (map (exp_rop (sp_h s)) i))
                   | _ => None
                   end
           | SM => match plookup (sp_m s) (en_fp e) with Some t => Some (IdMem t) | None => None end
           end
  | None => None
  end.
Definition bound (s : spst) (o : aobs) (x : sp) (id q : N) : bool :=
  match exp_ident s x id with Some i => opt_eqb ident_eqb (Some i) (designates o x q) | None => false end.

(* multiset equality *)
Definition countb {A} (e : A -> A -> bool) (x : A) (l : list A) : nat := length (filter (e x) l).
Definition same_mset {A} (e : A -> A -> bool) (a b : list A) : bool :=
  Nat.eqb (length a) (length b) && forallb (fun x => Nat.eqb (countb e x a) (countb e x b)) a.

Definition live_ids (m : amap) (imp : bool) : list N :=
  flat_map (fun kv => let e := snd kv in if Bool.eqb (en_imp e) imp && negb (en_dead e) then [fst kv] else []) m.
Definition exp_locals (s : spst) (x : sp) : list ident :=
  flat_map (fun id => match exp_ident s x id with Some i => [i] | None => [] end) (live_ids (ss_get (sp_h s) x) false).
Definition obs_locals (o : aobs) (x : sp) : list ident := skipn (length (imp_fps o (sp_code x))) (space_of o x).

(* the import section: the surviving imports of the three spaces with the requested types, the other imports untouched *)
Definition exp_imports (c : acase) (s : spst) : list oimp :=
  flat_map (fun b => if (bi_kind b =? 3) || (bi_kind b =? 4) then [mkOI (bi_kind b) (bi_fp b) IDNone] else []) (ab_imports c)
  ++ map (fun fp => mkOI 0 fp IDNone) (live_fps (ss_f (sp_h s)) true)
  ++ map (fun fp => mkOI 1 fp (match plookup (sp_g s) fp with Some p => IDGlobal (gp_ty p) | None => IDNone end)) (live_fps (ss_g (sp_h s)) true)
  ++ map (fun fp => mkOI 2 fp (match plookup (sp_m s) fp with Some t => IDMem t | None => IDNone end)) (live_fps (ss_m (sp_h s)) true).

Definition kind_sp (k : N) : option sp := if k =? 0 then Some SF else if k =? 1 then Some SG else if k =? 2 then Some SM else None.
Definition live_exports (s : spst) : list expo := filter (fun e => negb (ex_del e)) (sp_exp s).
Definition export_ok (s : spst) (o : aobs) (e : expo) : bool :=
  match find (fun t => N.eqb (fst (fst t)) (ex_name e)) (ob_exports o) with
  | Some (_, k, q) =>
      N.eqb k (ex_kind e) &&
      match kind_sp k with Some x => bound s o x (ex_idx e) q | None => N.eqb q (ex_idx e) end
  | None => false
  end.
Definition data_ok (s : spst) (o : aobs) (kd : N * dseg) : bool :=
  match snd kd, nthN (ob_data o) (fst kd) with
  | DPassive b, Some (OPassive b') => leqb N.eqb b b'
  | DActive mem off b, Some (OActive q off' b') =>
      leqb N.eqb b b' && leqb rop_eqb (map (exp_rop (sp_h s)) off) (map (obs_rop o) off') && bound s o SM mem q
  | _, _ => false
  end.
Definition site_ok (s : spst) (o : aobs) (nr : N * (sp * N)) : bool :=
  let '(n, (x, id)) := nr in
  match find (fun t => N.eqb (fst t) n) (ob_sites o) with
  | Some (_, q) => bound s o x id q
  | None => false
  end.

(* every reference the history makes: (space, handle) *)
Definition init_refs (e : init) : list (sp * N) :=
  flat_map (fun i => match i with IGlobal g => [(SG, g)] | IRefFunc f => [(SF, f)] | _ => [] end) e.
Definition all_refs (c : acase) (s : spst) : list (sp * N) :=
  ah_sites c
  ++ flat_map (fun e => match kind_sp (ex_kind e) with Some x => [(x, ex_idx e)] | None => [] end) (live_exports s)
  ++ flat_map (fun kd => match snd kd with DActive mem off _ => (SM, mem) :: init_refs off | DPassive _ => [] end) (sp_data s)
  ++ flat_map (fun id => match aget (ss_g (sp_h s)) id with
                         | Some e => match plookup (sp_g s) (en_fp e) with Some (mkGP _ (Some i)) => init_refs i | _ => [] end
                         | None => []
                         end) (live_ids (ss_g (sp_h s)) false).
Definition ref_state (s : spst) (r : sp * N) : option bool :=        (* Some dead? / None unknown *)
  match aget (ss_get (sp_h s) (fst r)) (snd r) with Some e => Some (en_dead e) | None => None end.
Definition refs_dead (c : acase) (s : spst) : bool :=
  existsb (fun r => match ref_state s r with Some d => d | None => false end) (all_refs c s).
Definition refs_unknown (c : acase) (s : spst) : bool :=
  existsb (fun r => match ref_state s r with Some _ => false | None => true end) (all_refs c s).
(* `global.get` inside a constant expression may only name an imported global: anything else is outside the generator's
   (and the resolution's) domain *)
Definition glob_refs_local (c : acase) (s : spst) : bool :=
  existsb (fun r => match fst r, aget (ss_g (sp_h s)) (snd r) with
                    | SG, Some e => negb (en_imp e)
                    | _, _ => false
                    end)
          (flat_map (fun kd => match snd kd with DActive _ off _ => init_refs off | DPassive _ => [] end) (sp_data s)
           ++ flat_map (fun kv => match gp_init (snd kv) with Some i => init_refs i | None => [] end) (sp_g s)).

Definition holds (c : acase) : bool :=
  let s := spec_final c in
  match ao_enc c with
  | None => refs_dead c s                                            (* a loud failure is right only then *)
  | Some o =>
      negb (ss_coll (sp_h s))
      && same_mset oimp_eqb (exp_imports c s) (ob_imports o)
      && forallb (fun x => same_mset ident_eqb (exp_locals s x) (obs_locals o x)) [SF; SG; SM]
      && Nat.eqb (length (ob_data o)) (length (sp_data s)) && forallb (data_ok s o) (sp_data s)
      && Nat.eqb (length (ob_exports o)) (length (live_exports s)) && forallb (export_ok s o) (live_exports s)
      && forallb (site_ok s o) (number_from 0 (ah_sites c))
      && opt_eqb N.eqb (ob_dcount o) (if ab_dcount c then Some (lenN (sp_data s)) else None)
  end.

Definition in_domain (c : acase) : bool :=
  let s := spec_final c in
  negb (ao_api_panic c) && ss_ok (sp_h s) && sp_ok s && negb (refs_unknown c s) && negb (glob_refs_local c s).

(* ------------------------------------------------------------------------------------------ *)
(* known-finding classes, decided on the input (through the mirror model's view of the final state) *)
Definition final_model (c : acase) : astate := fst (fst (arun (abase c) (ah_ops c) [])).
Definition ispace (c : acase) (x : sp) : list item * list (N * N) :=
  match index_space (get_sp (a_m (final_model c)) x) with Ok r => r | Panic _ => ([], []) end.
(* D06 (an import added after parsing and then deleted stayed in the index space) is repaired: recalculate_ids
   drops every deleted item; the class is gone. *)
(* D24 (iterator-level add_global followed by add_imported_global: the returned id collided) is repaired:
   ModuleIterator::add_global goes through Module::add_global_internal; the class is gone. *)
(* class 300 / D30 (DataType::FuncRef / ExternRef -- what the parser reports for (ref func) / (ref extern) -- were
   emitted as the nullable funcref / externref) is repaired: From<&DataType> for wasmparser::ValType keeps them
   non-nullable; the class is gone.  No known class is left for C30. *)

Definition K (n : N) (p : acase -> bool) : N * (acase -> bool) := (n, p).
Definition cls (c : acase) (l : list (N * (acase -> bool))) : list N :=
  flat_map (fun kp : N * (acase -> bool) => if snd kp c then [fst kp] else []) l.

Definition verdict30 (c : acase) : Util.verdict :=
  (agree c, in_domain c, holds c, cls c []).
Definition report_C30 := run_report verdict30.

(* ------------------------------------------------------------------------------------------ *)
(* cases whose "observation" is the mirror model's own output: used to state refutation witnesses of the known
   findings and non-vacuity examples inside Coq (the harness replays the same shapes on the implementation) *)
Definition self_a (imports : list bimp) (funcs : list N) (globals : list (N * gpay)) (mems : list (N * mty))
                  (data : list dseg) (exports : list expo) (dcount : bool) (ops : list aop) (sites : list (sp * N)) : acase :=
  let c0 := mkAC imports funcs globals mems data exports dcount ops sites [] false None in
  let '(rets, p, e) := model_out c0 in
  mkAC imports funcs globals mems data exports dcount ops sites rets p e.
Definition holds_of (v : Util.verdict) : bool := let '(_, _, h, _) := v in h.
Definition dom_of (v : Util.verdict) : bool := let '(_, d, _, _) := v in d.
Definition known_of (v : Util.verdict) : list N := let '(_, _, _, k) := v in k.
