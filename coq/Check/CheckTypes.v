(* Types engine (C13): case format, model of one case, the executable specification of C13 written from the
   property text on the decoded type section (it never looks at types_map, groups or ids of the model), and
   the report evaluated on harness cases. *)
From Coq Require Import List NArith Bool.
Import ListNotations.
From Orca Require Import Util Flat Types.
Local Open Scope N_scope.

Definition tgroups := list (bool * list ctype).      (* rec groups: explicit?, members *)
Definition obs13 := (list N * tgroups)%type.         (* returned type ids, decoded type section *)

Record tcase := mkTC {
  tc_base : tgroups;               (* the type section of the input module *)
  tc_order : list N;               (* iteration order of module.types.types, read right after Module::parse: since the
                                      repair of D11 the model does not depend on it (kept: the case format is unchanged) *)
  tc_ops : list (N * ctype);       (* (API path, arguments) in call order *)
  tc_obs : option obs13 }.         (* None = panic / undecodable output *)

Definition model (c : tcase) : option obs13 :=
  let '(ids, st) := api_run (tc_ops c) (parse_types_asc (tc_base c)) in
  match emit_types st with
  | Some gs => Some (ids, gs)
  | None => None
  end.

Definition group_eqb (a b : bool * list ctype) : bool :=
  Bool.eqb (fst a) (fst b) && list_eqb ctype_eqb (snd a) (snd b).
Definition obs13_eqb (a b : obs13) : bool :=
  list_eqb N.eqb (fst a) (fst b) && list_eqb group_eqb (snd a) (snd b).
Definition agree (c : tcase) : bool :=
  match model c, tc_obs c with
  | Some a, Some b => obs13_eqb a b
  | None, None => true
  | _, _ => false
  end.

(* ------------------------------------------------------------------------------------------ *)
(* C13 from the statement. *)

(* the type a call asks for: the calls without super/final/shared arguments ask for a plain final, unshared type
   without supertype *)
Definition plain_path (p : N) : bool := N.eqb p 0 || N.eqb p 2 || N.eqb p 4 || N.eqb p 6.
Definition kind_of_path (p : N) : N := if N.ltb p 2 || N.eqb p 6 then 0 else if N.ltb p 4 then 1 else 2.
Definition requested (op : N * ctype) : ctype :=
  let '(p, a) := op in
  if plain_path p then mkT (kind_of_path p) (t_xs a) (t_ys a) None true false
  else mkT (kind_of_path p) (t_xs a) (t_ys a) (t_sup a) (t_fin a) (t_sh a).

Definition flat (gs : tgroups) : list ctype := concat (map snd gs).
Definition type_at (gs : tgroups) (id : N) : option ctype := nth_error (flat gs) (N.to_nat id).
Definition ctype_opt_eqb (a b : option ctype) : bool :=
  match a, b with Some x, Some y => ctype_eqb x y | None, None => true | _, _ => false end.
Definition mem_type (t : ctype) (l : list ctype) : bool := existsb (ctype_eqb t) l.

(* "encodes at the returned type index as exactly the requested type" *)
Fixpoint sound (gs : tgroups) (ops : list (N * ctype)) (ids : list N) : bool :=
  match ops, ids with
  | [], [] => true
  | op :: ops', id :: ids' => ctype_opt_eqb (type_at gs id) (Some (requested op)) && sound gs ops' ids'
  | _, _ => false
  end.
(* "adding an identical type again returns the same index" *)
Fixpoint same_as_before (t : ctype) (id : N) (ops : list (N * ctype)) (ids : list N) : bool :=
  match ops, ids with
  | op :: ops', id' :: ids' =>
      (if ctype_eqb (requested op) t then N.eqb id' id else true) && same_as_before t id ops' ids'
  | _, _ => true
  end.
Fixpoint idempotent (ops : list (N * ctype)) (ids : list N) : bool :=
  match ops, ids with
  | op :: ops', id :: ids' => same_as_before (requested op) id ops' ids' && idempotent ops' ids'
  | _, _ => true
  end.
(* "adding types never changes the index or content of any existing type": the groups of the input are the first
   groups of the output, unchanged (so every existing index designates the same type in the same rec group); what
   follows are the added types, each on its own *)
Definition preserved (base gs : tgroups) : bool :=
  list_eqb group_eqb (firstn (length base) gs) base
  && forallb (fun g => negb (fst g) && Nat.eqb (length (snd g)) 1) (skipn (length base) gs).
(* "deduplicated": nothing is added twice, and nothing that the input already had *)
Fixpoint no_repeat (seen l : list ctype) : bool :=
  match l with
  | [] => true
  | t :: l' => negb (mem_type t seen) && no_repeat (t :: seen) l'
  end.
Definition deduplicated (base gs : tgroups) : bool :=
  no_repeat (flat base) (skipn (length (flat base)) (flat gs)).

Definition holds_on (c : tcase) (o : obs13) : bool :=
  let '(ids, gs) := o in
  sound gs (tc_ops c) ids && idempotent (tc_ops c) ids && preserved (tc_base c) gs && deduplicated (tc_base c) gs.
Definition holds13 (c : tcase) : bool :=
  match tc_obs c with Some o => holds_on c o | None => false end.

(* domain: at least one addition; the input is what a decoder can produce (an implicit group has one member);
   super type ids fit PackedIndex (< 2^20, DESIGN.md section 2, last row) *)
Fixpoint upto (n : nat) : list N := match n with O => [] | S k => upto k ++ [N.of_nat k] end.
Definition memN (x : N) (l : list N) : bool := existsb (N.eqb x) l.
Definition domain13 (c : tcase) : bool :=
  negb (is_nil (tc_ops c))
  && forallb (fun g => fst g || Nat.eqb (length (snd g)) 1) (tc_base c)
  && forallb (fun op => plain_path (fst op)
                        || match t_sup (snd op) with Some i => i <? 1048576 | None => true end) (tc_ops c).

Definition verdict13 (c : tcase) : bool * bool * bool * list N :=
  (agree c, domain13 c, holds13 c, []).
Definition report_C13 := run_report verdict13.
