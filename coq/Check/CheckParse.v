(* Checker of the parse engine, property C03 ("parsing any byte string as a module or as a component either
   returns a parsed value or an error; it never panics").

   One case = the abstraction of one byte string (Model/ParseGlue.v) + what the real
   Module::parse(b, false), Module::parse(b, true) and Component::parse(b, false) were observed to do
   (Ok | Err | Panic site-class).

   * agree      : the model predicts each of the three observations (where it claims to predict: an
                  OUnmodelled prediction is compatible with every observation).
   * holds03    : the property on the *observation* -- none of the three calls panicked.  Written against
                  the property statement, it does not mention the model.
   * known03    : the classes of the observed panics, provided every one of them is in the committed table of
                  known panic sites; an observed panic at a site outside the table makes the case an
                  *unlisted* failure (known03 = []). *)
From Coq Require Import List NArith Bool.
From Orca Require Import Base.Util Model.ParseGlue.
Import ListNotations.
Local Open Scope N_scope.

Record pinput := mkPInput {
  pi_mod : list mev;          (* the byte string read as a core module *)
  pi_comp : list cev }.       (* the byte string read as a component *)

Record pcase := mkPCase {
  pc_in : pinput;
  pc_obs_mod : outcome;       (* Module::parse(b, false) *)
  pc_obs_mod_mm : outcome;    (* Module::parse(b, true) *)
  pc_obs_comp : outcome }.    (* Component::parse(b, false) *)

Definition outcome_eqb (a b : outcome) : bool :=
  match a, b with
  | OOk, OOk | OErr, OErr | OUnmodelled, OUnmodelled => true
  | OPanic x, OPanic y => x =? y
  | _, _ => false
  end.
(* prediction vs observation *)
Definition predicts (p o : outcome) : bool :=
  match p with OUnmodelled => true | _ => outcome_eqb p o end.

Definition pred_mod (c : pcase) := parse_glue false (pi_mod (pc_in c)).
Definition pred_mod_mm (c : pcase) := parse_glue true (pi_mod (pc_in c)).
Definition pred_comp (c : pcase) := parse_comp_glue false (pi_comp (pc_in c)).

Definition agree (c : pcase) : bool :=
  predicts (pred_mod c) (pc_obs_mod c) && predicts (pred_mod_mm c) (pc_obs_mod_mm c) && predicts (pred_comp c) (pc_obs_comp c).

Definition modelled (c : pcase) : bool :=
  negb (outcome_eqb (pred_mod c) OUnmodelled) && negb (outcome_eqb (pred_mod_mm c) OUnmodelled) && negb (outcome_eqb (pred_comp c) OUnmodelled).

(* the property, on the observation *)
Definition no_panic (o : outcome) : bool := match o with OPanic _ => false | _ => true end.
Definition holds03 (c : pcase) : bool := no_panic (pc_obs_mod c) && no_panic (pc_obs_mod_mm c) && no_panic (pc_obs_comp c).

Definition mem_N (k : N) (l : list N) : bool := existsb (N.eqb k) l.
Fixpoint dedup (l : list N) : list N :=
  match l with [] => [] | x :: r => if mem_N x r then dedup r else x :: dedup r end.
Definition panic_sites (c : pcase) : list N :=
  flat_map (fun o => match o with OPanic k => [k] | _ => [] end) [pc_obs_mod c; pc_obs_mod_mm c; pc_obs_comp c].
Definition known03 (c : pcase) : list N :=
  let ps := panic_sites c in
  if forallb (fun k => mem_N k known_panic_sites) ps then dedup ps else [].

(* every byte string is in the domain of C03 *)
Definition verdict03 (c : pcase) : verdict := (agree c, true, holds03 c, known03 c).
Definition report_C03 := run_report verdict03.
