(* Locals engine (C14): case format, model of one case, the executable specification of C14 written
   from the property text (index arithmetic on the encoded function; it does not use [expand],
   [bump_last] or [add_local]) and the report evaluated on harness cases. *)
From Coq Require Import List NArith Bool.
Import ListNotations.
From Orca Require Import Util Flat Lowering Locals.
Local Open Scope N_scope.

(* types are tokens (harness table: 0 i32, 1 i64, 2 f32, 3 f64, 4 v128, 5 funcref, 6 externref,
   7 (ref func), 8 (ref extern), 9 anyref, 10 eqref, 11 i31ref, 12 structref, 13 arrayref, ...) *)
Definition obs14 := (list (option N) * list N * list (N * N) * bool)%type.

Record lccase := mkLC {
  lc_params : list N;               (* parameter types of the function *)
  lc_groups : list (N * N);         (* (count, type) groups the function declares before the edits ([] for a builder) *)
  lc_ops : list (N * N);            (* (API path, requested type), in call order *)
  lc_obs : option obs14 }.          (* returned ids (None where the API returns nothing), decoded parameter
                                       types and decoded local groups of the encoded function, "every other
                                       function of the binary still has the parameters and local groups it
                                       had"; None = panic or undecodable output *)

Definition model (c : lccase) : obs14 :=
  let '(ids, l) := api_seq (lc_ops c) (parse_locals (N.of_nat (length (lc_params c))) (lc_groups c)) in
  (ids, lc_params c, emit_locals l, true).   (* no other function is touched *)

Definition optN_eqb (a b : option N) : bool :=
  match a, b with Some x, Some y => N.eqb x y | None, None => true | _, _ => false end.
Definition pairN_eqb (a b : N * N) : bool := N.eqb (fst a) (fst b) && N.eqb (snd a) (snd b).
Definition obs14_eqb (a b : obs14) : bool :=
  let '(i1, p1, g1, s1) := a in let '(i2, p2, g2, s2) := b in
  list_eqb optN_eqb i1 i2 && list_eqb N.eqb p1 p2 && list_eqb pairN_eqb g1 g2 && Bool.eqb s1 s2.

Definition agree (c : lccase) : bool :=
  match lc_obs c with Some o => obs14_eqb (model c) o | None => false end.

(* ------------------------------------------------------------------------------------------ *)
(* C14, from the statement.  A function's local index space is: parameters first, then the declared
   groups in order, each group (c, t) covering c consecutive indices of type t. *)
Fixpoint group_type (g : list (N * N)) (i : N) : option N :=
  match g with
  | [] => None
  | (c, t) :: g' => if i <? c then Some t else group_type g' (i - c)
  end.
Definition local_type (params : list N) (g : list (N * N)) (i : N) : option N :=
  let np := N.of_nat (length params) in
  if i <? np then nth_error params (N.to_nat i) else group_type g (i - np).
Fixpoint declared (g : list (N * N)) : N := match g with [] => 0 | (c, _) :: g' => c + declared g' end.

(* [ops_ok first k ops ids]: the k-th addition (counting from [first]) returned [first + k] where a
   value is returned, and the encoded function gives that index the requested type *)
Fixpoint ops_ok (params' : list N) (g' : list (N * N)) (next : N) (ops : list (N * N)) (ids : list (option N)) : bool :=
  match ops, ids with
  | [], [] => true
  | (p, ty) :: ops', r :: ids' =>
      (match r with Some id => N.eqb id next | None => N.eqb p 4 end)
      && optN_eqb (local_type params' g' next) (Some ty)
      && ops_ok params' g' (next + 1) ops' ids'
  | _, _ => false
  end.

Fixpoint upto (n : nat) : list N := match n with O => [] | S k => upto k ++ [N.of_nat k] end.

Definition holds_on (c : lccase) (o : obs14) : bool :=
  let '(ids, params', g', others_same) := o in
  let n0 := N.of_nat (length (lc_params c)) + declared (lc_groups c) in
  (* returned index = parameters + previously declared locals; that index has the requested type *)
  ops_ok params' g' n0 (lc_ops c) ids
  (* every existing parameter and local keeps its index and type *)
  && forallb (fun i => optN_eqb (local_type params' g' i) (local_type (lc_params c) (lc_groups c) i)) (upto (N.to_nat n0))
  (* the parameters are still the parameters, and exactly one local was declared per addition *)
  && N.eqb (N.of_nat (length params')) (N.of_nat (length (lc_params c)))
  && N.eqb (declared g') (declared (lc_groups c) + N.of_nat (length (lc_ops c)))
  (* parameters and locals of the other functions are untouched *)
  && others_same.

Definition holds14 (c : lccase) : bool :=
  match lc_obs c with Some o => holds_on c o | None => false end.

(* domain: at least one addition, and the u32 counters of the implementation do not wrap *)
Definition domain14 (c : lccase) : bool :=
  negb (is_nil (lc_ops c))
  && (N.of_nat (length (lc_params c)) + declared (lc_groups c) + N.of_nat (length (lc_ops c)) <? 4294967296).

Definition verdict14 (c : lccase) : bool * bool * bool * list N :=
  (agree c, domain14 c, holds14 c, []).
Definition report_C14 := run_report verdict14.
