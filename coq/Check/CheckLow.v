(* Lowering engine: case format, the model of one case, the executable specifications of
   C15 / C21 / C22 (independent of the mirror model) and the reports evaluated on harness cases. *)
From Coq Require Import List NArith ZArith Bool Lia.
Import ListNotations.
From Orca Require Import Util Flat Lowering.

Record lcase := mkCase {
  c_nparams : N; c_numlocals : N; c_groups : list (N * N);
  c_entry : list fop; c_exit : list fop; c_exit_ty : N;
  c_body : list fop;
  c_plan : list (nat * mode * list fop);         (* applied in order, one add_instr per op *)
  c_path : N;                                    (* 0 iterator+inject, 1 iterator inject_at, 2 modifier inject, 3 modifier inject_at *)
  c_skipped : bool;                              (* an unused import was deleted before encoding (D20) *)
  c_obs : option (list fop * list (N * N));      (* None = the implementation panicked *)
  c_obs2_same : bool;                            (* a second encode() returned the same bytes *)
  c_bugs : N }.                                  (* number of "BUG: ... should be resolved already" log lines *)

Fixpoint upd_nth {A} (n : nat) (f : A -> option A) (l : list A) : option (list A) :=
  match n, l with
  | _, [] => None
  | O, x :: t => match f x with Some y => Some (y :: t) | None => None end
  | S n', x :: t => match upd_nth n' f t with Some t' => Some (x :: t') | None => None end
  end.

Fixpoint add_all (op : fop) (m : mode) (xs : list fop) (f : flags) (sp : bool) : option (flags * bool) :=
  match xs with
  | [] => Some (f, sp)
  | x :: xs' => match add_instr op m x f with
                | Some (f', s) => add_all op m xs' f' (sp || s)
                | None => None
                end
  end.

(* apply the plan; returns the flagged body and whether a special mode was recorded
   ([mod_at] = the call goes through FunctionModifier::add_instr_at; since the repair of D19 that path records
   special modes like every other one, so the argument no longer matters) *)
Fixpoint apply_plan (mod_at : bool) (plan : list (nat * mode * list fop)) (body : list (fop * flags)) (sp : bool)
  : option (list (fop * flags) * bool) :=
  match plan with
  | [] => Some (body, sp)
  | (idx, m, xs) :: plan' =>
      match nth_error body idx with
      | None => None
      | Some (op, f) =>
          match (match xs, m with
                 | [], MAlternate => Some (mkFlags (f_before f) (f_after f) (Some []) (f_sa f) (f_be f) (f_bx f) (f_balt f), false)
                 | [], MBlockAlt => Some (mkFlags (f_before f) (f_after f) (f_alt f) (f_sa f) (f_be f) (f_bx f) (Some []), true)
                 | _, _ => match add_all op m xs f false with
                           | Some (f', s) => Some (f', s)
                           | None => None end
                 end) with
          | None => None
          | Some (f', s) =>
              match upd_nth idx (fun _ => Some (op, f')) body with
              | Some body' => apply_plan mod_at plan' body' (sp || s)
              | None => None
              end
          end
      end
  end.

Definition groups_eqb (a b : list (N * N)) : bool :=
  list_eqb (fun x y => N.eqb (fst x) (fst y) && N.eqb (snd x) (snd y)) a b.

Definition model (c : lcase) : option (list fop * list (N * N)) :=
  match apply_plan (N.eqb (c_path c) 3) (c_plan c) (map (fun o => (o, no_flags)) (c_body c)) false with
  | None => None
  | Some (fb, sp) =>
      let has_special := sp || negb (is_nil (c_entry c)) || negb (is_nil (c_exit c)) in   (* [c_skipped] (an import was deleted) is irrelevant since the repair of D20 *)
      let loc := mkLocals (c_nparams c) (c_numlocals c) (c_groups c) in
      let '(r, loc') := resolve has_special (c_entry c) (c_exit c) (c_exit_ty c) fb loc in
      Some (emit r, groups loc')
  end.

(* the operators reader rejects bodies whose frames do not close exactly at the last operator *)
Fixpoint framed_k (stk : list bool) (l : list fop) : bool :=
  match l with
  | [] => is_nil stk
  | o :: l' =>
      match stk with
      | [] => false
      | k :: rest =>
          match o with
          | FBlock _ | FLoop _ => framed_k (false :: stk) l'
          | FIf _ => framed_k (true :: stk) l'
          | FElse => if k then framed_k stk l' else false   (* the reader tolerates a second else; the validator does not *)
          | FEnd => framed_k rest l'
          | _ => framed_k stk l'
          end
      end
  end.
Definition framed (l : list fop) := framed_k [false] l.
(* structural well-formedness as the *validator* sees it: at most one else per if *)
Fixpoint wf_k (stk : list bool) (l : list fop) : bool :=
  match l with
  | [] => is_nil stk
  | o :: l' =>
      match stk with
      | [] => false
      | k :: rest =>
          match o with
          | FBlock _ | FLoop _ => wf_k (false :: stk) l'
          | FIf _ => wf_k (true :: stk) l'
          | FElse => if k then wf_k (false :: rest) l' else false
          | FEnd => wf_k rest l'
          | _ => wf_k stk l'
          end
      end
  end.
Definition wellformed (l : list fop) := wf_k [false] l.
Definition MALFORMED : list fop := [FOther 999999].

(* what the harness can observe of an emitted body [b]: the body itself when its frames close, the
   MALFORMED token otherwise (the decoder cannot read it back) *)
Definition obs_is (b b' : list fop) : bool :=
  if framed b then list_eqb fop_eqb b b' else list_eqb fop_eqb b' MALFORMED.

Definition agree (c : lcase) : bool :=
  match model c, c_obs c with
  | None, None => true
  | Some (b, g), Some (b', g') =>
      obs_is b b' && (groups_eqb g g' || negb (framed b))
  | _, _ => false
  end.

(* ------------------------------------------------------------------------------------------ *)
(* C15: executable specification, written against the plan (not against the flags mirror)      *)

Definition mode_eqb (a b : mode) : bool :=
  match a, b with
  | MBefore, MBefore | MAfter, MAfter | MAlternate, MAlternate | MSemanticAfter, MSemanticAfter
  | MBlockEntry, MBlockEntry | MBlockExit, MBlockExit | MBlockAlt, MBlockAlt => true
  | _, _ => false
  end.

(* code accumulated at site i for an accumulating mode *)
Fixpoint acc_code (plan : list (nat * mode * list fop)) (i : nat) (m : mode) : list fop :=
  match plan with
  | [] => []
  | (j, m', code) :: p => (if Nat.eqb i j && mode_eqb m m' then code else []) ++ acc_code p i m
  end.
(* replacement at site i for a replacing mode: an empty entry resets to "remove", code accumulates *)
Fixpoint acc_repl (plan : list (nat * mode * list fop)) (i : nat) (m : mode) (cur : option (list fop)) : option (list fop) :=
  match plan with
  | [] => cur
  | (j, m', code) :: p =>
      acc_repl p i m (if Nat.eqb i j && mode_eqb m m'
                      then (match code with
                            | [] => Some []
                            | _ => Some (match cur with None => code | Some a => a ++ code end)
                            end)
                      else cur)
  end.

Definition render15 (plan : list (nat * mode * list fop)) (last i : nat) (op : fop) : list fop :=
  acc_code plan i MBefore
  ++ (if Nat.eqb i last then [op]
      else match acc_repl plan i MAlternate None with Some a => a | None => [op] end)
  ++ (if Nat.eqb i last then [] else acc_code plan i MAfter).

Fixpoint spec15_from (plan : list (nat * mode * list fop)) (last i : nat) (body : list fop) : list fop :=
  match body with
  | [] => []
  | op :: body' => render15 plan last i op ++ spec15_from plan last (S i) body'
  end.
Definition spec15 (plan : list (nat * mode * list fop)) (body : list fop) : list fop :=
  spec15_from plan (length body - 1) 0 body.

Definition plain_mode (m : mode) : bool :=
  match m with MBefore | MAfter | MAlternate => true | _ => false end.
Definition plan_in_range (n : nat) (plan : list (nat * mode * list fop)) : bool :=
  forallb (fun e => Nat.ltb (fst (fst e)) n) plan.
Definition domain15 (c : lcase) : bool :=
  forallb (fun e => plain_mode (snd (fst e))) (c_plan c) && plan_in_range (length (c_body c)) (c_plan c)
  && is_nil (c_entry c) && is_nil (c_exit c) && negb (is_nil (c_body c)).

Definition holds15 (c : lcase) : bool :=
  match c_obs c with
  | Some (b, g) => obs_is (spec15 (c_plan c) (c_body c)) b && (groups_eqb (c_groups c) g || negb (framed (spec15 (c_plan c) (c_body c))))
  | None => false
  end.

(* ------------------------------------------------------------------------------------------ *)
(* C21: block-alternate specification on the flat body *)

(* drop through the matching end of an already opened construct; depth counts nested openers.
   [keep_end] = true stops *before* the matching end (else-removal keeps the end) *)
Fixpoint drop_region (keep_end : bool) (depth : nat) (l : list (nat * fop)) : list (nat * fop) :=
  match l with
  | [] => []
  | (i, op) :: l' =>
      match op with
      | FBlock _ | FLoop _ | FIf _ => drop_region keep_end (S depth) l'
      | FEnd => match depth with
                | O => if keep_end then l else l'
                | S d => drop_region keep_end d l'
                end
      | _ => drop_region keep_end depth l'
      end
  end.

Lemma drop_region_length keep_end : forall l depth, length (drop_region keep_end depth l) <= length l.
Proof.
  induction l as [|[i op] l IH]; intros depth; cbn [drop_region]; [lia|].
  destruct op; try (specialize (IH depth); cbn [length]; lia);
    try (specialize (IH (S depth)); cbn [length]; lia).
  destruct depth as [|d]; [destruct keep_end; cbn [length]; lia|].
  specialize (IH d); cbn [length]; lia.
Qed.

Fixpoint spec21_go (fuel : nat) (plan : list (nat * mode * list fop)) (last : nat) (l : list (nat * fop)) : list fop :=
  match fuel with
  | O => []
  | S fuel' =>
      match l with
      | [] => []
      | (i, op) :: l' =>
          match (if is_block_style op then acc_repl plan i MBlockAlt None else None) with
          | Some alt =>
              acc_code plan i MBefore ++ alt ++ acc_code plan i MAfter
              ++ spec21_go fuel' plan last (drop_region (match op with FElse => true | _ => false end) 0 l')
          | None => render15 plan last i op ++ spec21_go fuel' plan last l'
          end
      end
  end.
Fixpoint index_from {A} (i : nat) (l : list A) : list (nat * A) :=
  match l with [] => [] | x :: l' => (i, x) :: index_from (S i) l' end.
Definition spec21 (plan : list (nat * mode * list fop)) (body : list fop) : list fop :=
  spec21_go (S (length body)) plan (length body - 1) (index_from 0 body).

(* ---------- C21, second formulation: one left-to-right pass with a depth counter (the object of the
   theorem Proofs/LowAlt.lowering_alt_exact) ---------- *)
(* the depth-counter specification *)
Section DSpec.
Variable plan : list (nat * mode * list fop).
Variable last : nat.

Definition B i := acc_code plan i MBefore.
Definition A i := acc_code plan i MAfter.
Definition R i := acc_repl plan i MAlternate None.
Definition BA i := acc_repl plan i MBlockAlt None.

(* an instruction rendered as in C15 *)
Definition rend (i : nat) (op : fop) : list fop :=
  B i ++ (if last <=? i then [op] else match R i with Some a => a | None => [op] end) ++ (if last <=? i then [] else A i).
(* an instruction inside a removed region: the instruction is gone (before/after probes the user put on it
   are still emitted: C21's quantifier excludes such plans) *)
Definition rend_del (i : nat) (op : fop) : list fop :=
  B i ++ (if last <=? i then [op] else []) ++ (if last <=? i then [] else A i).
(* the opener (or else) of a replaced construct *)
Definition rend_alt (i : nat) (op : fop) (alt : list fop) : list fop :=
  B i ++ (if last <=? i then [op]
          else match alt with [] => [] | _ => match R i with Some a => a ++ alt | None => alt end end)
      ++ (if last <=? i then [] else A i).

Fixpoint dspec (i : nat) (depth : nat) (del : option nat) (retain : bool) (l : list fop) : list fop :=
  match l with
  | [] => []
  | op :: l' =>
      match op with
      | FBlock _ | FLoop _ | FIf _ =>
          match del, BA i with
          | None, Some alt => rend_alt i op alt ++ dspec (S i) (S depth) (Some depth) false l'
          | Some _, _ => rend_del i op ++ dspec (S i) (S depth) del retain l'
          | None, None => rend i op ++ dspec (S i) (S depth) None retain l'
          end
      | FElse =>
          match del, BA i with
          | None, Some alt => rend_alt i op alt ++ dspec (S i) depth (Some (depth - 1)) true l'
          | Some _, _ => rend_del i op ++ dspec (S i) depth del retain l'
          | None, None => rend i op ++ dspec (S i) depth None retain l'
          end
      | FEnd =>
          match depth with
          | O => rend i op ++ dspec (S i) O del retain l'
          | S d =>
              match del with
              | Some dd =>
                  if Nat.eqb dd d
                  then (if retain then rend i op else rend_del i op) ++ dspec (S i) d None true l'
                  else rend_del i op ++ dspec (S i) d del retain l'
              | None => rend i op ++ dspec (S i) d None retain l'
              end
          end
      | _ =>
          match del with
          | Some _ => rend_del i op ++ dspec (S i) depth del retain l'
          | None => rend i op ++ dspec (S i) depth None retain l'
          end
      end
  end.
End DSpec.

(* positions removed by the block-alternates of the plan (the construct from its opener through its end;
   for else: the else and its arm), computed with the same traversal *)
Fixpoint removed_go (fuel : nat) (plan : list (nat * mode * list fop)) (l : list (nat * fop)) : list nat :=
  match fuel with
  | O => []
  | S fuel' =>
      match l with
      | [] => []
      | (i, op) :: l' =>
          match (if is_block_style op then acc_repl plan i MBlockAlt None else None) with
          | Some _ =>
              let rest := drop_region (match op with FElse => true | _ => false end) 0 l' in
              i :: map fst (firstn (length l' - length rest) l') ++ removed_go fuel' plan rest
          | None => removed_go fuel' plan l'
          end
      end
  end.
Definition removed (plan : list (nat * mode * list fop)) (body : list fop) : list nat :=
  removed_go (S (length body)) plan (index_from 0 body).
Definition mem_nat (i : nat) (l : list nat) := existsb (Nat.eqb i) l.

Definition well_bracketed (body : list fop) : bool := framed body.

(* hypotheses of the equivalence theorem Proofs/LowAltEq.dspec_is_spec21, in boolean form *)
(* the depth counter is consistent with the nesting: no else / end at depth 0 *)
Fixpoint okdepth (depth : nat) (l : list (nat * fop)) : bool :=
  match l with
  | [] => true
  | (_, op) :: l' =>
      match op with
      | FBlock _ | FLoop _ | FIf _ => okdepth (S depth) l'
      | FElse => Nat.leb 1 depth && okdepth depth l'
      | FEnd => Nat.leb 1 depth && okdepth (depth - 1) l'
      | _ => okdepth depth l'
      end
  end.

(* the boolean form of the hypotheses, evaluated by the checker on every sampled case *)
Definition quiet_posb (plan : list (nat * mode * list fop)) (last j : nat) : bool :=
  is_nil (acc_code plan j MBefore) && is_nil (acc_code plan j MAfter) && is_none (acc_repl plan j MAlternate None) && Nat.ltb j last.
Definition eqdom (plan : list (nat * mode * list fop)) (body : list fop) : bool :=
  okdepth 1 (index_from 0 body) && forallb (quiet_posb plan (length body - 1)) (removed plan body).


Definition accepts (op : fop) (m : mode) : bool :=
  match m with
  | MSemanticAfter => is_block_style op || is_branching op
  | MBlockEntry | MBlockExit | MBlockAlt => is_block_style op
  | _ => true
  end.

(* ---- block-entry / block-exit probes on constructs OUTSIDE the replaced regions ("all other instructions and their
   instrumentation are unaffected"): their intended placement, independent of the resolver's bookkeeping, is
   entry = after the opener; exit of block / loop / else-arm = before the construct's end; exit of the then-arm of an
   `if` = before its else (before its end when it has none).  [close_of] finds that position by nesting. ---- *)
Fixpoint close_of (stop_at_else : bool) (depth : nat) (l : list (nat * fop)) : option nat :=
  match l with
  | [] => None
  | (j, op) :: l' =>
      match op with
      | FBlock _ | FLoop _ | FIf _ => close_of stop_at_else (S depth) l'
      | FElse => match depth with O => if stop_at_else then Some j else close_of stop_at_else depth l' | _ => close_of stop_at_else depth l' end
      | FEnd => match depth with O => Some j | S d => close_of stop_at_else d l' end
      | _ => close_of stop_at_else depth l'
      end
  end.
Definition exit_pos (body : list fop) (i : nat) : option nat :=
  close_of (match nth i body FEnd with FIf _ => true | _ => false end) 0 (skipn (S i) (index_from 0 body)).
Definition desugar_entry (body : list fop) (rem : list nat) (e : nat * mode * list fop) : list (nat * mode * list fop) :=
  let '(i, m, ops) := e in
  if mem_nat i rem then [] else
  match m with
  | MBlockEntry => [(i, MAfter, ops)]
  | MBlockExit => match exit_pos body i with Some j => [(j, MBefore, ops)] | None => [] end
  | _ => []
  end.
Definition desugar21 (plan : list (nat * mode * list fop)) (body : list fop) : list (nat * mode * list fop) :=
  plan ++ flat_map (desugar_entry body (removed plan body)) plan.

Definition domain21 (c : lcase) : bool :=
  let rem := removed (c_plan c) (c_body c) in
  plan_in_range (length (c_body c)) (c_plan c) && well_bracketed (c_body c)
  && is_nil (c_entry c) && is_nil (c_exit c)
  && existsb (fun e => mode_eqb (snd (fst e)) MBlockAlt) (c_plan c)
  && forallb (fun e => let '(i, m, _) := e in
                match m with
                | MBlockAlt => is_block_style (nth i (c_body c) FEnd)
                | MBefore | MAfter | MAlternate => negb (mem_nat i rem)
                | _ =>
                  (* a special-mode probe on a construct strictly inside a replaced region disappears with it
                     (C18/C19/C20: it must fire "at no other time") *)
                  (mem_nat i rem && negb (existsb (fun e' => Nat.eqb (fst (fst e')) i && mode_eqb (snd (fst e')) MBlockAlt) (c_plan c))
                   && accepts (nth i (c_body c) FEnd) m)
                  (* outside: block entry / exit probes keep their place (an `if` exit probe before the if's own else /
                     end, whatever the then-arm contains); semantic-after is left to C16-C20 *)
                  || (negb (mem_nat i rem) && is_block_style (nth i (c_body c) FEnd)
                      && match m with
                         | MBlockEntry | MBlockExit => true
                         | _ => false
                         end)
                end) (c_plan c).

Definition holds21 (c : lcase) : bool :=
  let plan := desugar21 (c_plan c) (c_body c) in
  match c_obs c with
  | Some (b, g) =>
      obs_is (spec21 plan (c_body c)) b && (groups_eqb (c_groups c) g || negb (framed (spec21 plan (c_body c))))
      (* the region formulation and the depth-counter formulation coincide whenever the plan uses only the four
         modes of the theorem *)
      && (negb (forallb (fun e => match snd (fst e) with MBefore | MAfter | MAlternate | MBlockAlt => true | _ => false end) (c_plan c))
          || (list_eqb fop_eqb (spec21 (c_plan c) (c_body c)) (dspec (c_plan c) (length (c_body c) - 1) 0 1 None true (c_body c))
              (* ... and the hypotheses of the equivalence theorem hold on every in-domain case *)
              && eqdom (c_plan c) (c_body c)))
  | None => false
  end.

Definition special_mode (m : mode) : bool := negb (plain_mode m).

(* ------------------------------------------------------------------------------------------ *)
(* C22: every accepted special-mode injection is reflected in the encoded body.  Probes carry
   unique marker constants (>= 1000); "reflected" = every marker of the injection occurs. *)
Definition markers (code : list fop) : list Z :=
  flat_map (fun o => match o with FConst z => if (1000 <=? z)%Z then [z] else [] | _ => [] end) code.
Definition occurs (z : Z) (b : list fop) : bool :=
  existsb (fun o => match o with FConst z' => Z.eqb z z' | _ => false end) b.

(* depth of every position (number of enclosing constructs of the function body) *)
Fixpoint depths_from (d : nat) (body : list fop) : list nat :=
  match body with
  | [] => []
  | op :: b =>
      match op with
      | FBlock _ | FLoop _ | FIf _ => d :: depths_from (S d) b
      | FEnd => (d - 1) :: depths_from (d - 1) b
      | _ => d :: depths_from d b
      end
  end.
(* a branch at depth d whose relative target n satisfies d <= n targets the function label *)
Definition targets_fn_label (d : nat) (op : fop) : bool :=
  match op with
  | FBr n | FBrIf n | FBrOn n _ => Nat.leb d n
  | FBrTable ts n => existsb (Nat.leb d) (n :: ts)
  | _ => false
  end.
(* D16: a semantic-after on a branch that (also) targets the function label is registered at the final
   end as after-code, which is never emitted *)
Definition known_D16 (c : lcase) : bool :=
  let ds := depths_from 0 (c_body c) in
  existsb (fun e => let '(i, m, _) := e in
             mode_eqb m MSemanticAfter && targets_fn_label (nth i ds 0) (nth i (c_body c) FEnd)) (c_plan c).

Definition is_structural (op : fop) : bool := is_block_style op || match op with FEnd => true | _ => false end.

(* domain: every injection is applicable to its instruction; the user does not delete structural instructions
   with plain alternate (the result would not be a decodable body); at least one special-mode or function-level
   injection.  Special-mode sites inside a region the plan itself removes (and on the replaced opener) are inside
   the domain: the instruction is gone, so its probes must be gone too -- silently (holds22). *)
(* a block-alternate site that is not strictly inside a region removed by another block-alternate *)
Definition top_level (c : lcase) (i : nat) : bool :=
  negb (mem_nat i (removed (filter (fun e => negb (Nat.eqb (fst (fst e)) i)) (c_plan c)) (c_body c))).

Definition domain22 (c : lcase) : bool :=
  plan_in_range (length (c_body c)) (c_plan c) && well_bracketed (c_body c)
  && forallb (fun e => let '(i, m, _) := e in
                let op := nth i (c_body c) FEnd in
                accepts op m
                && (match m with MAlternate => negb (is_structural op) | _ => true end)) (c_plan c)
  && (existsb (fun e => special_mode (snd (fst e))) (c_plan c) || negb (is_nil (c_entry c)) || negb (is_nil (c_exit c))).

(* for a replaced construct the markers of its final replacement code must occur; a nested block-alternate lies
   inside a removed region and is (rightly) dropped with it, and so is every other special-mode probe on a removed
   instruction or on the replaced opener: none of its markers may occur; and nothing is logged as unresolved *)
Definition holds22 (c : lcase) : bool :=
  match c_obs c with
  | None => false
  | Some (b, _) =>
      let rem := removed (c_plan c) (c_body c) in
      N.eqb (c_bugs c) 0
      && forallb (fun e => let '(i, m, code) := e in
                    if mode_eqb m MBlockAlt
                    then (if top_level c i
                          then forallb (fun z => occurs z b)
                                 (markers (match acc_repl (c_plan c) i MBlockAlt None with Some a => a | None => [] end))
                          else forallb (fun z => negb (occurs z b)) (markers code))
                    else if special_mode m
                    then (if mem_nat i rem then forallb (fun z => negb (occurs z b)) (markers code)
                          else forallb (fun z => occurs z b) (markers code))
                    else true) (c_plan c)
      && forallb (fun z => occurs z b) (markers (c_entry c))
      && forallb (fun z => occurs z b) (markers (c_exit c))
  end.

(* ------------------------------------------------------------------------------------------ *)
(* reports: (number of cases, model/implementation mismatches, unlisted property failures,
   known-class hits (case, class), cases inside the property's domain) *)

Definition verdict15 (c : lcase) : bool * bool * bool * list N :=
  (agree c, domain15 c, holds15 c, []).
Definition verdict21 (c : lcase) : bool * bool * bool * list N :=
  (agree c, domain21 c, holds21 c, []).
Definition verdict22 (c : lcase) : bool * bool * bool * list N :=
  (agree c, domain22 c, holds22 c,
   (if known_D16 c then [16] else []))%N.
(* C05 on this engine: the second encoding equals the first -- for every plan, also with special-mode injections
   inside regions the same plan removes (the former D31; Proofs/Cleared.v proves it of the mirror) *)
Definition verdict05 (c : lcase) : bool * bool * bool * list N :=
  (agree c, match c_obs c with Some _ => true | None => false end, c_obs2_same c, []).

Definition report_C15 := run_report verdict15.
Definition report_C21 := run_report verdict21.
Definition report_C22 := run_report verdict22.
Definition report_C05low := run_report verdict05.
