(* Iterator engine: case formats of C25 / C26, model-vs-observed agreement, the executable
   specification of the two properties (written against the property text, not against the mirror
   model), and the reports (no known-finding class: D12 / D13 are repaired). *)
From Coq Require Import List NArith Bool.
Import ListNotations.
From Orca Require Import Util Iter.
Local Open Scope N_scope.

(* One C25 case: get_func_metadata() of the generated module (local functions: id, #instructions),
   the number of imported functions (ids below it are imports), the skip list, the script
   (Some k = at most k next() calls, then reset(), then a full traversal; None = one full traversal;
   probe = call curr_loc() once more after the traversal ended) and the events observed on the real
   ModuleIterator. *)
Record mcase := mkMC {
  mc_meta : meta; mc_nimp : N; mc_skip : list N; mc_k : option nat; mc_probe : bool; mc_obs : list ev }.

(* One C26 case: metadata and skip list per module (a module absent from the skip map has []), the
   script, the events observed on the real ComponentIterator, the number of injection targets and
   whether the component encoded after injecting through the ComponentIterator is byte-identical to
   the one encoded after the same injections through per-module ModuleIterators. *)
Record ccase := mkCC {
  cc_metas : list meta; cc_skips : list (list N); cc_k : option nat; cc_probe : bool; cc_obs : list ev;
  cc_ninj : N; cc_inj_same : bool }.

Definition nilb {A} (l : list A) : bool := match l with [] => true | _ => false end.

Definition ev_eqb (a b : ev) : bool :=
  match a, b with
  | V m f i e o, V m' f' i' e' o' => N.eqb m m' && N.eqb f f' && N.eqb i i' && Bool.eqb e e' && Bool.eqb o o'
  | EPanic, EPanic | EReset, EReset | EAfter, EAfter => true
  | _, _ => false
  end.
Fixpoint evs_eqb (a b : list ev) : bool :=
  match a, b with
  | [], [] => true
  | x :: a', y :: b' => ev_eqb x y && evs_eqb a' b'
  | _, _ => false
  end.

Definition agree25 (c : mcase) : bool :=
  evs_eqb (mi_run (mc_meta c) (mc_skip c) (mc_k c) (mc_probe c)) (mc_obs c).
Definition agree26 (c : ccase) : bool :=
  evs_eqb (ci_run (cc_metas c) (cc_skips c) (cc_k c) (cc_probe c)) (cc_obs c).

(* ------------------------------------------------------------------------------------------ *)
(* Executable specification.
   C25: every instruction of every local function not listed as skipped, exactly once, in function and
   instruction order; the reported location is (function id, instruction index), the operator returned is
   the one at that location, the end flag is set exactly on the function's last instruction; after reset()
   the traversal restarts from the first instruction; no call panics (also when nothing is to be visited).
   C26: the concatenation of the above over the component's modules in order, module m with its own
   skip list, locations tagged with m. *)
Definition skipped (skip : list N) (fid : N) : bool := existsb (fun s => N.eqb s fid) skip.

Fixpoint instrs (m f : N) (n : nat) (i : N) : list ev :=
  match n with
  | O => []
  | S n' => V m f i (match n' with O => true | S _ => false end) true :: instrs m f n' (i + 1)
  end.
Definition func_visits (m : N) (fn : N * N) : list ev := instrs m (fst fn) (N.to_nat (snd fn)) 0.
Definition expected_mod (m : N) (mt : meta) (skip : list N) : list ev :=
  flat_map (func_visits m) (filter (fun fn => negb (skipped skip (fst fn))) mt).
Fixpoint expected_comp_from (m : N) (metas : list meta) (skips : list (list N)) : list ev :=
  match metas with
  | [] => []
  | mt :: r => expected_mod m mt (hd [] skips) ++ expected_comp_from (m + 1) r (tl skips)
  end.
Definition expected_comp := expected_comp_from 0.

(* the events of the script, given the visit list E of one full traversal *)
Definition expected_trace (E : list ev) (k : option nat) (probe : bool) : list ev :=
  (match k with Some k => firstn (S k) E ++ [EReset] | None => [] end) ++ E ++ (if probe then [EAfter] else []).

Definition holds25 (c : mcase) : bool :=
  evs_eqb (mc_obs c) (expected_trace (expected_mod 0 (mc_meta c) (mc_skip c)) (mc_k c) (mc_probe c)).
Definition trace_ok26 (c : ccase) : bool :=
  evs_eqb (cc_obs c) (expected_trace (expected_comp (cc_metas c) (cc_skips c)) (cc_k c) (cc_probe c)).
Definition holds26 (c : ccase) : bool := trace_ok26 c && cc_inj_same c.

(* ------------------------------------------------------------------------------------------ *)
(* Domain: what every parsed module satisfies: a body has at least its final `end`, local function ids
   ascend.  C26: at least one module, one skip list per module. *)
Fixpoint ascending (l : list N) : bool :=
  match l with
  | a :: ((b :: _) as r) => (a <? b) && ascending r
  | _ => true
  end.
Definition wf_meta (mt : meta) : bool := forallb (fun fn => 1 <=? snd fn) mt && ascending (map fst mt).
Definition domain25 (c : mcase) : bool := wf_meta (mc_meta c).
Definition domain26 (c : ccase) : bool :=
  negb (nilb (cc_metas c)) && forallb wf_meta (cc_metas c) && Nat.eqb (length (cc_skips c)) (length (cc_metas c)).

(* ------------------------------------------------------------------------------------------ *)
(* No known finding: D12 and D13 are repaired; every failing case is a violation. *)
Definition known25 (c : mcase) : list N := [].
Definition known26 (c : ccase) : list N := [].

Definition verdict25 (c : mcase) : verdict := (agree25 c, domain25 c, holds25 c, known25 c).
Definition verdict26 (c : ccase) : verdict := (agree26 c, domain26 c, holds26 c, known26 c).
Definition report_C25 := run_report verdict25.
Definition report_C26 := run_report verdict26.
