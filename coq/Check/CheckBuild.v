(* Additions engine, C12: case format, agreement of the mirror model (Model/Builder.v) with the implementation,
   the independent specification written against the property text (a function finished with the builder is in
   the encoded module with exactly the requested parameter and result types, the declared locals, the built
   instruction sequence followed by one end, its name if one was set, and the returned id refers to it), and the
   known-finding classifiers. *)
From Coq Require Import List Arith NArith ZArith Bool.
Import ListNotations.
From Orca Require Import Util Flat Lowering Locals Types Reindex CheckReidx Builder.
Local Open Scope N_scope.

Record bcase := mkBC {
  bb_types : list (list N * list N);      (* the function types of the base module (a type may occur twice) *)
  bb_imports : list (N * N);              (* (kind, fp); function imports have type 0 *)
  bb_funcs : list fobs;                   (* local functions of the base module as a decoder sees them (type 0) *)
  bh_ops : list bop;
  bh_sites : list N;                      (* `call id` references injected into the probe function *)
  bo_rets : list (option N);
  bo_api_panic : bool;
  bo_enc : option bobs }.

Definition to_rcase (c : bcase) : rcase :=
  mkRC (bb_imports c) (map fo_fp (bb_funcs c)) [] [] 0 [] [] [] false None true true.
Definition base_types (c : bcase) : tstate :=
  parse_types (map (fun pq => (false, [mkT 0 (fst pq) (snd pq) None true false])) (bb_types c))
              (Types.ids_from 0 (length (bb_types c))).
Definition bbase (c : bcase) : bstate :=
  mkB (mk_base (to_rcase c)) (base_types c)
      (map (fun f => (fo_fp f, mkFP 0 (fo_groups f) (fo_body f) (fo_name f))) (bb_funcs c)).

(* ---------- boolean equalities ---------- *)
Definition tok_eqb (a b : tok) : bool := N.eqb (fst a) (fst b) && leqb Z.eqb (snd a) (snd b).
Definition optn_eqb (a b : option N) : bool :=
  match a, b with Some x, Some y => N.eqb x y | None, None => true | _, _ => false end.
Definition fobs_eqb (a b : fobs) : bool :=
  N.eqb (fo_fp a) (fo_fp b) && leqb N.eqb (fo_params a) (fo_params b) && leqb N.eqb (fo_results a) (fo_results b)
  && leqb pair_eqb (fo_groups a) (fo_groups b) && leqb tok_eqb (fo_body a) (fo_body b) && optn_eqb (fo_name a) (fo_name b).
Definition bobs_eqb (a b : bobs) : bool :=
  leqb pair_eqb (bo_imports a) (bo_imports b) && leqb fobs_eqb (bo_funcs a) (bo_funcs b) && leqb pair_eqb (bo_sites a) (bo_sites b).
Definition optb_eqb (a b : option bobs) : bool :=
  match a, b with Some x, Some y => bobs_eqb x y | None, None => true | _, _ => false end.

Definition model_out (c : bcase) : list (option N) * bool * option bobs :=
  let '(s, rets, p) := brun (bbase c) (bh_ops c) [] in
  (rets, p, if p then None else match bencode s (bh_sites c) with Ok e => Some e | Panic _ => None end).
Definition agree (c : bcase) : bool :=
  let '(rets, p, e) := model_out c in
  leqb optn_eqb rets (bo_rets c) && Bool.eqb p (bo_api_panic c) && optb_eqb e (bo_enc c).

(* ------------------------------------------------------------------------------------------ *)
(* The specification.  A function as the property text describes it: parameter types, result types, the declared
   locals one by one, the instruction sequence, the name. *)
Record fdesc := mkFD { fd_fp : N; fd_params : list N; fd_results : list N; fd_locals : list N; fd_body : list tok; fd_name : option N }.
Definition fdesc_eqb (a b : fdesc) : bool :=
  N.eqb (fd_fp a) (fd_fp b) && leqb N.eqb (fd_params a) (fd_params b) && leqb N.eqb (fd_results a) (fd_results b)
  && leqb N.eqb (fd_locals a) (fd_locals b) && leqb tok_eqb (fd_body a) (fd_body b) && optn_eqb (fd_name a) (fd_name b).
Definition desc_of_obs (f : fobs) : fdesc :=
  mkFD (fo_fp f) (fo_params f) (fo_results f) (expand (fo_groups f)) (fo_body f) (fo_name f).

Record spst := mkSP { sp_h : sstate; sp_f : list (N * fdesc); sp_ok : bool }.
Definition spec_bbase (c : bcase) : spst :=
  mkSP (spec_base (to_rcase c)) (map (fun f => (fo_fp f, desc_of_obs f)) (bb_funcs c)) true.
Definition bspec_step (s : spst) (o : bop) (ret : option N) : spst :=
  match o with
  | BBuild fp params results locs body name =>
      mkSP (spec_step (sp_h s) (AddLocal SF fp) ret)
           ((fp, mkFD fp params results locs (body ++ [end_tok]) name) :: sp_f s) (sp_ok s)
  | BAddImpFunc fp => mkSP (spec_step (sp_h s) (AddImport SF fp) ret) (sp_f s) (sp_ok s)
  | BDelete id => mkSP (spec_step (sp_h s) (Delete SF id) ret) (sp_f s) (sp_ok s)
  | BLocalToImport id fp => mkSP (spec_step (sp_h s) (LocalToImport id fp) ret) (sp_f s) (sp_ok s)
  end.
Fixpoint bspec_run (s : spst) (h : list bop) (rets : list (option N)) : spst :=
  match h, rets with
  | o :: h', r :: rets' => bspec_run (bspec_step s o r) h' rets'
  | _, _ => s
  end.
Definition spec_final (c : bcase) : spst := bspec_run (spec_bbase c) (bh_ops c) (bo_rets c).

(* Wasm's rule: imported functions in import-section order, then the local ones in code order *)
Inductive ident := IdImp (fp : N) | IdFun (d : fdesc).
Definition ident_eqb (a b : ident) : bool :=
  match a, b with IdImp x, IdImp y => N.eqb x y | IdFun x, IdFun y => fdesc_eqb x y | _, _ => false end.
Definition imp_fps (o : bobs) : list N := map snd (filter (fun i => N.eqb (fst i) 0) (bo_imports o)).
Definition func_space (o : bobs) : list ident := map IdImp (imp_fps o) ++ map (fun f => IdFun (desc_of_obs f)) (bo_funcs o).
Definition designates (o : bobs) (q : N) : option ident := nthN (func_space o) q.

Definition exp_ident (s : spst) (id : N) : option ident :=
  match aget (ss_f (sp_h s)) id with
  | Some e =>
      if en_dead e then None
      else if en_imp e then Some (IdImp (en_fp e))
      else match plook (sp_f s) (en_fp e) with Some d => Some (IdFun d) | None => None end
  | None => None
  end.
Definition opti_eqb (a b : option ident) : bool :=
  match a, b with Some x, Some y => ident_eqb x y | None, None => true | _, _ => false end.
Definition bound (s : spst) (o : bobs) (id q : N) : bool :=
  match exp_ident s id with Some i => opti_eqb (Some i) (designates o q) | None => false end.

Definition countb {A} (e : A -> A -> bool) (x : A) (l : list A) : nat := length (filter (e x) l).
Definition same_mset {A} (e : A -> A -> bool) (a b : list A) : bool :=
  Nat.eqb (length a) (length b) && forallb (fun x => Nat.eqb (countb e x a) (countb e x b)) a.
Definition live_ids (m : amap) (imp : bool) : list N :=
  flat_map (fun kv => let e := snd kv in if Bool.eqb (en_imp e) imp && negb (en_dead e) then [fst kv] else []) m.
Definition exp_locals (s : spst) : list ident :=
  flat_map (fun id => match exp_ident s id with Some i => [i] | None => [] end) (live_ids (ss_f (sp_h s)) false).

Fixpoint number_from {A} (n : N) (l : list A) : list (N * A) :=
  match l with [] => [] | x :: l' => (n, x) :: number_from (n + 1) l' end.
Definition site_ok (s : spst) (o : bobs) (nr : N * N) : bool :=
  match find (fun t => N.eqb (fst t) (fst nr)) (bo_sites o) with
  | Some (_, q) => bound s o (snd nr) q
  | None => false
  end.
Definition ref_state (s : spst) (id : N) : option bool :=
  match aget (ss_f (sp_h s)) id with Some e => Some (en_dead e) | None => None end.
Definition refs_dead (c : bcase) (s : spst) : bool :=
  existsb (fun id => match ref_state s id with Some d => d | None => false end) (bh_sites c).
Definition refs_unknown (c : bcase) (s : spst) : bool :=
  existsb (fun id => match ref_state s id with Some _ => false | None => true end) (bh_sites c).

(* the operation at which the API panicked (if any) *)
Definition panicked_op (c : bcase) : option bop := if bo_api_panic c then nth_error (bh_ops c) (length (bo_rets c)) else None.
Definition is_build (o : bop) := match o with BBuild _ _ _ _ _ _ => true | _ => false end.
Definition build_panicked (c : bcase) : bool := match panicked_op c with Some o => is_build o | None => false end.

Definition holds (c : bcase) : bool :=
  let s := spec_final c in
  if bo_api_panic c then false                                   (* finish_module itself failed *)
  else
  match bo_enc c with
  | None => refs_dead c s
  | Some o =>
      negb (ss_coll (sp_h s))
      (* the import section: the surviving function imports, every other import untouched *)
      && same_mset pair_eqb (filter (fun i => negb (N.eqb (fst i) 0)) (bb_imports c) ++ map (fun fp => (0, fp)) (live_fps (ss_f (sp_h s)) true))
                            (bo_imports o)
      (* exactly the live local functions, each as built / as it was *)
      && same_mset ident_eqb (exp_locals s) (map (fun f => IdFun (desc_of_obs f)) (bo_funcs o))
      (* every returned id refers to its function *)
      && forallb (site_ok s o) (number_from 0 (bh_sites c))
  end.

(* domain: the history contains a build; no API call other than finish_module panicked; every id is known *)
Definition in_domain (c : bcase) : bool :=
  let s := spec_final c in
  existsb is_build (bh_ops c)
  && (negb (bo_api_panic c) || build_panicked c)
  && ss_ok (sp_h s) && sp_ok s && negb (refs_unknown c s).

(* ------------------------------------------------------------------------------------------ *)
Definition final_model (c : bcase) : bstate := fst (fst (brun (bbase c) (bh_ops c) [])).
(* D08 (finish_module panicked after any successful convert_local_fn_to_import) is repaired: the conversion takes one
   off num_local_functions, the balance the assertion checks is kept (BuildProofs.brun_wfb / build_succeeds); the class
   is gone.  A finish_module that panics is still inside the domain and a failure. *)
(* D02 (import-section order and index order of the function imports disagreed) is repaired: the import section is
   emitted in index order; the class is gone. *)
(* D06 (an import added / converted after parsing and then deleted stayed in the index space) is repaired:
   recalculate_ids drops every deleted item; the class is gone. *)

Definition K (n : N) (p : bcase -> bool) : N * (bcase -> bool) := (n, p).
Definition cls (c : bcase) (l : list (N * (bcase -> bool))) : list N :=
  flat_map (fun kp : N * (bcase -> bool) => if snd kp c then [fst kp] else []) l.
Definition verdict12 (c : bcase) : Util.verdict :=
  (agree c, in_domain c, holds c, cls c []).
Definition report_C12 := run_report verdict12.

(* cases whose observation is the model's own output (refutation witnesses, non-vacuity examples) *)
Definition self_b (types : list (list N * list N)) (imports : list (N * N)) (funcs : list fobs) (ops : list bop) (sites : list N) : bcase :=
  let c0 := mkBC types imports funcs ops sites [] false None in
  let '(rets, p, e) := model_out c0 in
  mkBC types imports funcs ops sites rets p e.
Definition holds_of (v : Util.verdict) : bool := let '(_, _, h, _) := v in h.
Definition dom_of (v : Util.verdict) : bool := let '(_, d, _, _) := v in d.
Definition known_of (v : Util.verdict) : list N := let '(_, _, _, k) := v in k.
