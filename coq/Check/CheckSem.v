(* Semantic engine (C16-C20): differential execution, inside Coq, of the original body under the
   *specification interpreter* (WasmP.exec with spec = true: probes fired by the interpreter at the
   semantically defined moments) against the body the implementation really emitted under the plain
   interpreter; plus the two correspondence ties (flat mirror = observed, tree lowering = observed). *)
From Coq Require Import List Arith NArith ZArith Bool Lia.
Import ListNotations.
From Orca Require Import Util Flat Lowering CheckLow Tree TreeLower WasmP.

Record scase := mkS {
  s_l : lcase;                 (* nparams, locals, entry/exit, body, plan, observation (see CheckLow) *)
  s_nres : nat;                (* number of i32 results of the function *)
  s_valid : bool;              (* the real validator accepted the instrumented module *)
  s_args : list (list Z) }.    (* argument vectors *)

Inductive verdict := VSame | VDiff | VFuel | VBad (why : N).

Definition zeros (n : N) : list Z := repeat 0%Z (N.to_nat n).

Definition same_result (keep : Z -> bool) (nres : nat) (a b : outcome) : verdict :=
  let tr c := filter keep (trace c) in
  match a, b with
  | OReturn ca, OReturn cb =>
      if list_eqb Z.eqb (firstn nres (stack ca)) (firstn nres (stack cb))
         && list_eqb Z.eqb (globals ca) (globals cb) && list_eqb Z.eqb (tr ca) (tr cb)
      then VSame else VDiff
  | OTrap ca, OTrap cb =>
      if list_eqb Z.eqb (globals ca) (globals cb) && list_eqb Z.eqb (tr ca) (tr cb) then VSame else VDiff
  | OFuel, _ | _, OFuel => VFuel
  | OUnsupported, _ | _, OUnsupported => VBad 1
  | ONormal _, _ | _, ONormal _ | OBr _ _ _, _ | _, OBr _ _ _ => VBad 2
  | _, _ => VDiff
  end.

Definition FUEL := Nat.mul 60 100.
(* the i32 cells of memory 0 the interpreter models, initially 0 like the memory itself *)
Definition MEM_CELLS := 8%nat.

Definition flagged_body (c : scase) : option (list (fop * flags)) :=
  match apply_plan false (c_plan (s_l c)) (map (fun o => (o, no_flags)) (c_body (s_l c))) false with
  | Some (fb, _) => Some fb
  | None => None
  end.
Definition flags_fn (fb : list (fop * flags)) (i : nat) : flags := snd (nth i fb (FEnd, no_flags)).

Definition ftypes_of (c : scase) : list (nat * nat) :=
  [(1, 0); (N.to_nat (c_nparams (s_l c)), s_nres c); (0, s_nres c)]%nat.

Definition obs_body (c : scase) : list fop := match c_obs (s_l c) with Some (b, _) => b | None => MALFORMED end.
Definition obs_numlocals (c : scase) : N :=
  match c_obs (s_l c) with Some (_, g) => fold_left (fun a x => (a + fst x)%N) g 0%N | None => 0%N end.

(* A plain `alternate` that is itself neutral -- probe code followed by the replaced instruction re-emitted -- is given its
   meaning by desugaring on the specification side: the instruction is replaced by a nop and the alternate code is run
   after its before-probes (the generator places such alternates on non-control instructions only; an alternate on a
   structural instruction makes the original unparsable here and the case fails with VBad 10). *)
Definition alt_desugared_body (fb : list (fop * flags)) (body : list fop) : list fop :=
  map (fun p => match f_alt (flags_fn fb (fst p)) with Some _ => FOther T_NOP | None => snd p end) (index_from 0 body).

Definition check_one (keep : Z -> bool) (c : scase) (args : list Z) : verdict :=
  let l := s_l c in
  match flagged_body c with
  | Some fb =>
    match parse_body (alt_desugared_body fb (c_body l)), parse_body (obs_body c) with
    | Some (t, fe), Some (t', fe') =>
        (* the code files the entry probes *after* the user's before-probes of instruction 0 *)
        let flags_at i := let f := flags_fn fb i in
                          let f1 := if Nat.eqb i 0 then w_before (c_entry l) f else f in
                          match f_alt f with Some code => w_before code f1 | None => f1 end in
        let c0 := mkC (args ++ zeros (c_numlocals l)) (0%Z :: repeat 0%Z MEM_CELLS) [] [] in
        let c0' := mkC (args ++ zeros (obs_numlocals c)) (0%Z :: repeat 0%Z MEM_CELLS) [] [] in
        same_result keep (s_nres c)
          (exec_fn (ftypes_of c) flags_at [] (c_exit l) true FUEL t fe c0)
          (exec_fn (ftypes_of c) (fun _ => no_flags) [] [] false FUEL t' fe' c0')
    | None, _ => VBad 10
    | _, None => VBad 11
    end
  | None => VBad 12
  end.

Definition worst (a b : verdict) : verdict :=
  match a, b with
  | VDiff, _ | _, VDiff => VDiff
  | VBad w, _ | _, VBad w => VBad w
  | VFuel, _ | _, VFuel => VFuel
  | _, _ => VSame
  end.
Definition check (keep : Z -> bool) (c : scase) : verdict :=
  fold_left (fun v a => worst v (check_one keep c a)) (s_args c) VSame.

(* ---------- tie of the tree-level lowering (object of the simulation theorem) to the implementation ---------- *)
Fixpoint instr_no_branch_sa (F : nat -> flags) (fuel : nat) (x : instr) : bool :=
  match fuel with
  | O => false
  | S f =>
      match x with
      | IPlain i (FBr _) | IPlain i (FBrIf _) | IPlain i (FBrTable _ _) | IPlain i (FBrOn _ _) => is_nil (f_sa (F i))
      | IPlain _ _ => true
      | IBlock _ _ _ b | ILoop _ _ _ b => forallb (instr_no_branch_sa F f) b
      | IIf _ _ _ _ t e => forallb (instr_no_branch_sa F f) t && forallb (instr_no_branch_sa F f) e
      end
  end.

Definition nonreplacing (f : flags) : bool := is_none (f_alt f) && is_none (f_balt f).

(* inside the domain of Sim.sim_closed / SimFnReal.sim_fn_real: the tree lowering must be exactly what was emitted
   (for every nesting: an `if`'s block-exit code sits before its own else / end whatever the then-arm contains).  With function-exit probes X the tree is
       pre ++ [block ty] ++ lowered body (instruction 0 without its before-code) ++ bef(final end) ++ [end] ++ X
   where pre = the before-code of instruction 0 (the user's, then the entry probes). *)
Definition tree_tie (c : scase) : bool :=
  let l := s_l c in
  match parse_body (c_body l), flagged_body c with
  | Some (t, fe), Some fb =>
      let F i := let f := flags_fn fb i in if Nat.eqb i 0 then w_before (c_entry l) f else f in
      let X := c_exit l in
      let n := S (length (c_body l)) in
      if forallb (fun x => nonreplacing (snd x)) fb && negb (is_nil t)
         && forallb (instr_no_branch_sa F n) t
      then
        match X with
        | [] => list_eqb fop_eqb (flat (flat_map (lower F X) t) ++ f_before (F fe) ++ [FEnd]) (obs_body c)
        | _ =>
            let inner := flat (flat_map (lower (F0 F) X) t) ++ f_before (F fe) in
            list_eqb fop_eqb (f_before (F 0) ++ FBlock (BtFunc (c_exit_ty l)) :: inner ++ [FEnd] ++ X ++ [FEnd]) (obs_body c)
        end
      else true
  | _, _ => true
  end.

Definition agree_sem (c : scase) : bool := agree (s_l c) && tree_tie c.
