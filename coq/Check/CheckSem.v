From Coq Require Import List Arith NArith ZArith Bool Lia.
Import ListNotations.
From Orca Require Import Flat Lowering CheckLow Tree WasmP.

Record scase := mkS {
  s_nparams : N; s_nres : nat; s_numlocals : N;
  s_entry : list fop; s_exit : list fop;
  s_body : list fop; s_plan : list (nat * mode * list fop);
  s_obs_body : list fop; s_obs_numlocals : N;
  s_args : list (list Z) }.

Inductive verdict := VSame | VDiff | VFuel | VBad (why : N).

Definition zeros (n : N) : list Z := repeat 0%Z (N.to_nat n).

Definition same_result (nres : nat) (a b : outcome) : verdict :=
  match a, b with
  | OReturn ca, OReturn cb =>
      if list_eqb Z.eqb (firstn nres (stack ca)) (firstn nres (stack cb))
         && list_eqb Z.eqb (globals ca) (globals cb) && list_eqb Z.eqb (trace ca) (trace cb)
      then VSame else VDiff
  | OTrap ca, OTrap cb =>
      if list_eqb Z.eqb (globals ca) (globals cb) && list_eqb Z.eqb (trace ca) (trace cb) then VSame else VDiff
  | OFuel, _ | _, OFuel => VFuel
  | OUnsupported, _ | _, OUnsupported => VBad 1
  | ONormal _, _ | _, ONormal _ | OBr _ _ _, _ | _, OBr _ _ _ => VBad 2
  | _, _ => VDiff
  end.

Definition FUEL := 4000%nat.

Definition check_one (c : scase) (args : list Z) : verdict :=
  match parse_body (s_body c), parse_body (s_obs_body c),
        apply_plan false (s_plan c) (map (fun o => (o, no_flags)) (s_body c)) false with
  | Some (t, fe), Some (t', fe'), Some (fb, _) =>
      let ftypes := [(1, 0); (N.to_nat (s_nparams c), s_nres c); (0, s_nres c)]%nat in
      (* the code files the entry probes *after* the user's before-probes of instruction 0 *)
      let flags_at i := let f := snd (nth i fb (FEnd, no_flags)) in
                        if Nat.eqb i 0 then w_before (s_entry c) f else f in
      let c0 := mkC (args ++ zeros (s_numlocals c)) [0%Z] [] [] in
      let c0' := mkC (args ++ zeros (s_obs_numlocals c)) [0%Z] [] [] in
      same_result (s_nres c)
        (exec_fn ftypes flags_at [] (s_exit c) true FUEL t fe c0)
        (exec_fn ftypes (fun _ => no_flags) [] [] false FUEL t' fe' c0')
  | None, _, _ => VBad 10
  | _, None, _ => VBad 11
  | _, _, None => VBad 12
  end.

Definition worst (a b : verdict) : verdict :=
  match a, b with
  | VDiff, _ | _, VDiff => VDiff
  | VBad w, _ | _, VBad w => VBad w
  | VFuel, _ | _, VFuel => VFuel
  | _, _ => VSame
  end.
Definition check (c : scase) : verdict := fold_left (fun v a => worst v (check_one c a)) (s_args c) VSame.

Fixpoint collect (i : N) (cs : list scase) (diff fuel bad : list N) : list N * list N * list N :=
  match cs with
  | [] => (rev diff, rev fuel, rev bad)
  | c :: cs' =>
      match check c with
      | VSame => collect (i + 1) cs' diff fuel bad
      | VDiff => collect (i + 1) cs' (i :: diff) fuel bad
      | VFuel => collect (i + 1) cs' diff (i :: fuel) bad
      | VBad _ => collect (i + 1) cs' diff fuel (i :: bad)
      end
  end.
Definition report (cs : list scase) := (N.of_nat (length cs), collect 0 cs [] [] []).
