(* Cases whose "observation" is the model's own output: used to state refutation witnesses of the
   known findings inside Coq (the same inputs are replayed on the implementation by the harness). *)
From Coq Require Import List Arith NArith ZArith Bool.
Import ListNotations.
From Orca Require Import Util Flat Lowering CheckLow Tree TreeLower WasmP CheckSem KnownSem.

Definition self_l (nparams numlocals : N) (entry exit : list fop) (body : list fop)
                  (plan : list (nat * mode * list fop)) (path : N) (skipped : bool) : lcase :=
  let c0 := mkCase nparams numlocals [(numlocals, 0%N)] entry exit 2 body plan path skipped None true 0 in
  mkCase nparams numlocals [(numlocals, 0%N)] entry exit 2 body plan path skipped (model c0) true 0.
Definition self_s (nres : nat) (l : lcase) (args : list (list Z)) : scase := mkS l nres true args.
Definition LOG (id : Z) : list fop := [FConst id; FOther 3].
