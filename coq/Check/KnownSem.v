(* Known-finding classifiers of the semantic engine (predicates on the *input*: body + plan) and the
   per-property reports for C16-C20. *)
From Coq Require Import List Arith NArith ZArith Bool Lia.
Import ListNotations.
From Orca Require Import Util Flat Lowering CheckLow Tree TreeLower WasmP CheckSem.

Inductive ckind := KBlock | KLoop | KIf.
Definition is_loop k := match k with KLoop => true | _ => false end.

Section K.
Variable flags_at : nat -> flags.
Definition has_sa i := negb (is_nil (f_sa (flags_at i))).

(* classes: 16 = D16, 17 = D17, 99 = semantic-after on a branch to a loop label (outside C20) *)
Definition branch_classes (ctx : list ckind) (targets : list nat) : list N :=
  let all_same := match targets with [] => true | t :: ts => forallb (Nat.eqb t) ts end in
  (if all_same then [] else [17%N]) ++
  flat_map (fun n =>
    if (length ctx <=? n)%nat then [16%N]
    else match nth_error ctx n with
         | Some KLoop => [99%N]
         | _ => if existsb is_loop (skipn (S n) ctx) then [17%N] else []
         end) targets.

Fixpoint classes (fuel : nat) (ctx : list ckind) (is : list instr) : list N :=
  match fuel with
  | O => []
  | S fuel' =>
    flat_map (fun ins =>
      match ins with
      | IPlain i (FBr n) => if has_sa i then branch_classes ctx [n] else []
      | IPlain i (FBrIf n) => if has_sa i then branch_classes ctx [n] else []
      | IPlain i (FBrOn n _) => if has_sa i then branch_classes ctx [n] else []
      | IPlain i (FBrTable ts d) => if has_sa i then branch_classes ctx (ts ++ [d]) else []
      | IPlain _ _ => []
      | IBlock _ _ _ b => classes fuel' (KBlock :: ctx) b
      | ILoop _ _ _ b => classes fuel' (KLoop :: ctx) b
      | IIf _ _ _ _ t e => classes fuel' (KIf :: ctx) t ++ classes fuel' (KIf :: ctx) e
      end) is
  end.

(* number of flagged registrations (one per target of every instrumented branch) *)
Fixpoint registrations (fuel : nat) (is : list instr) : nat :=
  match fuel with
  | O => 0
  | S fuel' =>
    fold_left (fun a ins => a +
      match ins with
      | IPlain i (FBr _) | IPlain i (FBrIf _) | IPlain i (FBrOn _ _) => if has_sa i then 1 else 0
      | IPlain i (FBrTable ts _) => if has_sa i then S (length ts) else 0
      | IPlain _ _ => 0
      | IBlock _ _ _ b | ILoop _ _ _ b => registrations fuel' b
      | IIf _ _ _ _ t e => registrations fuel' t + registrations fuel' e
      end) is 0
  end.
End K.

Definition known_classes (c : scase) : list N :=
  match parse_body (c_body (s_l c)), flagged_body c with
  | Some (t, _), Some fb =>
      let n := S (length (c_body (s_l c))) in
      classes (flags_fn fb) n [] t
      ++ (if (3 <=? registrations (flags_fn fb) n t)%nat then [18%N] else [])
  | _, _ => [0%N]
  end.
Definition in_class (k : N) (c : scase) : bool := existsb (N.eqb k) (known_classes c).
Definition only (ks : list N) (c : scase) : list N :=
  nodup N.eq_dec (filter (fun k => existsb (N.eqb k) ks) (known_classes c)).

(* ids of probes made in special modes (and the function entry/exit probes) *)
Definition const_ids (code : list fop) : list Z := flat_map (fun o => match o with FConst z => [z] | _ => [] end) code.
Definition special_ids (c : scase) : list Z :=
  flat_map (fun e => let '(_, m, code) := e in if special_mode m then const_ids code else []) (c_plan (s_l c))
  ++ const_ids (c_entry (s_l c)) ++ const_ids (c_exit (s_l c)).

Definition is_same v := match v with VSame => true | _ => false end.
Definition is_fuel v := match v with VFuel => true | _ => false end.

(* C16: results / traps / globals / original events and the before-after probe events coincide once the
   events of special-mode probes are erased; the instrumented module validates *)
Definition verdict16 (c : scase) : Util.verdict :=
  let keep z := negb (existsb (Z.eqb z) (special_ids c)) in
  let v := check keep c in
  (agree_sem c, negb (is_fuel v), is_same v && s_valid c, only [18%N] c).
(* C17-C20: every probe event at exactly the specified moments *)
Definition verdict_all (ks : list N) (c : scase) : Util.verdict :=
  let v := check (fun _ => true) c in
  (agree_sem c, negb (is_fuel v) && negb (in_class 99 c), is_same v, only ks c).

Definition report_C16 := run_report verdict16.
Definition report_C17 := run_report (verdict_all []).
Definition report_C18 := run_report (verdict_all []).
Definition report_C19 := run_report (verdict_all []).
Definition report_C20 := run_report (verdict_all [16%N; 17%N; 18%N]).
