From Coq Require Import List Arith NArith ZArith Bool Lia.
Import ListNotations.
From Orca Require Import Flat Lowering CheckLow Tree WasmP CheckSem.

Inductive ckind := KBlock | KLoop | KIf.
Definition is_loop k := match k with KLoop => true | _ => false end.

Definition blocklike (i : instr) : bool := match i with IPlain _ _ => false | _ => true end.

Section K.
Variable flags_at : nat -> flags.
Definition has_sa i := negb (is_nil (f_sa (flags_at i))).
Definition has_bx i := negb (is_nil (f_bx (flags_at i))).

(* classes: 15 = D15, 16 = D16, 17 = D17, 99 = semantic-after on a branch to a loop label (outside C20) *)
Definition branch_classes (ctx : list ckind) (targets : list nat) : list N :=
  let all_same := match targets with [] => true | t :: ts => forallb (Nat.eqb t) ts end in
  (if all_same then [] else [17%N]) ++
  flat_map (fun n =>
    if (length ctx <=? n)%nat then [16%N]
    else match nth_error ctx n with
         | Some KLoop => [99%N]
         | _ => if existsb is_loop (skipn (S n) ctx) then [17%N] else []
         end) targets.

Fixpoint classes (fuel : nat) (ctx : list ckind) (is : list instr) : list N :=
  match fuel with
  | O => []
  | S fuel' =>
    flat_map (fun ins =>
      match ins with
      | IPlain i (FBr n) => if has_sa i then branch_classes ctx [n] else []
      | IPlain i (FBrIf n) => if has_sa i then branch_classes ctx [n] else []
      | IPlain i (FBrTable ts d) => if has_sa i then branch_classes ctx (ts ++ [d]) else []
      | IPlain _ _ => []
      | IBlock _ _ _ b => classes fuel' (KBlock :: ctx) b
      | ILoop _ _ _ b => classes fuel' (KLoop :: ctx) b
      | IIf i _ _ _ t e =>
          (if has_bx i && existsb blocklike t then [15%N] else [])
          ++ classes fuel' (KIf :: ctx) t ++ classes fuel' (KIf :: ctx) e
      end) is
  end.
End K.

Definition known_classes (c : scase) : list N :=
  match parse_body (s_body c), apply_plan false (s_plan c) (map (fun o => (o, no_flags)) (s_body c)) false with
  | Some (t, _), Some (fb, _) => classes (fun i => snd (nth i fb (FEnd, no_flags))) (S (length (s_body c))) [] t
  | _, _ => [0%N]
  end.

(* diverging cases outside every known class; and the number of agreeing cases that are inside one *)
Fixpoint triage (i : N) (cs : list scase) (unlisted : list N) (known_hits clean_known : N) : list N * N * N :=
  match cs with
  | [] => (rev unlisted, known_hits, clean_known)
  | c :: cs' =>
      let k := negb (is_nil (known_classes c)) in
      match check c with
      | VSame => triage (i + 1) cs' unlisted known_hits (if k then clean_known + 1 else clean_known)%N
      | _ => if k then triage (i + 1) cs' unlisted (known_hits + 1)%N clean_known
             else triage (i + 1) cs' (i :: unlisted) known_hits clean_known
      end
  end.
Definition report2 (cs : list scase) := (N.of_nat (length cs), triage 0 cs [] 0 0).
