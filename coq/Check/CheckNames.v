(* Name-section engine (C29): case format, agreement of the mirror model (Model/Names.v) with the implementation,
   the independent specification written against the property text ("every function, local and global name of
   the encoded name section is attached to the same entity it was attached to in the input or by a naming call,
   even after edits renumber functions or globals"), the checker on the *observed* output, known classes.

   Entities are the stable handles of CheckReidx (id -> entity with fingerprint); an output index is resolved to
   an entity by Wasm's index-space rule on the decoded output ([designates]) and the entity's fingerprint.

   What the specification requires, and why:
   * soundness  - every (index, name) of the output function / global map and every (index, local-name list) of the
     output local map sits on an entity that carries exactly this name (list) in the specification state;
   * retention  - every live entity that carries a name (list) in the specification state has an entry
     ("names stay attached"); names of deleted entities are gone;
   * a name is attached by the input name section or by the latest naming call on the handle
     (Module::set_fn_name, functions.set_local_fn_name on a local, imports.set_fn_name on an imported function,
     imports.set_name on the import entry of a function / global, FunctionBuilder::set_name of a built function);
   * convert_local_fn_to_import "continue[s] using the FunctionID as normal": the handle keeps its name; the name
     the API itself gives the function (the import's field name, what functions.get_name reports) is accepted as
     well; its locals are gone with the body;
   * replace_import_in_module redirects the import's handle to the built function: the builder's name if one was
     set (a naming call), otherwise the name the handle had, or the import's field name the API assigns;
     a name a conversion gave stays acceptable through later conversions, until the next naming call on the handle;
   * a panic of a naming call on a live handle is a failure of the property (the name is not attached). *)
From Coq Require Import List Arith NArith Bool Lia.
Import ListNotations.
From Orca Require Import Util Reindex CheckReidx Names.
Local Open Scope N_scope.

Record ncase := mkNC {
  nb_imports : list (N * N);                  (* (space code 0 func 1 global 2 memory 3 table 4 tag, fp) *)
  nb_funcs : list N; nb_globals : list N; nb_mems : list N;
  nb_names : names;                           (* the name section of the input *)
  nh_ops : list nop;
  no_rets : list (option N);                  (* per completed call: returned id / bool of set_local_fn_name *)
  no_api_panic : bool;                        (* the call after the last completed one panicked *)
  no_enc : option (emod * names) }.           (* decoded layout and decoded name section of the output *)

Definition edits (h : list nop) : list op := flat_map (fun o => match o with NEdit e _ => [e] | _ => [] end) h.
Fixpoint edit_rets (h : list nop) (rets : list (option N)) : list (option N) :=
  match h, rets with
  | NEdit _ _ :: h', r :: rs => r :: edit_rets h' rs
  | _ :: h', _ :: rs => edit_rets h' rs
  | _, _ => []
  end.
Definition to_rcase (c : ncase) : rcase :=
  mkRC (nb_imports c) (nb_funcs c) (nb_globals c) (nb_mems c) 0 (edits (nh_ops c)) [] (edit_rets (nh_ops c) (no_rets c))
       (no_api_panic c) (option_map fst (no_enc c)) true true.

(* ---------- agreement ---------- *)
Fixpoint nrun_pref (s : nst) (h : list nop) (rets : list (option N)) : nst * list (option N) * bool :=
  match h with
  | [] => (s, rets, false)
  | o :: h' => match nstep s o with
               | Ok (s', r) => nrun_pref s' h' (rets ++ [r])
               | Panic _ => (s, rets, true)
               end
  end.

Definition nmap_eqb (a b : nmap) := leqb pair_eqb a b.
Definition imap_eqb (a b : imap) := leqb (fun x y => N.eqb (fst x) (fst y) && nmap_eqb (snd x) (snd y)) a b.
Definition names_eqb (a b : names) : bool :=
  optN_eqb (n_module a) (n_module b) && nmap_eqb (n_funcs a) (n_funcs b) && imap_eqb (n_locals a) (n_locals b)
  && imap_eqb (n_labels a) (n_labels b) && nmap_eqb (n_types a) (n_types b) && nmap_eqb (n_tables a) (n_tables b)
  && nmap_eqb (n_mems a) (n_mems b) && nmap_eqb (n_globals a) (n_globals b) && nmap_eqb (n_elems a) (n_elems b)
  && nmap_eqb (n_datas a) (n_datas b) && nmap_eqb (n_tags a) (n_tags b).

Definition init_state (c : ncase) : res nst := parse_names (mk_base (to_rcase c)) (lenN (nb_funcs c)) (nb_names c).

Definition agree (c : ncase) : bool :=
  match init_state c with
  | Panic _ => false
  | Ok s0 =>
      let '(s, rets, p) := nrun_pref s0 (nh_ops c) [] in
      leqb optN_eqb rets (no_rets c) && Bool.eqb p (no_api_panic c) &&
      (if p then true else
       match nencode (nb_names c) s, no_enc c with
       | Ok (e, n), Some (e', n') => emod_eqb e e' && names_eqb n n'
       | Panic _, None => true
       | _, _ => false
       end)
  end.

(* ------------------------------------------------------------------------------------------ *)
(* The specification state: the handle state of CheckReidx plus the names attached to handles *)
Record nspec := mkSp {
  sp_s : sstate;
  sp_fn : nmap;       (* function handle -> the name attached to it (input / latest naming call) *)
  sp_alt : nmap;      (* function handle -> the names the conversion API itself gave it, one entry per conversion since the
                         last naming call (accepted, not required) *)
  sp_ln : imap;       (* function handle -> names of its locals *)
  sp_gn : nmap;       (* global handle -> name *)
  sp_ok : bool;       (* false: a naming call used something that is not a live handle: outside the domain *)
  sp_ret : bool }.    (* set_local_fn_name returned what it documents *)

Definition idel (m : imap) (k : N) : imap := filter (fun kv => negb (N.eqb (fst kv) k)) m.
Fixpoint iget (m : imap) (k : N) : option nmap :=
  match m with [] => None | (k', v) :: m' => if N.eqb k k' then Some v else iget m' k end.

Definition sp_bad (s : nspec) := mkSp (sp_s s) (sp_fn s) (sp_alt s) (sp_ln s) (sp_gn s) false (sp_ret s).
Definition sp_name_fn (s : nspec) (h t : N) := mkSp (sp_s s) (nset (sp_fn s) h t) (ndel (sp_alt s) h) (sp_ln s) (sp_gn s) (sp_ok s) (sp_ret s).
Definition sp_retbad (s : nspec) := mkSp (sp_s s) (sp_fn s) (sp_alt s) (sp_ln s) (sp_gn s) (sp_ok s) false.
Definition live_ent (m : amap) (h : N) : option ent :=
  match aget m h with Some e => if en_dead e then None else Some e | None => None end.

(* import entry k is the one that currently stands for function / global handle h: no later entry of the same
   kind was pushed for h (convert_local_fn_to_import pushes a fresh entry; an older entry of h is a deleted one) *)
Definition current_entry (imports : list (N * N)) (code h k : N) : bool :=
  negb (existsb (fun ce => N.eqb (fst ce) code && N.eqb (snd ce) h) (skipn (S (N.to_nat k)) imports)).

Definition nspec_step (s : nspec) (o : nop) (ret : option N) : nspec :=
  let st := sp_s s in
  match o with
  | NEdit e bname =>
      let st' := spec_step st e ret in
      let s' := mkSp st' (sp_fn s) (sp_alt s) (sp_ln s) (sp_gn s) (sp_ok s) (sp_ret s) in
      match e with
      | Delete SF id => mkSp st' (ndel (sp_fn s) id) (ndel (sp_alt s) id) (idel (sp_ln s) id) (sp_gn s) (sp_ok s) (sp_ret s)
      | Delete SG id => mkSp st' (sp_fn s) (sp_alt s) (sp_ln s) (ndel (sp_gn s) id) (sp_ok s) (sp_ret s)
      | LocalToImport id fp =>
          match live_ent (ss_f st) id with
          | Some en => if en_imp en then s'                                 (* refused: already an import *)
                       else mkSp st' (sp_fn s) ((id, tok_import fp) :: sp_alt s) (idel (sp_ln s) id) (sp_gn s) (sp_ok s) (sp_ret s)
          | None => s'
          end
      | ImportToLocal k fp =>
          match nthN (ss_imports st) k with
          | Some (0, fid) =>
              match live_ent (ss_f st) fid with
              | Some en =>
                  if negb (current_entry (ss_imports st) 0 fid k) then sp_bad s'      (* a stale ImportsID: outside the domain *)
                  else if en_imp en then
                    match bname with
                    | Some t => mkSp st' (nset (sp_fn s) fid t) (ndel (sp_alt s) fid) (idel (sp_ln s) fid) (sp_gn s) (sp_ok s) (sp_ret s)
                    | None => mkSp st' (sp_fn s) ((fid, tok_import (en_fp en)) :: sp_alt s) (idel (sp_ln s) fid) (sp_gn s) (sp_ok s) (sp_ret s)
                    end
                  else s'
              | None => s'
              end
          | _ => s'
          end
      | AddLocal SF _ =>
          match bname, ret with
          | Some t, Some r => (match aget (ss_f st) r with
                               | Some _ => s'                                (* id collision: [ss_coll] is set *)
                               | None => mkSp st' (nset (sp_fn s) r t) (sp_alt s) (sp_ln s) (sp_gn s) (sp_ok s) (sp_ret s)
                               end)
          | _, _ => s'
          end
      | _ => s'
      end
  | NSetFn id t =>
      match live_ent (ss_f st) id with
      | Some _ => sp_name_fn s id t
      | None => sp_bad s
      end
  | NSetLocalFn id t =>
      match live_ent (ss_f st) id with
      | Some en => if en_imp en then (if optN_eqb ret (Some 0) then s else sp_retbad s)
                   else (if optN_eqb ret (Some 1) then sp_name_fn s id t else sp_retbad (sp_name_fn s id t))
      | None => sp_bad s
      end
  | NImpSetFn id t =>
      match live_ent (ss_f st) id with
      | Some en => if en_imp en then sp_name_fn s id t else s      (* not an imported function: nothing to name *)
      | None => sp_bad s
      end
  | NImpSetName k t =>
      match nthN (ss_imports st) k with
      | Some (0, fid) => match live_ent (ss_f st) fid with
                         | Some en => if en_imp en && current_entry (ss_imports st) 0 fid k then sp_name_fn s fid t else s
                         | None => s
                         end
      | Some (1, gid) => match live_ent (ss_g st) gid with
                         | Some en => if en_imp en then mkSp st (sp_fn s) (sp_alt s) (sp_ln s) (nset (sp_gn s) gid t) (sp_ok s) (sp_ret s) else s
                         | None => s
                         end
      | Some _ => s
      | None => sp_bad s
      end
  end.

(* runs over the completed calls; returns the state and the call that did not complete (if any) *)
Fixpoint nspec_run (s : nspec) (h : list nop) (rets : list (option N)) : nspec * option nop :=
  match h, rets with
  | o :: h', r :: rets' => nspec_run (nspec_step s o r) h' rets'
  | o :: _, [] => (s, Some o)
  | [], _ => (s, None)
  end.
Definition nspec_base (c : ncase) : nspec :=
  mkSp (spec_base (to_rcase c)) (n_funcs (nb_names c)) [] (n_locals (nb_names c)) (n_globals (nb_names c)) true true.
Definition nspec_final (c : ncase) : nspec * option nop := nspec_run (nspec_base c) (nh_ops c) (no_rets c).

Definition is_naming (o : nop) : bool := match o with NEdit _ _ => false | _ => true end.
(* the call that panicked is a naming call whose arguments the specification accepts *)
Definition naming_panic (c : ncase) : bool :=
  no_api_panic c &&
  match nspec_final c with
  | (s, Some o) => is_naming o && sp_ok (nspec_step s o (match o with NSetLocalFn _ _ => Some 1 | _ => None end))
  | (_, None) => false
  end.

(* ---------- resolving output indices to handles ---------- *)
Definition handle_of (m : amap) (fp : N) : option N :=
  match find (fun kv => N.eqb (en_fp (snd kv)) fp && negb (en_dead (snd kv))) m with
  | Some kv => Some (fst kv)
  | None => None
  end.
Definition out_handle (s : sstate) (e : emod) (x : sp) (q : N) : option N :=
  match designates e x q with Some fp => handle_of (ss_get s x) fp | None => None end.

Fixpoint nodup_keys {B} (m : list (N * B)) : bool :=
  match m with [] => true | (k, _) :: m' => negb (existsb (fun kv => N.eqb (fst kv) k) m') && nodup_keys m' end.

Definition tok_allowed (t : N) (a : option N) (alts : nmap) (h : N) : bool :=
  (match a with Some x => N.eqb t x | None => false end)
  || existsb (fun kv => N.eqb (fst kv) h && N.eqb (snd kv) t) alts.

(* function names: soundness, retention *)
Definition fn_sound (s : nspec) (e : emod) (out : nmap) : bool :=
  nodup_keys out &&
  forallb (fun qt => match out_handle (sp_s s) e SF (fst qt) with
                     | Some h => tok_allowed (snd qt) (lookup (sp_fn s) h) (sp_alt s) h
                     | None => false
                     end) out.
Definition has_entry {B} (s : sstate) (e : emod) (x : sp) (out : list (N * B)) (h : N) : bool :=
  existsb (fun qt => optN_eqb (out_handle s e x (fst qt)) (Some h)) out.
Definition is_live (m : amap) (h : N) : bool := match live_ent m h with Some _ => true | None => false end.
Definition fn_kept (s : nspec) (e : emod) (out : nmap) : bool :=
  forallb (fun ht => negb (is_live (ss_f (sp_s s)) (fst ht)) || has_entry (sp_s s) e SF out (fst ht)) (sp_fn s).
(* local names *)
Definition ln_sound (s : nspec) (e : emod) (out : imap) : bool :=
  nodup_keys out &&
  forallb (fun ql => match out_handle (sp_s s) e SF (fst ql) with
                     | Some h => match iget (sp_ln s) h with Some l => nmap_eqb l (snd ql) | None => false end
                     | None => false
                     end) out.
Definition ln_kept (s : nspec) (e : emod) (out : imap) : bool :=
  forallb (fun hl => negb (is_live (ss_f (sp_s s)) (fst hl)) || has_entry (sp_s s) e SF out (fst hl)) (sp_ln s).
(* global names *)
Definition gn_sound (s : nspec) (e : emod) (out : nmap) : bool :=
  nodup_keys out &&
  forallb (fun qt => match out_handle (sp_s s) e SG (fst qt) with
                     | Some h => match lookup (sp_gn s) h with Some t => N.eqb t (snd qt) | None => false end
                     | None => false
                     end) out.
Definition gn_kept (s : nspec) (e : emod) (out : nmap) : bool :=
  forallb (fun ht => negb (is_live (ss_g (sp_s s)) (fst ht)) || has_entry (sp_s s) e SG out (fst ht)) (sp_gn s).

Definition names_ok (s : nspec) (e : emod) (n : names) : bool :=
  fn_sound s e (n_funcs n) && fn_kept s e (n_funcs n)
  && ln_sound s e (n_locals n) && ln_kept s e (n_locals n)
  && gn_sound s e (n_globals n) && gn_kept s e (n_globals n).

Definition holds (c : ncase) : bool :=
  let s := fst (nspec_final c) in
  sp_ret s && negb (naming_panic c) &&
  match no_enc c with
  | Some (e, n) => names_ok s e n
  | None => true
  end.

(* ---------- domain ---------- *)
(* the decoded layout contains exactly the live entities of the specification (otherwise the entities
   themselves are wrong: C06 / C09 / C10, not a question about names) *)
Definition layout_ok (s : sstate) (e : emod) (x : sp) : bool :=
  same_set (live_fps (ss_get s x) true) (map snd (filter (fun i => N.eqb (fst i) (sp_code x)) (e_imports e)))
  && same_set (live_fps (ss_get s x) false) (match x with SF => e_funcs e | SG => e_globals e | SM => e_mems e end).
Definition in_domain (c : ncase) : bool :=
  let s := fst (nspec_final c) in
  sp_ok s && ss_ok (sp_s s) && negb (ss_coll (sp_s s)) &&
  (if no_api_panic c then naming_panic c
   else match no_enc c with
        | Some (e, _) => layout_ok (sp_s s) e SF && layout_ok (sp_s s) e SG
        | None => false
        end).

(* ------------------------------------------------------------------------------------------ *)
(* known-finding classes, decided on the input through the mirror model's states *)
Definition item_at (s : nst) (id : N) : option item := nthN (s_items (m_f (ns_m s))) id.
Definition is_func_import_at (s : nst) (k : N) : bool :=
  match nthN (m_imports (ns_m s)) k with Some im => N.eqb (i_sp im) 0 | None => false end.
(* D25 (what is left of it after the repair of Module::set_fn_name): imports.set_fn_name resolves a FunctionID as "the id-th function entry of the import vector", which is the
   function's import only for the imports of the parsed module: for an import added or converted after parsing
   (its id lies behind the local functions) another import, or none, is named; a local id can hit an added import.
   (ModuleImports has no access to the function vector; Module::set_fn_name goes through the function's import_id.) *)
Definition d25_at (s : nst) (o : nop) : bool :=
  match o with
  | NImpSetFn id _ =>
      match item_at s id with
      | Some it => if is_import it then negb (optN_eqb (it_imp it) (nth_func_import 0 id (m_imports (ns_m s))))
                   else match nth_func_import 0 id (m_imports (ns_m s)) with Some _ => true | None => false end
      | None => false
      end
  | _ => false
  end.
Fixpoint hist_any (p : nst -> nop -> bool) (s : nst) (h : list nop) : bool :=
  match h with
  | [] => false
  | o :: h' => p s o || match nstep s o with Ok (s', _) => hist_any p s' h' | Panic _ => false end
  end.
Definition hist_class (p : nst -> nop -> bool) (c : ncase) : bool :=
  match init_state c with Ok s0 => hist_any p s0 (nh_ops c) | Panic _ => false end.
(* D21 (the local / global name maps were written back with the parsed indices; a converted function lost its name)
   is repaired: the maps follow their entities through the id maps, convert_local_fn_to_import hands the function's
   name to the new import entry; class 21 is gone. *)
Definition known_D25 (c : ncase) : bool := hist_class d25_at c.
(* 202 (imports.set_name on a global import never reached the name section) is repaired: the global map takes the custom
   name of an emitted global import at the import's global index; class 202 is gone. *)
(* D06 / D26 (index-space defects of C06 / C09: a deleted item survived in the function / global vector, so the
   vector position under which a body name is emitted was not the entity's index) are repaired: recalculate_ids
   drops every deleted item; the classes 6 and 26 are gone. *)

Definition ncls (c : ncase) (l : list (N * (ncase -> bool))) : list N :=
  flat_map (fun kp : N * (ncase -> bool) => if snd kp c then [fst kp] else []) l.

(* Which known classes can explain which failing requirement.  A failing requirement that none of the classes
   present in the input explains is reported as class 299 (never listed: a violation), so that a new defect is
   not hidden behind the very frequent stale-map class. *)
Definition explain (failed : bool) (c : ncase) (cands : list (N * (ncase -> bool))) : list N :=
  if failed then match ncls c cands with [] => [299] | l => l end else [].
Fixpoint dedupN (l : list N) : list N :=
  match l with [] => [] | x :: l' => if existsb (N.eqb x) l' then dedupN l' else x :: dedupN l' end.
Definition all_classes : list (N * (ncase -> bool)) :=
  [(25, known_D25)].
Definition failing_classes (c : ncase) : list N :=
  let s := fst (nspec_final c) in
  explain (naming_panic c) c []
  ++ explain (negb (sp_ret s)) c []
  ++ match no_enc c with
     | None => []
     | Some (e, n) =>
         explain (negb (fn_sound s e (n_funcs n))) c [(25, known_D25)]
         ++ explain (negb (fn_kept s e (n_funcs n))) c [(25, known_D25)]
         ++ explain (negb (ln_sound s e (n_locals n) && ln_kept s e (n_locals n))) c []
         ++ explain (negb (gn_sound s e (n_globals n))) c []
         ++ explain (negb (gn_kept s e (n_globals n))) c []
     end.

Definition verdict29 (c : ncase) : Util.verdict :=
  (agree c, in_domain c, holds c, if holds c then ncls c all_classes else dedupN (failing_classes c)).
Definition report_C29 := run_report verdict29.

(* ------------------------------------------------------------------------------------------ *)
(* cases whose observation is the mirror model's own output (refutation witnesses stated inside Coq; the
   harness meets the same shapes on the implementation) *)
Definition self_n (imports : list (N * N)) (funcs globals mems : list N) (nm : names) (h : list nop) : ncase :=
  let c0 := mkNC imports funcs globals mems nm h [] false None in
  match init_state c0 with
  | Panic _ => c0
  | Ok s0 =>
      let '(s, rets, p) := nrun_pref s0 h [] in
      let enc := if p then None else match nencode nm s with Ok en => Some en | Panic _ => None end in
      mkNC imports funcs globals mems nm h rets p enc
  end.
Definition only_names (f : nmap) (l : imap) (g : nmap) : names := mkNames None f l [] [] [] [] g [] [] [].
