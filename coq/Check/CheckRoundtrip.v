(* Checker of the round-trip half of the parse engine: C02 (an unmodified round trip preserves the module content)
   and C01 (an unmodified parse-then-encode yields a valid module).

   One case = a valid module of the quantified profiles (input validity is re-checked by the harness with
   wasmparser's Validator and exactly the features of the profile; `rc_in_valid` is the domain predicate) + what the
   real Module::parse / Module::encode were observed to do + the decoded form of input and output:
     items  : per item kind (type, import, func, table, memory, global, export, start, elem, data, tag) the hashes of
              the printed text of every item, in order (custom sections are stripped before printing);
     names  : per name-map kind (module, function, local, label, type, table, memory, global, elem, data, field, tag;
              a 13th list collects undecodable entries) the tokens hash(index, sub-index, name) of its entries, sorted;
     customs: the non-name custom sections in order as (name hash, data hash);
     conv   : the value types of the input that pass through wirm's DataType (type section, locals), each with what
              the real conversions DataType::from ; wasm_encoder::ValType::from made of it.

   * holds02 : parse and encode succeeded and the three decoded forms are equal  -- C02 on the observation.
   * holds01 : parse and encode succeeded and the output passes the validator    -- C01 on the observation.
   * the model side: the parse outcome is predicted by Model/ParseGlue.v from the payload abstraction; the content is
     predicted to be preserved exactly when no converted value type is in the known class D10 (decided with the
     *generated* conversion tables); the generated tables must reproduce every observed conversion.
   * known classes: 909 / 910 = Module::parse returns Err on this valid input because an entry of its name section
     cannot be decoded (D09i / D09j; the panics D09a-d are repaired); 101 / 102 / 103 = D10 (exnref / contref
     nullability, shared). *)
From Coq Require Import List NArith Bool.
From Orca Require Import Base.Util Model.ParseGlue Model.ValTypes Gen.GenDataTypeConv Proofs.ValTypeProofs Check.CheckParse.
Import ListNotations.
Local Open Scope N_scope.

Record rcase := mkRCase {
  rc_mm : bool;                              (* parsed with enable_multi_memory *)
  rc_mod : list mev;                         (* payload abstraction of the input *)
  rc_obs_parse : outcome;                    (* Module::parse *)
  rc_obs_encode : outcome;                   (* Module::encode: OOk | OPanic k | OErr = not reached *)
  rc_in_valid : bool;
  rc_out_valid : bool;
  rc_items_in : list (list N);
  rc_items_out : list (list N);
  rc_names_in : list (list N);
  rc_names_out : list (list N);
  rc_customs_in : list (N * N);
  rc_customs_out : list (N * N);
  rc_conv : list (valtype * option valtype) }.

Fixpoint list_eqb {A} (eqb : A -> A -> bool) (a b : list A) : bool :=
  match a, b with
  | [], [] => true
  | x :: a', y :: b' => eqb x y && list_eqb eqb a' b'
  | _, _ => false
  end.
Definition pair_eqb (a b : N * N) : bool := (fst a =? fst b) && (snd a =? snd b).

Definition items_equal (c : rcase) : bool := list_eqb (list_eqb N.eqb) (rc_items_in c) (rc_items_out c).
Definition names_equal (c : rcase) : bool := list_eqb (list_eqb N.eqb) (rc_names_in c) (rc_names_out c).
Definition customs_equal (c : rcase) : bool := list_eqb pair_eqb (rc_customs_in c) (rc_customs_out c).
Definition content_equal (c : rcase) : bool := items_equal c && names_equal c && customs_equal c.

Definition ran_ok (c : rcase) : bool := outcome_eqb (rc_obs_parse c) OOk && outcome_eqb (rc_obs_encode c) OOk.

(* the properties, on the observation *)
Definition holds02 (c : rcase) : bool := ran_ok c && content_equal c.
Definition holds01 (c : rcase) : bool := ran_ok c && rc_out_valid c.

(* ---- model side ---- *)
Definition pred_parse (c : rcase) : outcome := parse_glue (rc_mm c) (rc_mod c).
Definition conv_types (c : rcase) : list valtype := map fst (rc_conv c).
Definition d10_in (c : rcase) : bool := existsb known_D10 (conv_types c).
(* the generated tables reproduce the real conversions *)
Definition conv_agrees (c : rcase) : bool :=
  forallb (fun p => opt_valtype_eqb (roundtrip_enc (fst p)) (snd p)) (rc_conv c).

(* prediction of C02 on a parsed module: the content is preserved iff no converted value type is in D10 *)
Definition pred_content_equal (c : rcase) : bool := negb (d10_in c).

Definition agree_parse (c : rcase) : bool := predicts (pred_parse c) (rc_obs_parse c) && conv_agrees c.
Definition agree02 (c : rcase) : bool :=
  agree_parse c &&
  match rc_obs_parse c with
  | OOk => outcome_eqb (rc_obs_encode c) OOk && Bool.eqb (content_equal c) (pred_content_equal c)
  | _ => true
  end.
(* for C01 the model reduces validity to content: an output whose decoded content equals that of the valid input
   must validate (the trusted-base assumption "validity depends on content and section order only", sampled) *)
Definition agree01 (c : rcase) : bool :=
  agree_parse c &&
  match rc_obs_parse c with
  | OOk => outcome_eqb (rc_obs_encode c) OOk && implb (rc_in_valid c && content_equal c) (rc_out_valid c)
  | _ => true
  end.

(* ---- known classes, decided on the input ---- *)
(* a valid module that Module::parse rejects with Err because its name section cannot be decoded (custom sections
   are not validated): 909 = an unreadable subsection, function-name entry, direct map entry or inner map of an
   indirect entry; 910 = an unreadable outer entry of a local / label / field map.  (Before the repairs of D09i / D09j
   these inputs made the parse panic.) *)
Definition iitem_bad (i : iitem) : bool := match i with IIErr => true | IIMap ok => negb ok end.
Definition nsub_class (s : nsub) : list N :=
  match s with
  | NSErr => [909]
  | NSFunc l => if existsb (fun n => match n with NIErr => true | _ => false end) l then [909] else []
  | NSMap ok => if ok then [] else [909]
  | NSInd l => if existsb (fun i => match i with IIErr => true | _ => false end) l then [910]
               else if existsb iitem_bad l then [909] else []
  | NSOther => []
  end.
Definition name_class (l : list mev) : list N :=
  dedup (flat_map (fun e => match e with MName subs => flat_map nsub_class subs | _ => [] end) l).
Definition parse_class (c : rcase) : list N :=
  match pred_parse c with
  | OErr => name_class (rc_mod c)
  | OPanic k => if mem_N k known_panic_sites then [k] else []
  | _ => []
  end.
Definition d10_classes (c : rcase) : list N :=
  (if existsb d10_exn (conv_types c) then [101] else []) ++
  (if existsb d10_cont (conv_types c) then [102] else []) ++
  (if existsb d10_shared (conv_types c) then [103] else []).
Definition known_rt (c : rcase) : list N := parse_class c ++ d10_classes c.

Definition verdict02 (c : rcase) : verdict := (agree02 c, rc_in_valid c, holds02 c, known_rt c).
Definition verdict01 (c : rcase) : verdict := (agree01 c, rc_in_valid c, holds01 c, known_rt c).
Definition report_C02 := run_report verdict02.
Definition report_C01 := run_report verdict01.
